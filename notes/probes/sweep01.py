import warnings; warnings.filterwarnings("ignore")
import sys, json, random, time, traceback, os
from concurrent.futures import ProcessPoolExecutor, as_completed
GR = {
 "lang": {"<start>": ["<stmt>"], "<stmt>": ["<assgn> ; <stmt>", "<assgn>"], "<assgn>": ["<var> := <rhs>"], "<rhs>": ["<var>", "<digit>"], "<var>": list("abc"), "<digit>": list("012")},
 "blk": {"<start>": ["<block>"], "<block>": ["{<stmts>}"], "<stmts>": ["<stmt><stmts>", "<stmt>"], "<stmt>": ["<block>", "<decl>", "<use>"], "<decl>": ["int <id>;"], "<use>": ["<id>=<id>;"], "<id>": list("xyz")},
 "num": {"<start>": ["<rec>"], "<rec>": ["<key>=<num>", "<key>=<num>,<rec>"], "<key>": ["k", "m", "kk"], "<num>": ["<d>", "<nz><ds>"], "<ds>": ["<d>", "<d><ds>"], "<d>": list("0123456789"), "<nz>": list("123456789")},
}
CONS = {
 "lang": ['<var> = "a"', 'not(<var> = "a")', 'str.len(<stmt>) > 10', 'exists <assgn> a: a.<rhs>.<digit> = "2"', 'forall <assgn> a: exists <assgn> b: (before(b, a) and a.<rhs>.<var> = b.<var>)',
          'count(start, "<assgn>", "3")', 'forall <assgn> a="{<var> l} := {<rhs> r}": not(l = r)', 'exists <stmt> s="{<assgn> x} ; {<assgn> y}": x = y', 'str.to.int(<digit>) > 0',
          'exists <var> v: (v = "c" and after(v, <digit>))', 'exists int n: (count(start, "<var>", n) and str.to.int(n) > 3)', '<assgn> = "a := 1" or <assgn> = "b := 2"',
          'str.prefixof("a", <assgn>)', 'str.contains(<stmt>, "c := c")', 'str.to.int(<digit>) div 2 = 1', 'str.to.int(<digit>) mod 2 = 0', 'forall <rhs> r: (exists <digit> d in r: str.to.int(d) >= 1)',
          'inside(<digit>, <assgn>) and different_position(<var>, <digit>)', 'nth("2", <assgn>, start) implies <assgn>.<var> = "b"', 'exists <assgn> a: exists <assgn> b: (consecutive(a, b))'],
 "blk": ['forall <use> u: exists <decl> d: (before(d, u) and u.<id>[2] = d.<id>)', 'forall <use> u: exists <decl> d: (level("GE", "<block>", d, u) and before(d, u) and u.<id>[1] = d.<id>)', 'count(start, "<block>", "3")', 'exists <decl> d: d.<id> = "z"', '<id> = "x"', 'str.len(<stmts>) <= 14',
         'forall <decl> d1: forall <decl> d2: (same_position(d1, d2) or not(d1.<id> = d2.<id>))', 'exists <block> b: (direct_child(b, <stmt>))'],
 "num": ['str.to.int(<num>) > 50', 'str.to.int(<num>) < 3', 'str.to.int(<num>) + 1 = 8', 'str.len(<num>) = 3', '<key> = "kk"', 'forall <rec> r="{<key> k}={<num> n}": (k = "k" implies str.to.int(n) > 5)', 'exists <num> n: str.to.int(n) * 2 = 24', 'str.to.int(<num>) - 3 > 0 and str.to.int(<num>) < 9',
         'exists int i: (count(start, "<num>", i) and str.to.int(i) >= 2)', 'abs(str.to.int(<num>) - 5) < 2', 'str.to.int(<num>) >= -1', 'not (str.to.int(<num>) = 7)', 'str.suffixof("7", <num>)', 'str.at(<num>, 0) = "1"'],
}
def run(args):
    gname, c, settings, rseed = args
    import warnings; warnings.filterwarnings("ignore")
    import logging; logging.disable(logging.CRITICAL)
    from isla.solver import ISLaSolver
    random.seed(rseed)
    t0 = time.time(); out = []; end = None
    try:
        s = ISLaSolver(GR[gname], c, timeout_seconds=10, **settings)
    except BaseException as e:
        return (gname, c, settings, "CTOR:" + type(e).__name__ + ":" + str(e)[:100], [], 0)
    for i in range(8):
        try:
            out.append(str(s.solve()))
        except StopIteration: end = "STOP"; break
        except TimeoutError: end = "TIMEOUT"; break
        except BaseException as e:
            tb = traceback.extract_tb(e.__traceback__)
            end = "EXC:" + type(e).__name__ + ":" + str(e)[:80].replace("\n", " ") + " @" + tb[-1].name + ":" + str(tb[-1].lineno); break
    return (gname, c, settings, end or "COUNT", out, round(time.time() - t0, 1))
if __name__ == "__main__":
    jobs = []
    for gname in GR:
        for c in CONS[gname]:
            for settings in [{"max_number_free_instantiations": 1, "max_number_smt_instantiations": 2}, {"enable_optimized_z3_queries": False, "max_number_free_instantiations": 2}]:
                jobs.append((gname, c, settings, 7))
    with ProcessPoolExecutor(14) as ex:
        for r in ex.map(run, jobs):
            print(r[0], "|", r[1][:70], "|", "opt" if "enable_optimized_z3_queries" not in r[2] else "noopt", "|", r[3], "|", len(r[4]), r[4][:3], r[5])
