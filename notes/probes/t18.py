import warnings; warnings.filterwarnings("ignore")
import random, logging; logging.disable(logging.CRITICAL)
from isla.solver import ISLaSolver
LANG = {"<start>": ["<stmt>"], "<stmt>": ["<assgn> ; <stmt>", "<assgn>"], "<assgn>": ["<var> := <rhs>"], "<rhs>": ["<var>", "<digit>"], "<var>": list("abc"), "<digit>": list("012")}
random.seed(1)
for kw in [dict(start_symbol="<assgn>"), dict(start_symbol="<rhs>")]:
    for c in [None, '<var> = "a"', 'exists <var> v in start: v = "b"']:
        try:
            s = ISLaSolver(LANG, c, **kw)
            ts = [s.solve() for _ in range(3)]
            print(kw, c, [(t.value, str(t)) for t in ts], "grammar start:", s.grammar["<start>"])
        except BaseException as e:
            print(kw, c, "EXC", type(e).__name__, str(e)[:100])
