import json, subprocess, sys, os, time
LANG = {"<start>": ["<stmt>"], "<stmt>": ["<assgn> ; <stmt>", "<assgn>"], "<assgn>": ["<var> := <rhs>"], "<rhs>": ["<var>", "<digit>"], "<var>": list("abcdefghijklmnopqrstuvwxyz"), "<digit>": list("0123456789")}
cfgs = [
 {"grammar": LANG, "constraint": None, "n": 10, "rseed": 1},
 {"grammar": LANG, "constraint": '<var> = "a"', "n": 8, "rseed": 2, "settings": {"max_number_free_instantiations": 1}},
 {"grammar": LANG, "constraint": 'str.to.int(<digit>) mod 2 = 0', "n": 8, "rseed": 3, "settings": {"max_number_free_instantiations": 1, "max_number_smt_instantiations": 2}},
 {"grammar": LANG, "constraint": 'forall <assgn> assgn_1: exists <assgn> assgn_2: (before(assgn_2, assgn_1) and assgn_1.<rhs>.<var> = assgn_2.<var>)', "n": 8, "rseed": 4, "settings": {"max_number_free_instantiations": 1, "max_number_smt_instantiations": 1}},
 {"grammar": LANG, "constraint": 'exists <assgn> a: a.<rhs>.<digit> = "7"', "n": 8, "rseed": 5},
 {"grammar": LANG, "constraint": 'count(start, "<assgn>", "3")', "n": 6, "rseed": 6},
]
for hs in ["0", "7"]:
  for cfg in cfgs:
    res = []
    for rep in range(2):
        t0=time.time()
        p = subprocess.run(["/venv/bin/python", "child22.py", json.dumps(cfg)], capture_output=True, text=True, env=dict(os.environ, PYTHONHASHSEED=hs), timeout=300)
        res.append((p.stdout.strip().splitlines() or ["<no output> "+p.stderr[-300:]])[-1])
        dt = time.time()-t0
    same = res[0] == res[1]
    print(hs, same, round(dt,1), str(cfg["constraint"])[:40], res[0][:160] if same else (res[0][:300], res[1][:300]))
