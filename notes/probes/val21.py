import json, sys, io, re
def csv_records(s):
    # dialect: records end with \n; fields separated by ';'; a field is quoted iff (after optional?) first char is '"': quoted field = " ... " with no '"' inside
    recs = []; i = 0; n = len(s)
    while i < n:
        fields = []
        while True:
            if i < n and s[i] == '"':
                j = s.find('"', i + 1)
                if j < 0: return None, "unterminated quote"
                fields.append(s[i:j + 1]); i = j + 1
            else:
                j = i
                while j < n and s[j] not in ';\n"': j += 1
                fields.append(s[i:j]); i = j
            if i < n and s[i] == ';': i += 1; continue
            if i < n and s[i] == '\n': i += 1; break
            return None, "unexpected char %r at %d" % (s[i:i + 1], i)
        recs.append(fields)
    return recs, None
def check_csv(s):
    recs, err = csv_records(s)
    if err: return err
    if not recs: return "no records"
    if len({len(r) for r in recs}) != 1: return "column counts differ: %s" % [len(r) for r in recs]
    return None
def check_xml(s):
    import xml.etree.ElementTree as ET
    try: ET.fromstring(s)
    except Exception as e: return "ET: %s" % e
    from xml.dom import minidom
    try: minidom.parseString(s)
    except Exception as e: return "minidom: %s" % e
    return None
def check_rest(s):
    from docutils.core import publish_doctree
    from docutils import nodes
    err = io.StringIO()
    try:
        doc = publish_doctree(s, settings_overrides={"input_encoding": "unicode", "warning_stream": err, "report_level": 2})
    except Exception as e: return "docutils exception %s" % e
    msgs = [m for m in doc.findall(nodes.system_message) if m["level"] >= 2]
    if msgs: return "system_message: " + msgs[0].astext()[:120]
    if err.getvalue().strip(): return "stderr: " + err.getvalue()[:120]
    return None
def check_tar(s):
    b = s.encode("latin-1")
    i = 0; names = []; entries = []
    while i < len(b):
        h = b[i:i + 209]
        if len(h) < 209: return "short header"
        name, chk, flag, link = h[:100], h[100:108], h[108:109], h[109:209]
        content = b[i + 209:i + 216]
        if content != b"CONTENT": return "content"
        if not re.fullmatch(rb"[0-7]{6}\x00 ", chk): return "checksum format %r" % chk
        exp = sum(h[:100] + b" " * 8 + h[108:])
        if int(chk[:6], 8) != exp: return "checksum %r != %o" % (chk, exp)
        if flag not in (b"0", b"2"): return "flag"
        entries.append((name.rstrip(b"\x00"), flag, link.rstrip(b"\x00")))
        if not re.fullmatch(rb"[^\x00]+\x00*", name): return "name padding"
        i += 216
    for k, (nm, fl, ln) in enumerate(entries):
        if fl == b"2" and not any(j != k and e[0] == ln for j, e in enumerate(entries)): return "dangling link %r" % ln
    return None
V = {"csv": check_csv, "xml": check_xml, "rest": check_rest, "tar": check_tar}
for w in ["csv", "xml", "rest", "tar"]:
    d = json.load(open("sol_%s.json" % w))
    bad = [(x, V[w](x)) for x in d["out"] if V[w](x)]
    print(w, d["n"], "bad", len(bad))
    for x, e in bad[:5]: print("   ", repr(x)[:160], "=>", e)
