import warnings; warnings.filterwarnings("ignore")
import random, sys, traceback
from collections import Counter
from isla.derivation_tree import DerivationTree as DT
# model: dict-free immutable tuples (label, children|None, id)
NEXT = [10**6]
def fresh():
    NEXT[0] += 1; return NEXT[0]
def rand_model(rnd, depth, wide=False):
    lab = rnd.choice(["<a>", "<b>", "<c>"])
    if depth == 0 or rnd.random() < 0.25:
        c = rnd.random()
        if c < 0.4: return (rnd.choice(["x", "y", "zz", ""]), (), fresh())
        if c < 0.7: return (lab, None, fresh())
        return (lab, (), fresh())
    k = rnd.randint(29, 36) if wide and rnd.random() < 0.3 else rnd.randint(1, 4)
    return (lab, tuple(rand_model(rnd, depth - 1) for _ in range(k)), fresh())
def to_dt(m): return DT(m[0], None if m[1] is None else [to_dt(c) for c in m[1]], id=m[2])
def mnodes(m, p=()):
    yield p, m
    for i, c in enumerate(m[1] or ()): yield from mnodes(c, p + (i,))
def mstr(m):
    if m[1] is None: return ""
    if not m[1]: return "" if m[0].startswith("<") else m[0]
    return "".join(mstr(c) for c in m[1])
def mopen(m): return any(n[1] is None for _, n in mnodes(m))
def mreplace(m, p, s):
    if not p: return s
    return (m[0], tuple(mreplace(c, p[1:], s) if i == p[0] else c for i, c in enumerate(m[1])), m[2])
def check(t, m, st, where):
    probs = []
    exp = list(mnodes(m))
    try:
        if str(t.to_string()) != mstr(m): probs.append("str")
        if t.is_open() != mopen(m): probs.append("is_open")
        ps = t.paths()
        if [(p, n.value, n.id) for p, n in ps] != [(p, n[0], n[2]) for p, n in exp]: probs.append("paths")
        if len(t) != len(exp): probs.append("len")
        for p, n in exp:
            s = t.get_subtree(p)
            if s is None or s.value != n[0] or s.id != n[2]: probs.append("get_subtree"); break
            if not t.is_valid_path(p): probs.append("is_valid_path"); break
        firsts = {}
        for p, n in exp: firsts.setdefault(n[2], p)
        for i, p in list(firsts.items())[:30]:
            if t.find_node(i) != p: probs.append("find_node"); break
        tr = t.trie()
        keys = tr.keys()
        if sorted(keys) != sorted(p for p, _ in exp): probs.append("trie_keys(%d/%d)" % (len(keys), len(exp)))
        else:
            items = tr.items()
            if [(k, v[1].id) for k, v in items] != [(p, n[2]) for p, n in exp]: probs.append("trie_items_order")
            # subtrie
            for p, n in exp[:10]:
                sub = tr.get_subtrie(p).items()
                want = [(q[len(p):], x[2]) for q, x in exp if q[:len(p)] == p]
                if [(k, v[1].id) for k, v in sub] != want: probs.append("subtrie"); break
        if [p for p, _ in t.leaves()] != [p for p, n in exp if not n[1]]: probs.append("leaves")
        if [p for p, _ in t.open_leaves()] != [p for p, n in exp if n[1] is None]: probs.append("open_leaves")
    except BaseException as e:
        tb = traceback.extract_tb(e.__traceback__)
        probs.append("EXC:" + type(e).__name__ + "@" + tb[-1].name)
    for pr_ in probs: st[where + ":" + pr_] += 1
    return probs
def main(seed, n):
    rnd = random.Random(seed); st = Counter(); shown = 0
    for it in range(n):
        m = rand_model(rnd, rnd.randint(1, 4), wide=(it % 3 == 0)); t = to_dt(m)
        for step in range(rnd.randint(1, 8)):
            # touch caches randomly
            for f in rnd.sample([lambda: t.is_open(), lambda: str(t), lambda: len(t), lambda: hash(t), lambda: t.structural_hash(), lambda: t.paths(), lambda: t.trie()], rnd.randint(0, 4)): f()
            exp = list(mnodes(m))
            inner = [(p, n) for p, n in exp]
            p, n = rnd.choice(inner)
            s = rand_model(rnd, rnd.randint(0, 2))
            op = rnd.choice(["replace", "replace_retain", "substitute"])
            try:
                if op == "replace":
                    t2 = t.replace_path(p, to_dt(s)); m2 = mreplace(m, p, s)
                elif op == "replace_retain":
                    t2 = t.replace_path(p, to_dt(s), retain_id=True); s2 = (s[0], s[1], n[2]); m2 = mreplace(m, p, s2)
                else:
                    if len({x[2] for _, x in exp}) != len(exp): continue
                    t2 = t.substitute({t.get_subtree(p): to_dt(s)}); m2 = mreplace(m, p, s)
            except BaseException as e:
                st["op_exc:" + op + ":" + type(e).__name__] += 1; continue
            st["ops"] += 1
            # original unchanged
            pr1 = check(t, m, st, "orig_after_" + op)
            pr2 = check(t2, m2, st, "result_" + op)
            if (pr1 or pr2) and shown < 6 and not all("trie" in x for x in pr1 + pr2):
                shown += 1; print("PROBLEM", op, p, pr1, pr2, "model", str(m)[:200], "s", str(s)[:100])
            t, m = t2, m2
    print(dict(st))
if __name__ == "__main__": main(int(sys.argv[1]), int(sys.argv[2]))
