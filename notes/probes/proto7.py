import warnings; warnings.filterwarnings("ignore")
import random, sys, re
from collections import Counter
from proto import *
import proto8
def main(seed, n):
    from isla.language import parse_isla, unparse_isla
    from isla.isla_predicates import STANDARD_STRUCTURAL_PREDICATES as SP, STANDARD_SEMANTIC_PREDICATES as MP
    rnd = random.Random(seed); st = Counter(); shown = Counter()
    for gname, g in GRAMMARS.items():
        cg = canon(g); mind = min_depths(cg); R = reach(cg)
        trees = [gen_tree(cg, "<start>", rnd.randint(1, 5), rnd, mind) for _ in range(20)]
        lits = {k: sorted({yield_(s) for t in trees for _, s in nodes(t) if s[0] == k} | {"zz"})[:12] for k in cg}
        for i in range(n):
            cnt = [0]
            def fresh():
                cnt[0] += 1; return f"v{cnt[0]}"
            if i % 2:
                text = pr(rand_formula(cg, R, [("start", "<start>")], 3, rnd, fresh, lits))
            else:
                text = proto8.pr8(proto8.rand_formula8(cg, R, [(('v', 'start'), "<start>")], 3, rnd, fresh, lits))
            try: f1 = parse_isla(text, g, SP, MP)
            except BaseException as e: st["input_rejected"] += 1; continue
            st["cases"] += 1
            try:
                u1 = unparse_isla(f1)
            except BaseException as e:
                st["unparse_exc:" + type(e).__name__] += 1; continue
            try: f2 = parse_isla(u1, g, SP, MP)
            except BaseException as e:
                key = "reparse_exc:" + type(e).__name__ + ":" + re.sub(r"\s+", " ", str(e))[:50]
                st[key] += 1
                if shown[key] < 2: shown[key] += 1; print("REPARSE FAIL", gname, "| in:", text, "| unparsed:", u1.replace("\n", " ⏎ ")[:300])
                continue
            if f1 != f2:
                st["neq"] += 1
                if shown["neq"] < 3: shown["neq"] += 1; print("NEQ", gname, text, "|", u1.replace("\n", " ⏎ ")[:200], "|", unparse_isla(f2).replace("\n", " ⏎ ")[:200])
            if unparse_isla(f2) != u1: st["not_idempotent"] += 1
    print(dict(st))
if __name__ == "__main__": main(int(sys.argv[1]), int(sys.argv[2]))
