import warnings; warnings.filterwarnings("ignore")
import time, os, json
from collections import Counter
import hypothesis
from hypothesis import given, settings, strategies as st, HealthCheck, Phase, seed, event
from proto import canon, is_nt, nodes, yield_, to_dt, Ref, pr, reach
ALPHA = ["a", "b", "c", "0", "1", " ", ";", "ab", "=", "("]
@st.composite
def grammars(draw):
    k = draw(st.integers(2, 6))
    nts = [f"<n{i}>" for i in range(k)]
    g = {"<start>": [["<n0>"]]}
    for i, nt in enumerate(nts):
        later = nts[i + 1:]
        nalt = draw(st.integers(1, 4))
        alts = []
        # base alternative: terminals and later nonterminals only
        base_syms = draw(st.lists(st.sampled_from(ALPHA + later) if later else st.sampled_from(ALPHA), min_size=1, max_size=3))
        alts.append(base_syms)
        for _ in range(nalt - 1):
            alts.append(draw(st.lists(st.sampled_from(ALPHA + nts), min_size=0 if draw(st.booleans()) else 1, max_size=4)))
        g[nt] = alts
    for i in range(1, k):
        if not any(nts[i] in a for j in range(i) for a in g[nts[j]]):
            j = draw(st.integers(0, i - 1)); g[nts[j]].append([nts[i]] + draw(st.lists(st.sampled_from(ALPHA), max_size=1)))
    out = {}
    for nt, alts in g.items():
        merged = []
        for a in alts:
            m = []
            for s in a:
                if m and not is_nt(m[-1]) and not is_nt(s): m[-1] += s
                else: m.append(s)
            merged.append("".join(m))
        out[nt] = list(dict.fromkeys(merged))
    return out
def mind(cg):
    d = {k: 10**6 for k in cg}; ch = True
    while ch:
        ch = False
        for k, alts in cg.items():
            for a in alts:
                c = 1 + max([d[s] for s in a if is_nt(s)] + [0])
                if c < d[k]: d[k] = c; ch = True
    return d
@st.composite
def trees(draw, cg, md, sym, depth):
    if not is_nt(sym): return (sym, ())
    alts = cg[sym]
    if depth <= 0:
        alt = min(alts, key=lambda a: max([md[s] for s in a if is_nt(s)] + [0]))
    else:
        rec = [a for a in alts if any(is_nt(x) for x in a)]
        pool = rec if rec and draw(st.integers(0, 3)) > 0 else alts
        alt = pool[draw(st.integers(0, len(pool) - 1))]
    return (sym, tuple(draw(trees(cg, md, s, depth - 1)) for s in alt))
stats = Counter(); sizes = []
@seed(int(os.environ.get("VERIF_SEED", "1")))
@settings(max_examples=int(os.environ.get("N", "300")), deadline=None, database=None, suppress_health_check=list(HealthCheck), phases=[Phase.generate])
@given(st.data())
def test(data):
    g = data.draw(grammars()); cg = canon(g); md = mind(cg)
    t = data.draw(trees(cg, md, "<start>", data.draw(st.integers(2, 6))))
    stats["cases"] += 1
    stats["nodes"] += sum(1 for _ in nodes(t))
    stats["maxlen"] = max(stats["maxlen"], len(yield_(t))); sizes.append(sum(1 for _ in nodes(t)))
t0 = time.time(); test(); dt = time.time() - t0
print(dict(stats), "sec", round(dt, 1), "per case ms", round(1000 * dt / stats["cases"], 1), "avg nodes", stats["nodes"] // stats["cases"])

import statistics; print("median nodes", statistics.median(sizes), "p90", sorted(sizes)[int(len(sizes)*0.9)], "max", max(sizes))
