import warnings; warnings.filterwarnings("ignore")
import random, sys, signal
from collections import Counter
from proto import *
from proto10 import rand_grammar, has_cycle, valid
class TO(BaseException): pass
def _h(*a): raise TO()
signal.signal(signal.SIGALRM, _h)
def from_dt(d):
    return (d.value, None if d.children is None else tuple(from_dt(c) for c in d.children))
def gen_open(cg, sym, depth, rnd, mind, p):
    if not is_nt(sym): return (sym, ())
    if rnd.random() < p: return (sym, None)
    alts = cg[sym]
    alt = rnd.choice(alts) if depth > 0 else min(alts, key=lambda a: altcost(cg, a, mind))
    return (sym, tuple(gen_open(cg, s, depth - 1, rnd, mind, p) for s in alt))
def is_prefix(p, r):
    if p[0] != r[0]: return False
    if p[1] is None: return True
    if r[1] is None: return False
    a = [c for c in p[1] if c[0] != ""]; b = [c for c in r[1] if c[0] != ""]
    if len(a) != len(b): return False
    return all(is_prefix(x, y) for x, y in zip(a, b))
def closed(t): return all(n[1] is not None for _, n in nodes(t))
def main(seed, n):
    from isla.fuzzer import GrammarCoverageFuzzer, GrammarFuzzer
    from isla.mutator import Mutator
    rnd = random.Random(seed); st = Counter(); bad = []
    for gi in range(n):
        g = rand_grammar(rnd); cg = canon(g)
        if has_cycle(cg): continue
        mind = min_depths(cg)
        for _ in range(3):
            root = rnd.choice(list(cg))
            pt = gen_open(cg, root, rnd.randint(1, 4), rnd, mind, 0.3)
            random.seed(rnd.randrange(10**6))
            try:
                signal.setitimer(signal.ITIMER_REAL, 5)
                F = rnd.choice([GrammarCoverageFuzzer, GrammarFuzzer])
                r = from_dt(F(g, max_nonterminals=rnd.choice([3, 10])).expand_tree(to_dt(pt)))
                signal.setitimer(signal.ITIMER_REAL, 0)
            except TO: st["fz_timeout"] += 1; continue
            except BaseException as e:
                signal.setitimer(signal.ITIMER_REAL, 0); st["fz_exc:" + type(e).__name__] += 1
                if st["fz_exc:" + type(e).__name__] < 3: bad.append(("FZ_EXC", g, pt, type(e).__name__, str(e)[:100]))
                continue
            st["fz"] += 1
            if not closed(r) or not valid(cg, r, root) or not is_prefix(pt, r): bad.append(("FZ_BAD", g, pt, r))
            # mutate
            if closed(r) and root == "<start>" or True:
                ct = r
                try:
                    signal.setitimer(signal.ITIMER_REAL, 5)
                    m = from_dt(Mutator(g).mutate(to_dt(ct)))
                    signal.setitimer(signal.ITIMER_REAL, 0)
                except TO: st["mu_timeout"] += 1; continue
                except BaseException as e:
                    signal.setitimer(signal.ITIMER_REAL, 0); st["mu_exc:" + type(e).__name__] += 1; continue
                st["mu"] += 1
                if not closed(m) or not valid(cg, m, root): bad.append(("MU_BAD", g, ct, m))
    print(dict(st), "bad", len(bad))
    for b in bad[:6]: print(repr(b)[:600])
if __name__ == "__main__": main(int(sys.argv[1]), int(sys.argv[2]))
