import warnings; warnings.filterwarnings("ignore")
import io, sys, os, traceback
os.chdir("/tmp/scratch/cli")
from isla import cli
def run(*argv):
    out, err = io.StringIO(), io.StringIO()
    try:
        cli.main(*argv, stdout=out, stderr=err); code = "RET"
    except SystemExit as e: code = e.code
    except BaseException as e:
        code = "EXC:" + type(e).__name__ + ":" + str(e)[:80]
    print(argv, "->", code, "| out:", repr(out.getvalue()[:80]), "| err:", repr(err.getvalue()[-120:]))
run("check", "g.bnf", "c.isla", "ok.txt")
run("check", "g.bnf", "c.isla", "low.txt")
run("check", "g.bnf", "c.isla", "bad.txt")
run("check", "g.bnf", "c.isla", "empty.txt")
run("check", "g.bnf", "c.isla", "-i", "17")
run("check", "g.bnf", "c.isla", "-i", "1")
run("check", "g.bnf", "-c", "str.to.int(<n>) > 5", "-c", "str.len(<n>) = 2", "-i", "77")
run("check", "g.bnf", "-c", "str.to.int(<n>) > 5", "-c", "str.len(<n>) = 3", "-i", "77")
run("check", "badg.bnf", "c.isla", "-i", "17")
run("check", "g.bnf", "badc.isla", "-i", "17")
run("check", "c.isla", "-i", "17")
run("check", "g.bnf", "c.isla")
run("check", "g.bnf", "-i", "17")
run("solve", "g.bnf", "c.isla", "-n", "3", "-f", "1", "-s", "3")
run("solve", "g.bnf", "c.isla", "-n", "2", "--tree")
run("parse", "g.bnf", "c.isla", "-i", "17", "--no-pretty-print")
run("repair", "g.bnf", "c.isla", "-i", "1")
run("mutate", "g.bnf", "c.isla", "-i", "17")
run("check", "g.bnf", "c.isla", "-i", '["<start>", [["<n>", [["<d>", [["7", []]]]]]]]')
run("check", "g.bnf", "c.isla", "-i", '["<start>", [["<n>", [["<q>", [["7", []]]]]]]]')
run("check", "g.bnf", "c.isla", "-i", '[]')
run("check", "g.bnf", "c.isla", "-i", '{}')
