import warnings; warnings.filterwarnings("ignore")
import sys, json, random, logging
cfg = json.loads(sys.argv[1])
unk = []
class H(logging.Handler):
    def emit(self, rec): unk.append(rec.getMessage()[:60])
logging.getLogger("z3_solve").addHandler(H())
from isla.solver import ISLaSolver
random.seed(cfg["rseed"])
s = ISLaSolver(cfg["grammar"], cfg["constraint"], **cfg.get("settings", {}))
out = []
try:
    for _ in range(cfg["n"]):
        out.append(str(s.solve()))
except StopIteration:
    out.append("<STOP>")
except TimeoutError:
    out.append("<TIMEOUT>")
print(json.dumps({"out": out, "unk": len(unk), "steps": s.step_cnt}))
