import warnings; warnings.filterwarnings("ignore")
import sys, random, re, faulthandler
import signal
class TO(BaseException): pass
def _h(*a): raise TO()
signal.signal(signal.SIGALRM, _h)
from collections import Counter
import proto as P
from proto import *
def cut(t, rnd, p):
    if t[1] is None or not is_nt(t[0]): return t
    if t[1] and rnd.random() < p: return (t[0], None)
    return (t[0], tuple(cut(c, rnd, p) for c in t[1]))
def complete(cg, t, rnd, mind):
    if t[1] is None: return gen_tree(cg, t[0], rnd.randint(0, 4), rnd, mind)
    return (t[0], tuple(complete(cg, c, rnd, mind) for c in t[1]))
def has_open(t): return any(n[1] is None for _, n in nodes(t))
def explained(text):
    if "after(" in text: return "after"
    for m in re.finditer(r"forall <[^>]+> (v\d+)(=\"[^\"]*\")? in \w+: ", text):
        v = m.group(1); rest = text[m.end():]
        if not re.search(r"\b%s\b" % v, rest): return "unused_forall_var"
    return None
def main(seed, n):
    from isla.evaluator import evaluate
    from isla.language import parse_isla
    from isla.isla_predicates import STANDARD_STRUCTURAL_PREDICATES as SP, STANDARD_SEMANTIC_PREDICATES as MP
    from grammar_graph import gg
    rnd = random.Random(seed); stats = Counter(); bad = []
    for gname, g in GRAMMARS.items():
        cg = canon(g); mind = min_depths(cg); R = reach(cg)
        graph = gg.GrammarGraph.from_grammar(g)
        trees = [gen_tree(cg, "<start>", rnd.randint(2, 6), rnd, mind) for _ in range(40)]
        lits = {k: sorted({yield_(s) for t in trees for _, s in nodes(t) if s[0] == k} | {"zz"})[:12] for k in cg}
        for _ in range(n):
            cnt = [0]
            def fresh():
                cnt[0] += 1; return f"v{cnt[0]}"
            f = rand_formula(cg, R, [("start", "<start>")], 3, rnd, fresh, lits)
            text = pr(f)
            try: pf = parse_isla(text, g, SP, MP)
            except BaseException as e: stats["parse_fail"] += 1; continue
            for t in rnd.sample(trees, 3):
                pt = cut(t, rnd, 0.25)
                if not has_open(pt): stats["closed"] += 1; continue
                try:
                    signal.setitimer(signal.ITIMER_REAL, 3)
                    got = str(evaluate(pf, to_dt(pt), g, SP, MP, graph=graph))
                    signal.setitimer(signal.ITIMER_REAL, 0)
                except TO:
                    stats["timeout"] += 1; continue
                except BaseException as e:
                    signal.setitimer(signal.ITIMER_REAL, 0)
                    got = "EXC:" + type(e).__name__ + ":" + str(e)[:100]
                stats["v_" + got[:12]] += 1
                if got not in ("TRUE", "FALSE"):
                    if got.startswith("EXC"): bad.append((gname, text, str(pt), None, got))
                    continue
                comps = [t] + [complete(cg, pt, rnd, mind) for _ in range(5)]
                for c in comps:
                    ref = Ref(cg, c)
                    exp = ref.sat(f, {"start": ()})
                    if ref.ambiguous: stats["ambig"] += 1; continue
                    stats["cmp"] += 1
                    if ("TRUE" if exp else "FALSE") != got:
                        stats["MISMATCH"] += 1
                        bad.append((gname, text, pt, yield_(c), exp, got)); break
    print(dict(stats))
    n = 0
    for b in bad:
        e = explained(b[1])
        if e: stats["expl_" + e] += 1; continue
        n += 1
        if n <= 10: print("UNEXPLAINED", b)
    print({k: v for k, v in stats.items() if k.startswith("expl")}, "unexplained", n)
if __name__ == "__main__": main(int(sys.argv[1]), int(sys.argv[2]))
