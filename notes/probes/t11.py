import warnings; warnings.filterwarnings("ignore")
from grammar_graph import gg
from isla.derivation_tree import DerivationTree as DT
from isla import isla_predicates as P
from isla.language import Variable, Constant, BoundVariable
from isla.solver import ISLaSolver
g = {"<start>": ["<f>"], "<f>": ["<cs>"], "<cs>": ["<c><cs>", "<c>"], "<c>": ["a", "b", " ", "0"]}
graph = gg.GrammarGraph.from_grammar(g)
s = ISLaSolver(g)
def tr(x, nt): return s.parse(x, nt, skip_check=True)
for pred, args in [(P.CROP_PREDICATE, 2), (P.LJUST_PREDICATE, 3), (P.LJUST_CROP_PREDICATE, 3), (P.RJUST_PREDICATE, 3), (P.RJUST_CROP_PREDICATE, 3), (P.EXTEND_CROP_PREDICATE, 2)]:
    for txt in ["ab", "abab", "aaa"]:
        for w in [2, 3, 4]:
            t = tr(txt, "<cs>")
            a = [t, DT(str(w), ())] + ([" "] if args == 3 else [])
            try:
                r = pred.evaluate(graph, *a)
                res = r.result
                if isinstance(res, dict): res = {str(k): repr(str(v)) + "/" + v.value for k, v in res.items()}
            except BaseException as e:
                res = "EXC " + type(e).__name__ + " " + str(e)[:60]
            print(pred.name, repr(txt), w, "->", res)
# width as int and as Variable
t = tr("ab", "<cs>")
print("var width:", P.LJUST_PREDICATE.evaluate(graph, t, BoundVariable("n", "NUM"), " ").result)
try: print("int width:", P.LJUST_PREDICATE.evaluate(graph, t, 4, " ").result)
except BaseException as e: print("int width EXC", type(e).__name__, e)
# octal
go = {"<start>": ["<o>", "<d>"], "<o>": ["<od><o>", "<od>"], "<od>": list("01234567"), "<d>": ["<dd><d>", "<dd>"], "<dd>": list("0123456789")}
gr = gg.GrammarGraph.from_grammar(go)
so = ISLaSolver(go)
OP = P.OCTAL_TO_DEC_PREDICATE(gr, "<o>", "<d>")
for o, d in [("17", "15"), ("17", "21"), ("10", "8"), ("7", "7"), ("12", "10")]:
    r = OP.evaluate(gr, so.parse(o, "<o>", skip_check=True), so.parse(d, "<d>", skip_check=True))
    print("octal", o, d, "->", r.result, "| expected", int(o, 8) == int(d))
r = OP.evaluate(gr, so.parse("17", "<o>", skip_check=True), BoundVariable("x", "<d>")); print({str(k): str(v) for k, v in r.result.items()})
r = OP.evaluate(gr, BoundVariable("x", "<o>"), so.parse("15", "<d>", skip_check=True)); print({str(k): str(v) for k, v in r.result.items()})
