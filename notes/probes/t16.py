import warnings; warnings.filterwarnings("ignore")
import traceback
from isla.language import parse_isla as _pi, unparse_isla, convert_to_nnf
from isla.isla_predicates import STANDARD_STRUCTURAL_PREDICATES as SP, STANDARD_SEMANTIC_PREDICATES as MP
g = {"<start>": ["<a>"], "<a>": ["x<a>","y"]}
for c in ['not (<a> = <a>)', 'forall <a> v: not (v = v)', 'forall <a> v: (str.len(v) >= 0)', 'forall <a> v: not (str.len(v) >= 0)', 'forall <a> v: not (str.len(v) + 1 > str.len(v))', 'different_position(start..<a>, start)', 'start..<a> = "y"']:
    try:
        f = _pi(c, g, SP, MP); print("OK ", c, "=>", unparse_isla(f).replace("\n", " "))
        try:
            n = -f; print("    neg OK")
        except BaseException as e: print("    neg EXC", type(e).__name__, str(e)[:100])
        try:
            n = convert_to_nnf(f, negate=True); print("    nnf-neg OK")
        except BaseException as e: print("    nnf-neg EXC", type(e).__name__, str(e)[:100])
    except BaseException as e:
        print("EXC", c, type(e).__name__, str(e)[:120])
