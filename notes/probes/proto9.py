import warnings; warnings.filterwarnings("ignore")
import sys, random, re, signal, traceback
from collections import Counter
from proto import *
from proto6 import explained
def main(seed, n):
    from isla.evaluator import evaluate
    from isla.language import parse_isla, convert_to_nnf, convert_to_dnf, ensure_unique_bound_variables, ConjunctiveFormula, DisjunctiveFormula, split_conjunction
    from isla.isla_predicates import STANDARD_STRUCTURAL_PREDICATES as SP, STANDARD_SEMANTIC_PREDICATES as MP
    from grammar_graph import gg
    rnd = random.Random(seed); st = Counter(); bad = []
    for gname, g in GRAMMARS.items():
        cg = canon(g); mind = min_depths(cg); R = reach(cg)
        graph = gg.GrammarGraph.from_grammar(g)
        trees = [gen_tree(cg, "<start>", rnd.randint(1, 6), rnd, mind) for _ in range(30)]
        lits = {k: sorted({yield_(s) for t in trees for _, s in nodes(t) if s[0] == k} | {"zz"})[:12] for k in cg}
        for _ in range(n):
            cnt = [0]
            def fresh():
                cnt[0] += 1; return f"v{cnt[0]}"
            f = rand_formula(cg, R, [("start", "<start>")], 3, rnd, fresh, lits)
            text = pr(f)
            if explained(text): st["skip_known"] += 1; continue
            try: pf = parse_isla(text, g, SP, MP)
            except BaseException: st["parse_fail"] += 1; continue
            variants = {}
            def tryv(name, fn):
                try: variants[name] = fn()
                except BaseException as e:
                    tb = traceback.extract_tb(e.__traceback__)
                    st["EXC:" + name + ":" + type(e).__name__] += 1
                    if st["EXC:" + name + ":" + type(e).__name__] <= 2: bad.append(("EXC", name, type(e).__name__, str(e)[:100], text))
            tryv("neg", lambda: -pf)
            tryv("nnf", lambda: convert_to_nnf(pf))
            tryv("nnf_neg", lambda: convert_to_nnf(pf, negate=True))
            tryv("dnf", lambda: convert_to_dnf(convert_to_nnf(pf)))
            tryv("dnf_shallow", lambda: convert_to_dnf(convert_to_nnf(pf), deep=False))
            tryv("uniq", lambda: ensure_unique_bound_variables(pf))
            for t in rnd.sample(trees, 3):
                ref = Ref(cg, t); exp = ref.sat(f, {"start": ()})
                if ref.ambiguous: continue
                for name, vf in variants.items():
                    want = (not exp) if name in ("neg", "nnf_neg") else exp
                    try: got = str(evaluate(vf, to_dt(t), g, SP, MP, graph=graph))
                    except BaseException as e: got = "EXC:" + type(e).__name__ + ":" + str(e)[:60]
                    st["cmp"] += 1
                    if got != ("TRUE" if want else "FALSE"):
                        st["BAD:" + name] += 1
                        if st["BAD:" + name] <= 3: bad.append((name, text, yield_(t), want, got))
    print(dict(st))
    for b in bad[:14]: print(repr(b)[:400])
if __name__ == "__main__": main(int(sys.argv[1]), int(sys.argv[2]))
