import warnings; warnings.filterwarnings("ignore")
# quick: compress_concatenation_elements language preservation, exhaustive strings <= 5 over {a,b}
import random, re, itertools
import z3
from isla.z3_helpers import compress_concatenation_elements
from proto15 import to_py
rnd = random.Random(1)
def elem(d=0):
    c = rnd.randrange(7 if d < 1 else 3)
    if c == 0: return z3.Re("a")
    if c == 1: return z3.Re("b")
    if c == 2: return z3.Range("a", "b")
    if c == 3: return z3.Star(elem(1))
    if c == 4: return z3.Plus(elem(1))
    if c == 5: return z3.Option(elem(1))
    return z3.Union(elem(1), elem(1))
strs = ["".join(p) for n in range(6) for p in itertools.product("ab", repeat=n)]
bad = 0; exc = 0; changed = 0
for _ in range(3000):
    els = [elem() for _ in range(rnd.randint(1, 5))]
    if rnd.random() < 0.6:
        # force repeats of same base
        b = elem(1); els = [rnd.choice([b, z3.Star(b), z3.Plus(b)]) for _ in range(rnd.randint(2, 4))] + ([elem()] if rnd.random() < 0.5 else [])
    try:
        out = compress_concatenation_elements(els)
    except BaseException as e:
        exc += 1
        if exc <= 3: print("EXC", type(e).__name__, str(e)[:80], els)
        continue
    if [str(x) for x in out] != [str(x) for x in els]: changed += 1
    p1 = re.compile("".join("(?:%s)" % to_py(x) for x in els)); p2 = re.compile("".join("(?:%s)" % to_py(x) for x in out))
    for s in strs:
        if bool(p1.fullmatch(s)) != bool(p2.fullmatch(s)):
            bad += 1
            if bad <= 5: print("BAD", els, "->", out, "on", repr(s))
            break
print("bad", bad, "exc", exc, "changed", changed)
