import warnings; warnings.filterwarnings("ignore")
from isla.language import parse_isla as _pi, unparse_isla
from isla.isla_predicates import STANDARD_STRUCTURAL_PREDICATES as SP, STANDARD_SEMANTIC_PREDICATES as MP
from isla.evaluator import evaluate
from isla.derivation_tree import DerivationTree as DT
g = {"<start>": ["<a>"], "<a>": ["\n", "ä", '"', "\\", "x", "a\nb", "\t"]}
def tree(v): return DT("<start>", [DT("<a>", [DT(v, [])])])
tests = [('<a> = "\\u{a}"', "\n"), ('<a> = "\\n"', "\n"), ('<a> = "\\u{e4}"', "ä"), ('<a> = "ä"', "ä"), ('<a> = "\\""', '"'), ('<a> = "\\u{22}"', '"'), ('<a> = "\\u{5c}"', "\\"), ('<a> = "\\\\"', "\\"),
         ('str.len(<a>) = 1', "ä"), ('str.len(<a>) = 1', "\n"), ('<a> = "a\\u{a}b"', "a\nb"), ('str.in_re(<a>, re.++(str.to_re("a"), re.allchar, str.to_re("b")))', "a\nb"), ('<a> = "\\u{9}"', "\t"), ('str.to_code(<a>) = 228', "ä")]
for c, v in tests:
    try:
        f = _pi(c, g, SP, MP)
        r = evaluate(f, tree(v), g, SP, MP)
        print(f"{c:70s} on {v!r:8} -> {r}   | unparsed: {unparse_isla(f).splitlines()[-1].strip()}")
    except BaseException as e:
        print(f"{c:70s} on {v!r:8} -> EXC {type(e).__name__} {str(e)[:80]}")
