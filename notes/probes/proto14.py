import warnings; warnings.filterwarnings("ignore")
import random, sys, signal, traceback
from collections import Counter
from proto import *
from proto10 import rand_grammar, has_cycle, valid, member
from proto12 import gen_open, from_dt, TO, closed
def main(seed, n):
    from isla.solver import create_fixed_length_tree
    from isla.helpers import canonical
    rnd = random.Random(seed); st = Counter(); bad = []
    for gi in range(n):
        g = rand_grammar(rnd) if rnd.random() < 0.7 else rnd.choice(list(GRAMMARS.values()))
        cg = canon(g)
        if has_cycle(cg): continue
        cang = canonical(g)
        for _ in range(4):
            T = rnd.choice(list(cg)); L = rnd.randint(0, 10)
            random.seed(rnd.randrange(10**6))
            try:
                signal.setitimer(signal.ITIMER_REAL, 3)
                r = create_fixed_length_tree(T, cang, L)
                signal.setitimer(signal.ITIMER_REAL, 0)
            except TO: st["timeout"] += 1; continue
            except BaseException as e:
                signal.setitimer(signal.ITIMER_REAL, 0)
                tb = traceback.extract_tb(e.__traceback__); key = type(e).__name__ + "@" + tb[-1].name + ":" + str(tb[-1].lineno)
                st["exc:" + key] += 1; continue
            if r is None:
                st["none"] += 1
                # is there actually a string of that length? (info only)
                continue
            st["tree"] += 1
            rt = from_dt(r)
            if not closed(rt) or not valid(cg, rt, T) or len(yield_(rt)) != L:
                st["BAD"] += 1; bad.append((g, T, L, rt, yield_(rt)))
    print(dict(st))
    for b in bad[:6]: print(repr(b)[:500])
if __name__ == "__main__": main(int(sys.argv[1]), int(sys.argv[2]))
