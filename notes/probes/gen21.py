import warnings; warnings.filterwarnings("ignore")
import sys, json, random, time, logging
logging.disable(logging.CRITICAL)
which, rseed, budget = sys.argv[1], int(sys.argv[2]), float(sys.argv[3])
from isla.solver import ISLaSolver, GrammarBasedBlackboxCostComputer, CostSettings, CostWeightVector
from grammar_graph import gg
import functools
from isla.fuzzer import GrammarFuzzer
random.seed(rseed)
if which == "csv":
    from isla_formalizations.csv import CSV_GRAMMAR, CSV_COLNO_PROPERTY
    from isla.isla_predicates import COUNT_PREDICATE
    s = ISLaSolver(CSV_GRAMMAR, CSV_COLNO_PROPERTY, max_number_free_instantiations=1, max_number_smt_instantiations=2, fuzzer_factory=functools.partial(GrammarFuzzer, min_nonterminals=0, max_nonterminals=30), timeout_seconds=int(budget))
elif which == "xml":
    from isla_formalizations.xml_lang import *
    s = ISLaSolver(XML_GRAMMAR_WITH_NAMESPACE_PREFIXES, XML_NAMESPACE_CONSTRAINT & XML_WELLFORMEDNESS_CONSTRAINT & XML_NO_ATTR_REDEF_CONSTRAINT, max_number_free_instantiations=1, enforce_unique_trees_in_queue=True, timeout_seconds=int(budget),
        cost_computer=GrammarBasedBlackboxCostComputer(CostSettings(CostWeightVector(tree_closing_cost=9.5, constraint_cost=0, derivation_depth_penalty=6, low_k_coverage_penalty=0, low_global_k_path_coverage_penalty=13), k=4), gg.GrammarGraph.from_grammar(XML_GRAMMAR_WITH_NAMESPACE_PREFIXES)))
elif which == "rest":
    from isla_formalizations import rest
    s = ISLaSolver(rest.REST_GRAMMAR, rest.LENGTH_UNDERLINE & rest.DEF_LINK_TARGETS & rest.NO_LINK_TARGET_REDEF & rest.LIST_NUMBERING_CONSECUTIVE, max_number_free_instantiations=1, max_number_smt_instantiations=1, enforce_unique_trees_in_queue=True, timeout_seconds=int(budget),
        cost_computer=GrammarBasedBlackboxCostComputer(CostSettings(CostWeightVector(tree_closing_cost=7, constraint_cost=1.5, derivation_depth_penalty=2.5, low_k_coverage_penalty=2, low_global_k_path_coverage_penalty=18), k=4), gg.GrammarGraph.from_grammar(rest.REST_GRAMMAR), reset_coverage_after_n_round_with_no_coverage=500))
elif which == "tar":
    from isla_formalizations import simple_tar
    s = ISLaSolver(simple_tar.SIMPLE_TAR_GRAMMAR, simple_tar.TAR_CONSTRAINTS, max_number_free_instantiations=1, max_number_smt_instantiations=1, timeout_seconds=int(budget))
out = []; t0 = time.time(); end = "COUNT"
try:
    while len(out) < 40 and time.time() - t0 < budget:
        out.append(str(s.solve()))
except StopIteration: end = "STOP"
except TimeoutError: end = "TIMEOUT"
except BaseException as e: end = "EXC:" + type(e).__name__ + ":" + str(e)[:100]
print(json.dumps({"which": which, "end": end, "n": len(out), "out": out}))
