import warnings; warnings.filterwarnings("ignore")
import random, sys, signal, traceback
from collections import Counter, defaultdict
import z3
from isla.z3_helpers import is_valid, evaluate_z3_expression, z3_eq
S, I, B, R = "S", "I", "B", "R"
STRS = ["", "a", "b", "ab", "ba", "aab", "a\nb", "\n", '"', "\\", "a.b", "*", "(", "ä", "λx", "0", "7", "12", "007", "-5", "+3", " ", "a b", "[", "]"]
NUMS = ["0", "7", "12", "007", "-5", "+3", "100"]
def gen(rnd, sort, d):
    leaf = d <= 0 or rnd.random() < 0.25
    if sort == S:
        if leaf: return z3.StringVal(rnd.choice(STRS))
        c = rnd.randrange(9)
        if c == 0: return z3.Concat(gen(rnd, S, d - 1), gen(rnd, S, d - 1))
        if c == 1: return z3.SubString(gen(rnd, S, d - 1), gen(rnd, I, d - 1), gen(rnd, I, d - 1))
        if c == 2: return gen(rnd, S, d - 1).at(gen(rnd, I, d - 1))
        if c == 3: return z3.Replace(gen(rnd, S, d - 1), gen(rnd, S, d - 1), gen(rnd, S, d - 1))
        if c == 4: return z3.IntToStr(gen(rnd, I, d - 1))
        if c == 5: return z3.If(gen(rnd, B, d - 1), gen(rnd, S, d - 1), gen(rnd, S, d - 1))
        if c == 6: return z3.StrFromCode(gen(rnd, I, d - 1))
        return z3.StringVal(rnd.choice(STRS))
    if sort == I:
        if leaf: return z3.IntVal(rnd.choice([-7, -2, -1, 0, 1, 2, 3, 5, 10, 97]))
        c = rnd.randrange(12)
        a, b = gen(rnd, I, d - 1), gen(rnd, I, d - 1)
        if c == 0: return a + b
        if c == 1: return a - b
        if c == 2: return a * b
        if c == 3: return a / b
        if c == 4: return a % b
        if c == 5: return -a
        if c == 6: return z3.Length(gen(rnd, S, d - 1))
        if c == 7: return z3.StrToInt(z3.StringVal(rnd.choice(NUMS)))
        if c == 8: return z3.IndexOf(gen(rnd, S, d - 1), gen(rnd, S, d - 1), gen(rnd, I, d - 1))
        if c == 9: return z3.StrToCode(gen(rnd, S, d - 1))
        if c == 10: return z3.If(gen(rnd, B, d - 1), a, b)
        return z3.Abs(a)
    if sort == R:
        if leaf:
            c = rnd.randrange(5)
            if c == 0: return z3.Re(rnd.choice(STRS))
            if c == 1:
                x, y = sorted(rnd.sample("abcxyz019", 2)); return z3.Range(x, y)
            if c == 2: return z3.Full(z3.ReSort(z3.StringSort()))
            if c == 3: return z3.AllChar(z3.ReSort(z3.StringSort()))
            return z3.Empty(z3.ReSort(z3.StringSort()))
        c = rnd.randrange(9)
        if c == 0: return z3.Concat(gen(rnd, R, d - 1), gen(rnd, R, d - 1))
        if c == 1: return z3.Union(gen(rnd, R, d - 1), gen(rnd, R, d - 1))
        if c == 2: return z3.Star(gen(rnd, R, d - 1))
        if c == 3: return z3.Plus(gen(rnd, R, d - 1))
        if c == 4: return z3.Option(gen(rnd, R, d - 1))
        if c == 5: return z3.Complement(gen(rnd, R, d - 1))
        if c == 6: return z3.Loop(gen(rnd, R, d - 1), rnd.randint(0, 2), rnd.randint(2, 3))
        if c == 7: return z3.Intersect(gen(rnd, R, d - 1), gen(rnd, R, d - 1))
        return z3.Diff(gen(rnd, R, d - 1), gen(rnd, R, d - 1))
    # Bool
    if leaf: return z3.BoolVal(rnd.random() < 0.5)
    c = rnd.randrange(18)
    if c == 0: return z3.And(gen(rnd, B, d - 1), gen(rnd, B, d - 1))
    if c == 1: return z3.Or(gen(rnd, B, d - 1), gen(rnd, B, d - 1))
    if c == 2: return z3.Not(gen(rnd, B, d - 1))
    if c == 3: return z3.Implies(gen(rnd, B, d - 1), gen(rnd, B, d - 1))
    if c == 4: return z3.Xor(gen(rnd, B, d - 1), gen(rnd, B, d - 1))
    if c == 5: return z3_eq(gen(rnd, S, d - 1), gen(rnd, S, d - 1))
    if c == 6: return z3_eq(gen(rnd, I, d - 1), gen(rnd, I, d - 1))
    if c == 7: return gen(rnd, I, d - 1) < gen(rnd, I, d - 1)
    if c == 8: return gen(rnd, I, d - 1) <= gen(rnd, I, d - 1)
    if c == 9: return gen(rnd, I, d - 1) > gen(rnd, I, d - 1)
    if c == 10: return gen(rnd, I, d - 1) >= gen(rnd, I, d - 1)
    if c == 11: return z3.InRe(gen(rnd, S, d - 1), gen(rnd, R, d - 1))
    if c == 12: return z3.PrefixOf(gen(rnd, S, d - 1), gen(rnd, S, d - 1))
    if c == 13: return z3.SuffixOf(gen(rnd, S, d - 1), gen(rnd, S, d - 1))
    if c == 14: return z3.Contains(gen(rnd, S, d - 1), gen(rnd, S, d - 1))
    if c == 15: return gen(rnd, S, d - 1) < gen(rnd, S, d - 1)
    if c == 16: return z3.Distinct(gen(rnd, I, d - 1), gen(rnd, I, d - 1))
    return gen(rnd, S, d - 1) <= gen(rnd, S, d - 1)
def z3_truth(e):
    s = z3.simplify(e)
    if z3.is_true(s): return True
    if z3.is_false(s): return False
    sol = z3.Solver(); sol.set("timeout", 3000); sol.add(z3.Not(e)); r = sol.check()
    return True if r == z3.unsat else False if r == z3.sat else None
def ops(e, acc=None):
    acc = acc if acc is not None else set()
    if z3.is_app(e):
        acc.add(e.decl().name())
        for c in e.children(): ops(c, acc)
    return acc
def innermost_divergence(e):
    # find smallest subterm where fast path raises or differs from z3 simplify
    for c in e.children():
        r = innermost_divergence(c)
        if r: return r
    try:
        res = evaluate_z3_expression(e)
        from returns.result import Success
        if isinstance(res, Success):
            val = res.unwrap()
            if val[0]: return None
            v = val[1]
            if e.sort() == z3.ReSort(z3.StringSort()): return None
            zs = z3.simplify(e)
            if z3.is_string_value(zs): zv = zs.as_string()
            elif z3.is_int_value(zs): zv = zs.as_long()
            elif z3.is_true(zs): zv = True
            elif z3.is_false(zs): zv = False
            else: return None
            if isinstance(v, str) and isinstance(zv, str):
                zv2 = z3.StringVal(v)
                if z3.is_true(z3.simplify(zs == zv2)) or zs.eq(zv2): return None
                return (e.decl().name(), "wrong_value")
            if v != zv: return (e.decl().name(), "wrong_value")
            return None
        return None
    except BaseException as ex:
        return (e.decl().name(), "raises:" + type(ex).__name__)
def main(seed, n):
    rnd = random.Random(seed); st = Counter(); buckets = defaultdict(list)
    for _ in range(n):
        e = gen(rnd, B, rnd.randint(1, 3))
        zt = z3_truth(e)
        if zt is None: st["z3unk"] += 1; continue
        try:
            r = is_valid(e); got = None if r.is_unknown() else bool(r)
        except BaseException as ex:
            got = "EXC:" + type(ex).__name__
        st["cases"] += 1
        if got != zt:
            st["mismatch"] += 1
            sig = innermost_divergence(e) or ("?", "verdict_only:" + str(got))
            buckets[sig].append(e)
    print(dict(st))
    for sig, es in sorted(buckets.items(), key=lambda kv: -len(kv[1])):
        smallest = min(es, key=lambda x: len(str(x)))
        print(len(es), sig, "| e.g.", str(smallest).replace("\n", " ")[:150])
if __name__ == "__main__": main(int(sys.argv[1]), int(sys.argv[2]))
