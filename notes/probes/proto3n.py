import warnings; warnings.filterwarnings("ignore")
import random, sys, signal
from collections import Counter
from proto import *
class TO(BaseException): pass
def _h(*a): raise TO()
signal.signal(signal.SIGALRM, _h)
G = {"<start>": ["<rows>"], "<rows>": ["<row>\n<rows>", "<row>\n"], "<row>": ["<fs>"], "<fs>": ["<f>;<fs>", "<f>"], "<f>": ["<d>", "<d><f>"], "<d>": list("0123456789")}
def cnt(t, lab): return sum(1 for _, n in nodes(t) if n[0] == lab)
def num(t): return int(yield_(t))
def gen_body(rnd, nvar, scope, depth=2):
    # returns (text, evalfn(n_int, env)->bool)
    k = rnd.choice((["count", "cmpk", "cmpv"] if scope else ["count", "cmpk"]) + (["and", "or", "not"] if depth > 0 else []))
    if k == "count":
        v, ty = rnd.choice(scope + [("start", "<start>")]); lab = rnd.choice(["<row>", "<f>", "<d>"])
        return f'count({v}, "{lab}", {nvar})', (lambda n, env, v=v, lab=lab: cnt(env[v], lab) == n)
    if k == "cmpk":
        op = rnd.choice(["=", "<", "<=", ">", ">="]); c = rnd.randint(0, 6)
        import operator
        fn = {"=": operator.eq, "<": operator.lt, "<=": operator.le, ">": operator.gt, ">=": operator.ge}[op]
        return f'str.to.int({nvar}) {op} {c}', (lambda n, env, fn=fn, c=c: fn(n, c))
    if k == "cmpv":
        cands = [s for s in scope if s[1] in ("<f>",)]
        if not cands: return gen_body(rnd, nvar, [], 0)
        v, ty = rnd.choice(cands); op = rnd.choice(["=", "<", ">="])
        import operator
        fn = {"=": operator.eq, "<": operator.lt, ">=": operator.ge}[op]
        return f'str.to.int({nvar}) {op} str.to.int({v})', (lambda n, env, fn=fn, v=v: fn(n, num(env[v])))
    if k == "not":
        t, f = gen_body(rnd, nvar, scope, depth - 1); return f'not ({t})', (lambda n, env, f=f: not f(n, env))
    a, fa = gen_body(rnd, nvar, scope, depth - 1); b, fb = gen_body(rnd, nvar, scope, depth - 1)
    if k == "and": return f'({a} and {b})', (lambda n, env: fa(n, env) and fb(n, env))
    return f'({a} or {b})', (lambda n, env: fa(n, env) or fb(n, env))
def main(seed, n):
    from isla.evaluator import evaluate
    from isla.language import parse_isla
    from isla.isla_predicates import STANDARD_STRUCTURAL_PREDICATES as SP, STANDARD_SEMANTIC_PREDICATES as MP
    from grammar_graph import gg
    rnd = random.Random(seed); st = Counter(); bad = []
    cg = canon(G); mind = min_depths(cg); graph = gg.GrammarGraph.from_grammar(G)
    trees = [gen_tree(cg, "<start>", rnd.randint(3, 7), rnd, mind) for _ in range(30)]
    for _ in range(n):
        shape = rnd.choice(["top", "under_forall", "over_forall"])
        q = rnd.choice(["exists", "forall"])
        if shape == "top":
            bt, bf = gen_body(rnd, "n", [])
            text = f'{q} int n: ({bt})'
            def sem(t, bf=bf, q=q):
                cands = range(0, 80)
                vals = [bf(k, {"start": t}) for k in cands]
                return any(vals) if q == "exists" else all(vals)
        elif shape == "under_forall":
            bt, bf = gen_body(rnd, "n", [("r", "<row>")])
            text = f'forall <row> r in start: {q} int n: ({bt})'
            def sem(t, bf=bf, q=q):
                out = []
                for _, r in nodes(t):
                    if r[0] != "<row>": continue
                    vals = [bf(k, {"start": t, "r": r}) for k in range(0, 80)]
                    out.append(any(vals) if q == "exists" else all(vals))
                return all(out)
        else:
            bt, bf = gen_body(rnd, "n", [("r", "<row>")])
            text = f'{q} int n: forall <row> r in start: ({bt})'
            def sem(t, bf=bf, q=q):
                vals = []
                for k in range(0, 80):
                    vals.append(all(bf(k, {"start": t, "r": r}) for _, r in nodes(t) if r[0] == "<row>"))
                return any(vals) if q == "exists" else all(vals)
        try: pf = parse_isla(text, G, SP, MP)
        except BaseException as e:
            st["parse_fail:" + type(e).__name__] += 1
            if st["parse_fail:" + type(e).__name__] <= 3: print("PARSEFAIL", text, str(e)[:100])
            continue
        for t in rnd.sample(trees, 3):
            if max(num(f) for _, f in nodes(t) if f[0] == "<f>") > 70: continue
            exp = sem(t)
            try:
                signal.setitimer(signal.ITIMER_REAL, 10)
                got = str(evaluate(pf, to_dt(t), G, SP, MP, graph=graph))
                signal.setitimer(signal.ITIMER_REAL, 0)
            except TO: st["timeout"] += 1; continue
            except BaseException as e:
                signal.setitimer(signal.ITIMER_REAL, 0); got = "EXC:" + type(e).__name__ + ":" + str(e)[:80]
            st["cases"] += 1; st[(q, shape, got[:7], exp)] += 1
            if got != ("TRUE" if exp else "FALSE"):
                st["MISMATCH"] += 1; bad.append((text, yield_(t), exp, got))
    for k, v in sorted(st.items(), key=lambda kv: str(kv[0])): print(k, v)
    seen = set()
    for b in bad:
        key = (b[0].split(":")[0], b[3][:12])
        if key in seen: continue
        seen.add(key); print("BAD", b)
        if len(seen) > 14: break
if __name__ == "__main__": main(int(sys.argv[1]), int(sys.argv[2]))
