import warnings; warnings.filterwarnings("ignore")
import random, sys, itertools
from collections import Counter
from proto import canon, is_nt, gen_tree, min_depths, yield_
def member(cg, A, s):
    n = len(s)
    # T[sym] = set of (i,j)
    T = {k: set() for k in cg}
    def term_spans(t): return {(i, i + len(t)) for i in range(n - len(t) + 1) if s[i:i + len(t)] == t}
    changed = True
    while changed:
        changed = False
        for k, alts in cg.items():
            for alt in alts:
                # spans of sequence
                cur = {(i, i) for i in range(n + 1)}
                for sym in alt:
                    sp = T[sym] if is_nt(sym) else term_spans(sym)
                    nxt = set()
                    for (a, b) in cur:
                        for (c, d) in sp:
                            if c == b: nxt.add((a, d))
                    cur = nxt
                    if not cur: break
                new = cur - T[k]
                if new: T[k] |= new; changed = True
    return (0, n) in T[A]
def rand_grammar(rnd):
    k = rnd.randint(2, 5)
    nts = [f"<n{i}>" for i in range(k)]
    alpha = "ab("
    g = {"<start>": ["<n0>"]}
    for i, nt in enumerate(nts):
        alts = []
        # base alt
        base = "".join(rnd.choice([rnd.choice(alpha), rnd.choice(alpha) * 2] + (nts[i + 1:] or [rnd.choice(alpha)])) for _ in range(rnd.randint(0 if rnd.random() < 0.3 else 1, 2)))
        alts.append(base)
        for _ in range(rnd.randint(0, 3)):
            alts.append("".join(rnd.choice(list(alpha) + nts) for _ in range(rnd.randint(0 if rnd.random() < 0.15 else 1, 3))))
        g[nt] = list(dict.fromkeys(alts))
    # ensure reachability
    for i in range(1, k):
        if not any(nts[i] in a for j in range(i) for a in g[nts[j]]):
            g[nts[rnd.randrange(i)]].append(nts[i] + rnd.choice(alpha))
    return g
def has_cycle(cg):
    # nullable
    nul = set(); ch = True
    while ch:
        ch = False
        for k, alts in cg.items():
            if k not in nul and any(all(is_nt(s) and s in nul for s in a) for a in alts): nul.add(k); ch = True
    edges = {k: set() for k in cg}
    for k, alts in cg.items():
        for a in alts:
            for i, s in enumerate(a):
                if is_nt(s) and all(is_nt(x) and x in nul for j, x in enumerate(a) if j != i): edges[k].add(s)
    # cycle detection
    def reach(a):
        seen = set(); st = list(edges[a])
        while st:
            x = st.pop()
            if x in seen: continue
            seen.add(x); st.extend(edges[x])
        return seen
    return any(k in reach(k) for k in cg)
def valid(cg, t, root):
    if t[0] != root: return False
    def ok(n):
        if not is_nt(n[0]): return n[1] == ()
        if n[1] is None: return False
        labs = [c[0] for c in n[1] if c[0] != ""]
        if labs not in [[x for x in a] for a in cg[n[0]]]: return False
        return all(ok(c) for c in n[1])
    return ok(t)
def from_pt(pt): return (pt[0], tuple(from_pt(c) for c in pt[1]))
def main(seed, n):
    import signal
    class TO(BaseException): pass
    def _h(*a): raise TO()
    signal.signal(signal.SIGALRM, _h)
    from isla.parser import EarleyParser
    rnd = random.Random(seed); st = Counter(); bad = []
    for gi in range(n):
        g = rand_grammar(rnd); cg = canon(g)
        if has_cycle(cg): st["cyclic"] += 1; continue
        mind = min_depths(cg)
        pos = {yield_(gen_tree(cg, "<start>", rnd.randint(0, 4), rnd, mind)) for _ in range(8)}
        strs = set(s for s in pos if len(s) <= 9)
        for s in list(strs):
            if s and rnd.random() < 0.8:
                i = rnd.randrange(len(s)); strs.add(s[:i] + s[i + 1:]); strs.add(s[:i] + rnd.choice("ab(") + s[i:])
        for _ in range(4): strs.add("".join(rnd.choice("ab(") for _ in range(rnd.randint(0, 5))))
        for s in strs:
            exp = member(cg, "<start>", s)
            st["member" if exp else "nonmember"] += 1
            try:
                signal.setitimer(signal.ITIMER_REAL, 5)
                trees = list(itertools.islice(EarleyParser(g).parse(s), 20))
                signal.setitimer(signal.ITIMER_REAL, 0)
                got = True
            except SyntaxError:
                signal.setitimer(signal.ITIMER_REAL, 0); got = False; trees = []
            except TO:
                st["timeout"] += 1; continue
            except BaseException as e:
                signal.setitimer(signal.ITIMER_REAL, 0)
                bad.append((g, s, exp, "EXC " + type(e).__name__ + str(e)[:80])); continue
            if got != exp or (got and not trees):
                bad.append((g, s, exp, got, len(trees))); continue
            for t in trees:
                rt = from_pt(t)
                if not valid(cg, rt, "<start>") or yield_(rt) != s:
                    bad.append((g, s, "badtree", t)); break
    print(dict(st), "bad", len(bad))
    for b in bad[:8]: print("BAD", b)
if __name__ == "__main__": main(int(sys.argv[1]), int(sys.argv[2]))
