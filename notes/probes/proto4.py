import warnings; warnings.filterwarnings("ignore")
import random, sys
from collections import Counter
from isla.derivation_tree import DerivationTree as DT
from isla import isla_predicates as P
def rand_model(rnd, depth):
    lab = rnd.choice(["<a>", "<b>", "<c>", "<blk>"])
    if depth == 0 or rnd.random() < 0.2:
        return (rnd.choice(["x", "y"]), ()) if rnd.random() < 0.6 else (lab, ())
    return (lab, tuple(rand_model(rnd, depth - 1) for _ in range(rnd.randint(1, 4))))
def to_dt(m): return DT(m[0], [to_dt(c) for c in m[1]])
def mnodes(m, p=()):
    yield p, m
    for i, c in enumerate(m[1]): yield from mnodes(c, p + (i,))
def main(seed, n):
    rnd = random.Random(seed); st = Counter(); bad = []
    for _ in range(n):
        m = rand_model(rnd, rnd.randint(1, 4)); t = to_dt(m)
        ns = list(mnodes(m)); order = [p for p, _ in ns]; pre = {p: i for i, p in enumerate(order)}
        last = {p: max(pre[q] for q in order if q[:len(p)] == p) for p in order}
        lab = {p: x[0] for p, x in ns}
        leaves = [p for p, x in ns if not x[1]]; leafidx = {p: i for i, p in enumerate(leaves)}
        def anc(p, T): return frozenset(p[:k] for k in range(len(p)) if lab[p[:k]] == T)
        for a in order:
            for b in order:
                exp = {"before": last[a] < pre[b], "after": last[b] < pre[a], "inside": pre[b] <= pre[a] <= last[b], "direct_child": len(a) == len(b) + 1 and a[:-1] == b, "same_position": a == b, "different_position": a != b}
                got = {"before": P.is_before(t, a, b), "after": P.is_after(t, a, b), "inside": P.in_tree(t, a, b), "direct_child": P.is_direct_child(t, a, b), "same_position": P.is_same_position(t, a, b), "different_position": P.is_different_position(t, a, b)}
                for k in exp:
                    st["cmp"] += 1
                    if exp[k] != got[k]: st["BAD:" + k] += 1
                if a in leafidx and b in leafidx:
                    e = leafidx[b] == leafidx[a] + 1; g = P.consecutive(t, a, b); st["cmp"] += 1
                    if e != g:
                        lcp = 0
                        while lcp < min(len(a), len(b)) and a[lcp] == b[lcp]: lcp += 1
                        st["BAD:consecutive:lcp%s" % ("root" if lcp == 0 else "deep")] += 1
                # nth strict: labels differ, a nonterminal
                if lab[a].startswith("<"):
                    occ = [q for q in order if q[:len(b)] == b and lab[q] == lab[a]]
                    for N in range(1, len(occ) + 2):
                        g = P.is_nth(t, N, a, b)
                        if lab[a] != lab[b]:
                            e = (pre[b] <= pre[a] <= last[b]) and N <= len(occ) and occ[N - 1] == a
                            st["cmp"] += 1
                            if e != g: st["BAD:nth_strict"] += 1; bad.append(("nth", m, a, b, N, e, g))
                        else:
                            st["nth_ambiguous_domain"] += 1
                    holds = [N for N in range(1, len(occ) + 3) if P.is_nth(t, N, a, b)]
                    if len(holds) > 1 or (holds and not (pre[b] <= pre[a] <= last[b])): st["BAD:nth_unique"] += 1
                # level strict
                for T in ["<blk>", "<a>"]:
                    if lab[a] == T or lab[b] == T: st["level_ambiguous_domain"] += 1; continue
                    A, B = anc(a, T), anc(b, T)
                    e = {"EQ": A == B, "GE": A <= B, "LE": B <= A, "GT": A < B, "LT": B < A}
                    for op in e:
                        g = P.level_check(t, op, T, a, b); st["cmp"] += 1
                        if e[op] != g:
                            st["BAD:level_" + op] += 1
                            if len(bad) < 6: bad.append(("level", op, T, m, a, b, e[op], g))
    print({k: v for k, v in st.items()})
    for b in bad[:6]: print(repr(b)[:500])
if __name__ == "__main__": main(int(sys.argv[1]), int(sys.argv[2]))
