import warnings; warnings.filterwarnings("ignore")
import random, sys, string
from collections import Counter
from proto import canon, is_nt
def main(seed, n):
    from isla.language import parse_bnf, unparse_grammar
    rnd = random.Random(seed); st = Counter(); bad = []
    pool = list(string.printable) + [chr(i) for i in range(0, 32)] + ["\x7f", "\x80", "\xe4", "\xff", "λ", "€", "𝄞", '"', "\\", "\\", '"', "<", ">", "\\n", "\\x41", "$", "#", "|", "::="]
    for _ in range(n):
        k = rnd.randint(1, 4)
        nts = [f"<n{i}>" for i in range(k)]
        g = {"<start>": [["<n0>"]]}
        for i, nt in enumerate(nts):
            alts = []
            for _a in range(rnd.randint(1, 3)):
                syms = []
                for _s in range(rnd.randint(0, 3)):
                    if rnd.random() < 0.3 and i + 1 < k: syms.append(rnd.choice(nts[i + 1:]))
                    else: syms.append("".join(rnd.choice(pool) for _ in range(rnd.randint(1, 3))))
                # merge adjacent terminals
                m = []
                for s in syms:
                    if m and not is_nt(m[-1]) and not is_nt(s): m[-1] += s
                    else: m.append(s)
                alts.append(m)
            g[nt] = alts
        for i in range(1, k):
            if not any(nts[i] in a for j in range(i) for a in g[nts[j]]): g[nts[i - 1]].append([nts[i]])
        gs = {k2: ["".join(a) for a in alts] for k2, alts in g.items()}
        intended = {k2: [list(a) for a in alts] for k2, alts in g.items()}
        if canon(gs) != intended: st["reject_splitter"] += 1; continue
        if any(len(set(a)) != len(a) for a in gs.values()): pass
        has_lt = any("<" in s for alts in intended.values() for a in alts for s in a if not is_nt(s))
        st["lt" if has_lt else "nolt"] += 1
        try:
            txt = unparse_grammar(gs)
            g2 = parse_bnf(txt)
        except BaseException as e:
            bad.append(("EXC", type(e).__name__, str(e)[:100], gs)); continue
        if not has_lt:
            if g2 != gs: bad.append(("NEQ", gs, g2, txt))
        else:
            extra = [k2 for k2 in g2 if k2 not in gs]
            if len(extra) > 1 or any(g2[e] != ["<"] for e in extra): bad.append(("EXTRA", gs, g2)); continue
            inl = {k2: [a.replace(extra[0], "<") if extra else a for a in alts] for k2, alts in g2.items() if k2 in gs}
            # compare on canonical with '<' merged
            def norm(gr):
                out = {}
                for k2, alts in gr.items():
                    out[k2] = alts
                return out
            if inl != gs: bad.append(("NEQ_LT", gs, g2))
    print(dict(st), "bad", len(bad))
    seen = Counter()
    for b in bad:
        seen[b[0] + (":" + b[1] if b[0] == "EXC" else "")] += 1
    print(seen)
    for b in bad[:6]: print("BAD", repr(b)[:700])
if __name__ == "__main__": main(int(sys.argv[1]), int(sys.argv[2]))
