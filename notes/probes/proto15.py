import warnings; warnings.filterwarnings("ignore")
import random, sys, re
from collections import Counter
import z3
def to_py(r):
    k = r.decl().kind()
    ch = r.children()
    if k == z3.Z3_OP_SEQ_TO_RE: return re.escape(ch[0].as_string())
    if k == z3.Z3_OP_RE_RANGE: return "[%s-%s]" % (re.escape(ch[0].as_string()), re.escape(ch[1].as_string()))
    if k == z3.Z3_OP_RE_STAR: return "(?:%s)*" % to_py(ch[0])
    if k == z3.Z3_OP_RE_PLUS: return "(?:%s)+" % to_py(ch[0])
    if k == z3.Z3_OP_RE_OPTION: return "(?:%s)?" % to_py(ch[0])
    if k == z3.Z3_OP_RE_UNION: return "(?:" + "|".join("(?:%s)" % to_py(c) for c in ch) + ")"
    if k == z3.Z3_OP_RE_CONCAT: return "".join("(?:%s)" % to_py(c) for c in ch)
    raise Exception("kind %s" % r)
def gen(rnd, d=0):
    D = [str(i) for i in range(10)]
    def single(): return z3.Re(rnd.choice(D))
    def rng():
        a, b = sorted(rnd.sample(range(10), 2)); return z3.Range(str(a), str(b))
    def zeroes(): return rnd.choice([z3.Star(z3.Re("0")), z3.Plus(z3.Re("0"))])
    def full(): return rnd.choice([z3.Star(z3.Range("0", "9")), z3.Plus(z3.Range("0", "9"))])
    def pm(): return z3.Re(rnd.choice("+-"))
    def optpm():
        c = rnd.random()
        if c < 0.3: return [z3.Option(pm())]
        if c < 0.6: return [pm()]
        return []
    def seqz(): return [rnd.choice([zeroes(), z3.Re("0")]) for _ in range(rnd.randint(1, 2))]
    def oz9(): return rnd.choice([z3.Range("0", "9"), z3.Range("1", "9")])
    def union(): return z3.Union(*[gen(rnd, d + 1) for _ in range(rnd.randint(2, 3))])
    def seq():
        c = rnd.random()
        if c < 0.35: el = optpm() + (seqz() if rnd.random() < 0.5 else []) + [oz9(), full()]
        elif c < 0.6: el = optpm() + seqz() + [gen(rnd, d + 1)]
        elif c < 0.8:
            el = [z3.Union(*[rnd.choice([pm(), zeroes(), z3.Re("0")]) for _ in range(rnd.randint(2, 3))]), oz9(), full()]
        else:
            el = [z3.Union(*[rnd.choice([pm(), zeroes(), z3.Re("0")]) for _ in range(rnd.randint(2, 3))]), gen(rnd, d + 1)]
        if len(el) < 2: el = el + [single()]
        return z3.Concat(*el)
    opts = [single, rng, zeroes, full]
    if d < 2: opts += [union, seq, seq, seq]
    return rnd.choice(opts)()
def main(seed, n):
    from isla.z3_helpers import numeric_intervals_from_regex
    rnd = random.Random(seed); st = Counter(); bad = []
    vals = list(range(-150, 151)) + [999, 1000, 1001, -999, -1000, 12345, -12345, 10**12, -10**12]
    for _ in range(n):
        r = gen(rnd)
        try:
            res = numeric_intervals_from_regex(r)
        except BaseException as e:
            bad.append((str(r), "EXC", type(e).__name__, str(e)[:80])); st["exc"] += 1; continue
        from returns.maybe import Nothing
        if res == Nothing: st["nothing"] += 1; continue
        ivs = res.unwrap(); st["some"] += 1
        pat = re.compile(to_py(r))
        zmax = str(r).count('"0"') + 2
        for v in vals:
            forms = []
            for z in range(zmax + 1):
                base = "0" * z + str(abs(v))
                if v >= 0: forms += [base, "+" + base]
                if v <= 0: forms += ["-" + base]
            inlang = any(pat.fullmatch(f) for f in forms)
            inint = any(lo <= v <= hi for lo, hi in ivs)
            if inlang != inint:
                bad.append((str(r), ivs, v, "inlang" if inlang else "notinlang")); st["mismatch"] += 1; break
    print(dict(st))
    cls = Counter()
    for b in bad:
        if b[1] == "EXC": cls["EXC:" + b[2]] += 1
        else: cls[("neg_spurious" if b[2] < 0 and b[3] == "notinlang" else "other")] += 1
    print(cls)
    shown = 0
    for b in bad:
        if b[1] != "EXC" and not (b[2] < 0 and b[3] == "notinlang"):
            print("OTHER", b); shown += 1
            if shown > 12: break
    for b in [b for b in bad if b[1] == "EXC"][:4]: print(b)
    for b in [b for b in bad if b[1] != "EXC" and b[2] < 0 and b[3] == "notinlang"][:3]: print("NEG", b)
if __name__ == "__main__": main(int(sys.argv[1]), int(sys.argv[2]))
