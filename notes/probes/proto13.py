import warnings; warnings.filterwarnings("ignore")
import random, sys, signal, traceback
from collections import Counter
from proto import *
from proto10 import rand_grammar, has_cycle, valid
from proto12 import gen_open, from_dt, TO
def ids_labels(d):
    return {n.id: n.value for _, n in d.paths()}
def main(seed, n):
    from isla.existential_helpers import insert_tree
    from isla.derivation_tree import DerivationTree
    from isla.helpers import canonical
    from grammar_graph import gg
    rnd = random.Random(seed); st = Counter(); bad = []
    for gi in range(n):
        g = rand_grammar(rnd) if rnd.random() < 0.7 else rnd.choice(list(GRAMMARS.values()))
        cg = canon(g)
        if has_cycle(cg): continue
        mind = min_depths(cg); graph = gg.GrammarGraph.from_grammar(g); cang = canonical(g)
        for _ in range(3):
            host = to_dt(gen_open(cg, "<start>", rnd.randint(1, 4), rnd, mind, rnd.choice([0, 0.2, 0.4])))
            T = rnd.choice([k for k in cg if k != "<start>"])
            ins = to_dt(gen_open(cg, T, rnd.choice([0, 0, 1, 2]), rnd, mind, 0.6)) if rnd.random() < 0.5 else DerivationTree(T, None)
            methods = rnd.randint(1, 7)
            try:
                signal.setitimer(signal.ITIMER_REAL, 8)
                res = insert_tree(cang, ins, host, graph=graph, methods=methods, max_num_solutions=rnd.choice([None, 5, 50]))
                signal.setitimer(signal.ITIMER_REAL, 0)
            except TO: st["timeout"] += 1; continue
            except BaseException as e:
                signal.setitimer(signal.ITIMER_REAL, 0)
                tb = traceback.extract_tb(e.__traceback__)
                key = type(e).__name__ + "@" + tb[-1].name + ":" + str(tb[-1].lineno)
                st["exc:" + key] += 1
                if st["exc:" + key] <= 2: bad.append(("EXC", key, str(e)[:100], g, from_dt(host), from_dt(ins), methods))
                continue
            st["calls"] += 1; st["results"] += len(res)
            if res: st["nontrivial"] += 1
            hl = ids_labels(host)
            for r in res:
                rl = ids_labels(r)
                problems = []
                if not valid(cg, from_dt(r), "<start>") and not all(True for _ in []):
                    # open trees: valid() rejects open leaves; use relaxed
                    pass
                def vopen(t, root):
                    if t[0] != root: return False
                    def ok(n):
                        if not is_nt(n[0]): return n[1] == ()
                        if n[1] is None: return True
                        labs = [c[0] for c in n[1] if c[0] != ""]
                        return labs in cg[n[0]] and all(ok(c) for c in n[1])
                    return ok(t)
                if not vopen(from_dt(r), "<start>"): problems.append("invalid")
                if len(rl) != len(list(r.paths())): problems.append("dup_ids")
                if any(i not in rl or rl[i] != l for i, l in hl.items()): problems.append("lost_host_node")
                p = r.find_node(ins.id)
                if p is None: problems.append("no_inserted")
                elif not ins.is_prefix(r.get_subtree(p)): problems.append("inserted_not_prefix")
                if problems:
                    st["BAD:" + ",".join(problems)] += 1
                    if len(bad) < 30: bad.append((problems, g, from_dt(host), from_dt(ins), methods, from_dt(r)))
    print(dict(st))
    for b in bad[:8]: print(repr(b)[:700])
if __name__ == "__main__": main(int(sys.argv[1]), int(sys.argv[2]))
