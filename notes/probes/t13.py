import warnings; warnings.filterwarnings("ignore")
import random
from proto import *
from isla.evaluator import evaluate
from isla.language import parse_isla, unparse_isla
from isla.isla_predicates import STANDARD_STRUCTURAL_PREDICATES as SP, STANDARD_SEMANTIC_PREDICATES as MP
pairs = {
 "lang": [
  ('exists <assgn> x: x.<rhs>.<var> = "a"', 'exists <assgn> x="<var> := {<var> v}" in start: v = "a"'),
  ('<assgn>.<var> = <assgn>.<rhs>.<var>', 'forall <assgn> x="{<var> l} := {<var> r}" in start: l = r'),
  ('<assgn>..<var> = "a"', 'forall <assgn> x in start: forall <var> v in x: v = "a"'),
  ('exists <assgn> x: x..<var> = "a"', 'exists <assgn> x in start: forall <var> v in x: v = "a"'),
  ('<stmt>.<assgn>.<var> = "b"', 'forall <stmt> s="{<var> v} := <rhs>[ ; <stmt>]" in start: v = "b"'),
  ('<stmt>.<stmt>.<assgn>.<var> = "b"', 'forall <stmt> s="<assgn> ; {<var> v} := <rhs>[ ; <stmt>]" in start: v = "b"'),
  ('<rhs>.<var> = "a" or <rhs>.<digit> = "1"', 'forall <rhs> r in start: false'),
  ('forall <assgn> a: (a.<rhs>.<var> = "a" implies a.<var> = "b")', 'forall <assgn> a="{<var> l} := {<var> r}" in start: (not r = "a" or l = "b")'),
  ('exists <stmt> s: (s.<assgn>.<var> = "a" and s.<stmt>.<assgn>.<var> = "b")', 'exists <stmt> s="{<var> x} := <rhs> ; {<var> y} := <rhs>[ ; <stmt>]" in start: (x = "a" and y = "b")'),
 ],
 "blk": [
  ('<use>.<id>[2] = "x"', 'forall <use> u="<id>={<id> i};" in start: i = "x"'),
  ('<use>.<id> = <use>.<id>[2]', 'forall <use> u="{<id> a}={<id> b};" in start: a = b'),
  ('exists <block> b: b.<stmts>.<stmt>.<decl>.<id> = "z"', 'exists <block> b="{{int {<id> i};[<stmts>]}" in start: i = "z"'),
 ]}
rnd = random.Random(5)
for gname, ps in pairs.items():
    g = GRAMMARS[gname]; cg = canon(g); mind = min_depths(cg)
    trees = [gen_tree(cg, "<start>", rnd.randint(1, 6), rnd, mind) for _ in range(40)]
    for sugar, core in ps:
        try:
            fs = parse_isla(sugar, g, SP, MP)
        except BaseException as e:
            print("SUGAR PARSE FAIL", sugar, type(e).__name__, str(e)[:150]); continue
        try: fc = parse_isla(core, g, SP, MP)
        except BaseException as e: print("CORE PARSE FAIL", core, type(e).__name__, str(e)[:150]); continue
        diffs = []; vals = []
        for t in trees:
            a = str(evaluate(fs, to_dt(t), g, SP, MP)); b = str(evaluate(fc, to_dt(t), g, SP, MP))
            vals.append(a)
            if a != b: diffs.append((yield_(t), a, b))
        print(("OK  " if not diffs else "DIFF"), sugar, "| T/F:", vals.count("TRUE"), vals.count("FALSE"), diffs[:2])
        if diffs: print("    sugar unparsed:", unparse_isla(fs).replace("\n", " "))
