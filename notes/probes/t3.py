import warnings; warnings.filterwarnings("ignore")
import traceback, pickle
from isla.derivation_tree import DerivationTree as DT
from isla.language import parse_isla, unparse_isla, SMTFormula, Variable, Constant
from grammar_graph import gg
import z3
from isla.z3_helpers import is_valid, evaluate_z3_expression, z3_eq

def section(s): print("\n=====", s)
g = {"<start>": ["<xs>"], "<xs>": ["<x><xs>", "<x>"], "<x>": ["a","b"]}
graph = gg.GrammarGraph.from_grammar(g)
t = DT("<start>", [DT("<xs>", [DT("<x>", [DT("a", [])])])])

section("to_json damages live object")
try:
    t.k_paths(graph, 3)
    s = pickle.dumps(t)
    print("pickled ok", len(s))
    print(t.k_paths(graph, 3) is not None)
except Exception as e:
    print("EXC", type(e).__name__, str(e)[:200])
t = DT("<start>", [DT("<xs>", [DT("<x>", [DT("a", [])])])])
try:
    t.children[0].k_paths(graph, 3)
    s = pickle.dumps(t)
    print("pickled ok 2", len(s))
except Exception as e:
    print("EXC2", type(e).__name__, str(e)[:200])

section("SMTFormula pickling")
x = Constant("x", "<x>")
for lit in ['a"b', 'ä', 'a\\b', 'a\nb']:
    f = SMTFormula(z3_eq(x.to_smt(), z3.StringVal(lit)), x)
    try:
        f2 = pickle.loads(pickle.dumps(f))
        print(repr(lit), "->", f2.formula, "equal:", f2 == f)
    except Exception as e:
        print(repr(lit), "EXC", type(e).__name__, str(e)[:200])

section("is_valid on div / unary minus etc")
E = z3_eq
exprs = {
 "div": E(z3.IntVal(7) / z3.IntVal(2), z3.IntVal(3)),
 "neg": -z3.IntVal(3) < z3.IntVal(0),
 "mod-neg": E(z3.IntVal(-7) % z3.IntVal(2), z3.IntVal(1)),
 "strat-oob": E(z3.SubString(z3.StringVal("abc"), 5, 1), z3.StringVal("")),
 "at-oob": E(z3.StringVal("abc").at(5), z3.StringVal("")),
 "prefixof": z3.PrefixOf(z3.StringVal("a"), z3.StringVal("ab")),
 "contains": z3.Contains(z3.StringVal("ab"), z3.StringVal("a")),
 "loop": z3.InRe(z3.StringVal("abab"), z3.Loop(z3.Re("ab"), 2, 2)),
 "comp": z3.InRe(z3.StringVal("zz"), z3.Complement(z3.Range("a","c"))),
 "all-nl": z3.InRe(z3.StringVal("a\nb"), z3.Full(z3.ReSort(z3.StringSort()))),
 "nl-anchor": z3.InRe(z3.StringVal("a\n"), z3.Re("a")),
 "len-nonascii": E(z3.Length(z3.StringVal("ä")), 1),
 "ite": E(z3.If(z3.IntVal(1) < 2, z3.IntVal(1), z3.IntVal(2)), 1),
 "implies": z3.Implies(z3.BoolVal(False), z3.BoolVal(False)),
 "str<": z3.StringVal("a") < z3.StringVal("b"),
 "indexof": E(z3.IndexOf(z3.StringVal("abc"), z3.StringVal("c"), 0), 2),
 "replace": E(z3.Replace(z3.StringVal("abc"), z3.StringVal("b"), z3.StringVal("x")), z3.StringVal("axc")),
 "to_int_neg": E(z3.StrToInt(z3.StringVal("-5")), -5),
 "to_int_pad": E(z3.StrToInt(z3.StringVal("007")), 7),
 "from_int": E(z3.IntToStr(z3.IntVal(7)), z3.StringVal("7")),
 "div0": E(z3.IntVal(7) / z3.IntVal(0), z3.IntVal(0)),
 "distinct": z3.Distinct(z3.IntVal(1), z3.IntVal(2)),
 "xor": z3.Xor(z3.BoolVal(True), z3.BoolVal(False)),
}
for k, e in exprs.items():
    s = z3.Solver(); s.add(z3.Not(e)); r = s.check()
    zres = "TRUE" if r == z3.unsat else ("FALSE" if r == z3.sat else "UNK")
    try:
        res = str(is_valid(e))
    except Exception as ex:
        res = "EXC " + type(ex).__name__ + " " + str(ex)[:80]
    print(f"{k:14s} z3={zres:6s} isla={res}")
