"""Throw-away prototype for C08: XPath sugar vs denotational reference semantics."""
import warnings; warnings.filterwarnings("ignore")
import random, sys, re
from collections import Counter
from proto import *

# terms: ('v', name) | ('xp', var, ((label, idx0), ...)) | ('dd', baseterm, label)
def tstr(t):
    if t[0] == 'v': return t[1]
    if t[0] == 'xp': return t[1] + "".join("." + l + ("[%d]" % (i + 1) if i > 0 else "") for l, i in t[2])
    if t[0] == 'dd': return tstr(t[1]) + ".." + t[2]
def pr8(f):
    k = f[0]
    if k in ('forall', 'exists'):
        _, T, v, inv, body = f
        return f'{k} {T} {v} in {inv}: ({pr8(body)})'
    if k == 'and': return f'({pr8(f[1])} and {pr8(f[2])})'
    if k == 'or': return f'({pr8(f[1])} or {pr8(f[2])})'
    if k == 'not': return f'not ({pr8(f[1])})'
    if k == 'eq': return f'{tstr(f[1])} = "{f[2]}"'
    if k == 'eqv': return f'{tstr(f[1])} = {tstr(f[2])}'
    if k == 'pred': return f'{f[1]}({tstr(f[2])}, {tstr(f[3])})'
    raise Exception(k)
def terms_of(f, acc):
    k = f[0]
    if k in ('forall', 'exists'): terms_of(f[4], acc)
    elif k in ('and', 'or'): terms_of(f[1], acc); terms_of(f[2], acc)
    elif k == 'not': terms_of(f[1], acc)
    elif k == 'eq': acc.append(f[1])
    elif k in ('eqv',): acc.append(f[1]); acc.append(f[2])
    elif k == 'pred': acc.append(f[2]); acc.append(f[3])
    return acc
def base_xp(t):
    while t[0] == 'dd': t = t[1]
    return t
class Ref8:
    def __init__(self, cg, root):
        self.cg, self.root = cg, root
        self.idx, self.last = pre_index(root)
    def resolve_xp(self, env, t):
        # returns absolute path or None
        if t[0] == 'v': return env[t[1]]
        p = env[t[1]]
        n = sub(self.root, p)
        for lab, i in t[2]:
            if not n[1]: return None
            occ = [j for j, c in enumerate(n[1]) if c[0] == lab]
            if len(occ) <= i: return None
            p = p + (occ[i],); n = n[1][occ[i]]
        return p
    def term_paths(self, env, t):
        """returns list of absolute paths the atom must hold for (universal), or None if undefined"""
        if t[0] in ('v', 'xp'):
            p = self.resolve_xp(env, t)
            return None if p is None else [p]
        base = self.term_paths(env, t[1])
        if base is None: return None
        out = []
        for b in base:
            for q, n in nodes(sub(self.root, b)):
                if n[0] == t[2]: out.append(b + q)
        return out
    def sat(self, f, env):
        k = f[0]
        if k in ('forall', 'exists'):
            _, T, v, inv, body = f
            base = env[inv]
            xps = [base_xp(t) for t in terms_of(body, [])]
            xps = [t for t in xps if t[0] == 'xp' and t[1] == v]
            res = []
            for p, n in nodes(sub(self.root, base)):
                if n[0] != T: continue
                e2 = {**env, v: base + p}
                if any(self.resolve_xp(e2, t) is None for t in xps): continue
                res.append(self.sat(body, e2))
            return all(res) if k == 'forall' else any(res)
        if k == 'and': return self.sat(f[1], env) and self.sat(f[2], env)
        if k == 'or': return self.sat(f[1], env) or self.sat(f[2], env)
        if k == 'not': return not self.sat(f[1], env)
        if k == 'eq':
            ps = self.term_paths(env, f[1]); assert ps is not None
            return all(yield_(sub(self.root, p)) == f[2] for p in ps)
        if k == 'eqv':
            a = self.term_paths(env, f[1]); b = self.term_paths(env, f[2])
            return all(yield_(sub(self.root, p)) == yield_(sub(self.root, q)) for p in a for q in b)
        if k == 'pred':
            A = self.term_paths(env, f[2]); Bp = self.term_paths(env, f[3])
            def one(a, b):
                ia, la, ib, lb = self.idx[a], self.last[a], self.idx[b], self.last[b]
                n = f[1]
                if n == 'before': return la < ib
                if n == 'inside': return ib <= ia <= lb
                if n == 'same_position': return a == b
                if n == 'different_position': return a != b
            return all(one(a, b) for a in A for b in Bp)
        raise Exception(k)
def unique_alt_label(cg, parent, lab):
    return sum(1 for a in cg[parent] if lab in a) == 1
def xpaths_from_prefix(cg, T, rnd, want):
    pt = rand_prefix(cg, T, 2, rnd)
    cands = []
    def walk(t, steps, ok_unique):
        if t[1]:
            for i, c in enumerate(t[1]):
                if not is_nt(c[0]): continue
                occ = [j for j, d in enumerate(t[1]) if d[0] == c[0]].index(i)
                st = steps + ((c[0], occ),)
                u = ok_unique and unique_alt_label(cg, t[0], c[0])
                cands.append((st, u))
                walk(c, st, u)
    walk(pt, (), True)
    if not cands: return []
    rnd.shuffle(cands)
    out = [cands[0][0]]
    if want > 1 and cands[0][1]:
        for st, u in cands[1:]:
            if u: out.append(st); break
    return out
def rand_formula8(cg, R, scope, depth, rnd, fresh, lits, pos=True):
    """scope: list of (term, type)"""
    choices = ['q', 'q', 'atom', 'atom']
    if depth > 0: choices += ['and', 'or', 'not', 'q']
    c = rnd.choice(choices) if depth > 0 else 'atom'
    if c == 'q':
        vars_ = [(t, ty) for t, ty in scope if t[0] == 'v']
        inv, it = rnd.choice(vars_)
        T = rnd.choice(sorted(R[it] | {it}))
        v = fresh(); extra = []
        if rnd.random() < 0.6:
            for st in xpaths_from_prefix(cg, T, rnd, rnd.choice([1, 1, 2])):
                extra.append((('xp', v, st), st[-1][0]))
        body = rand_formula8(cg, R, scope + [(('v', v), T)] + extra, depth - 1, rnd, fresh, lits, pos)
        # ensure xpath terms are used: conjoin/disjoin an atom using each (keeps them "registered")
        used = [tstr(base_xp(t)) for t in terms_of(body, [])]
        for t, ty in extra:
            if tstr(t) not in used:
                atom = ('eq', t, rnd.choice(lits[ty]))
                body = (rnd.choice(['and', 'or']), body, atom)
        return (rnd.choice(['forall', 'exists']), T, v, inv[1], body)
    if c in ('and', 'or'):
        return (c, rand_formula8(cg, R, scope, depth - 1, rnd, fresh, lits, pos), rand_formula8(cg, R, scope, depth - 1, rnd, fresh, lits, pos))
    if c == 'not': return ('not', rand_formula8(cg, R, scope, depth - 1, rnd, fresh, lits, not pos))
    vs = [s for s in scope if s[0] != ('v', 'start')] or scope
    def pick():
        t, ty = rnd.choice(vs)
        if pos and rnd.random() < 0.2:
            cand = sorted(R[ty])
            if cand:
                L = rnd.choice(cand); return ('dd', t, L), L
        return t, ty
    k = rnd.choice(['eq', 'eq', 'eqv', 'pred'])
    if k == 'eq':
        t, ty = pick(); return ('eq', t, rnd.choice(lits[ty]))
    if k == 'eqv':
        a, _ = pick(); b, _ = pick(); return ('eqv', a, b)
    a, _ = pick(); b, _ = pick()
    return ('pred', rnd.choice(['before', 'inside', 'same_position', 'different_position']), a, b)
def main(seed, n):
    from isla.evaluator import evaluate
    from isla.language import parse_isla, unparse_isla
    from isla.isla_predicates import STANDARD_STRUCTURAL_PREDICATES as SP, STANDARD_SEMANTIC_PREDICATES as MP
    from grammar_graph import gg
    rnd = random.Random(seed); st = Counter(); bad = []; pf_msgs = Counter()
    for gname, g in GRAMMARS.items():
        cg = canon(g); mind = min_depths(cg); R = reach(cg)
        graph = gg.GrammarGraph.from_grammar(g)
        trees = [gen_tree(cg, "<start>", rnd.randint(1, 6), rnd, mind) for _ in range(40)]
        lits = {k: sorted({yield_(s) for t in trees for _, s in nodes(t) if s[0] == k} | {"zz"})[:12] for k in cg}
        for _ in range(n):
            cnt = [0]
            def fresh():
                cnt[0] += 1; return f"v{cnt[0]}"
            f = rand_formula8(cg, R, [(('v', 'start'), "<start>")], 3, rnd, fresh, lits)
            text = pr8(f)
            has_xp = "." in re.sub(r'"[^"]*"', '', text)
            if not has_xp: st["no_xpath"] += 1; continue
            try:
                pf = parse_isla(text, g, SP, MP)
            except BaseException as e:
                msg = re.sub(r"v\d+|<[^>]+>", "_", str(e))[:60]
                st["parse_fail"] += 1; pf_msgs[type(e).__name__ + ":" + msg] += 1
                if pf_msgs[type(e).__name__ + ":" + msg] <= 2: print("PARSEFAIL", gname, text, "=>", str(e)[:160].replace("\n", " "))
                continue
            st["parsed"] += 1
            for t in rnd.sample(trees, 4):
                ref = Ref8(cg, t)
                exp = ref.sat(f, {"start": ()})
                try: got = str(evaluate(pf, to_dt(t), g, SP, MP, graph=graph))
                except BaseException as e: got = "EXC:" + type(e).__name__ + ":" + str(e)[:80]
                st["cases"] += 1; st["exp_" + str(exp)] += 1
                if got != ("TRUE" if exp else "FALSE"):
                    st["MISMATCH"] += 1; bad.append((gname, text, yield_(t), exp, got, unparse_isla(pf).replace("\n", " ")))
    print(dict(st)); print(pf_msgs.most_common(8))
    for b in bad[:10]: print("BAD", b)
if __name__ == "__main__": main(int(sys.argv[1]), int(sys.argv[2]))
