import warnings; warnings.filterwarnings("ignore")
import traceback
from isla.derivation_tree import DerivationTree as DT
from isla.evaluator import evaluate
from isla import isla_predicates as P
from isla.language import parse_isla, unparse_isla, convert_to_dnf, convert_to_nnf, ConjunctiveFormula
import isla.language as L

def section(s): print("\n=====", s)

section("trie >28 children")
g = {"<start>": ["<xs>"], "<xs>": ["<x>"*40], "<x>": ["a","b"]}
t = DT("<start>", [DT("<xs>", [DT("<x>", [DT("a" if i!=35 else "b", [])]) for i in range(40)])])
try:
    tr = t.trie()
    print("trie keys", len(tr.keys()), "paths", len(t.paths()))
    print(evaluate('forall <x> x in start: x = "a"', t, g))
    print(evaluate('exists <x> x in start: x = "b"', t, g))
except Exception as e:
    traceback.print_exc()

section("after / consecutive")
print("after((0,0),(0,)) =", P.is_after(None,(0,0),(0,)), " after((0,),(0,0))=", P.is_after(None,(0,),(0,0)))
tt = DT("<r>", [DT("<a>", [DT("x",[])]), DT("<b>", [DT("p",[]), DT("q",[]), DT("r",[])])])
print("consecutive((1,0),(1,2)) =", P.consecutive(tt,(1,0),(1,2)), "(expected False)")
print("consecutive((1,0),(1,1)) =", P.consecutive(tt,(1,0),(1,1)), "(expected True)")

section("unparse free <start>")
g2 = {"<start>": ["<a>"], "<a>": ["x","y"]}
for c in ['<start> = "x"', 'str.len(<start>) > 0', '<a> = "x"']:
    try:
        f = parse_isla(c, g2)
        u = unparse_isla(f)
        print(repr(u))
        f2 = parse_isla(u, g2)
        print("eq", f == f2)
    except Exception as e:
        print("EXC", type(e).__name__, str(e)[:200])

section("DNF n-ary")
f = parse_isla('(<a> = "x" or <a> = "y") and (<a> = "x" or <a> = "y") and true', g2)
a = parse_isla('forall <a> a in start: ((a = "x" or a = "y"))', g2)
x1 = parse_isla('exists <a> a in start: a = "x"', g2)
x2 = parse_isla('exists <a> b in start: b = "y"', g2)
x3 = parse_isla('forall <a> c in start: c = "y"', g2)
try:
    cf = ConjunctiveFormula(x1 | x2, x2 | x3, x3 | x1)
    print(convert_to_dnf(cf))
except Exception as e:
    print("EXC", type(e).__name__, str(e)[:200])
