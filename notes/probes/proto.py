"""Throw-away prototype: differential between ISLa's evaluate() and an independent
reference semantics, to validate the oracle design. NOT framework code."""
import warnings; warnings.filterwarnings("ignore")
import random, re, sys, itertools, time, json, traceback
from collections import Counter

NT = re.compile(r"(<[^<> ]*>)")
def canon(g): return {k: [[t for t in NT.split(a) if t] for a in alts] for k, alts in g.items()}
def is_nt(s): return bool(NT.fullmatch(s))

# ---------- reference trees: (label, children|None) ; node identity = path
def gen_tree(cg, sym, depth, rnd, mind):
    if not is_nt(sym): return (sym, ())
    alts = cg[sym]
    if depth <= 0:
        best = min(range(len(alts)), key=lambda i: altcost(cg, alts[i], mind))
        alt = alts[best]
    else:
        alt = rnd.choice(alts)
    return (sym, tuple(gen_tree(cg, s, depth - 1, rnd, mind) for s in alt))
def min_depths(cg):
    d = {k: 10**6 for k in cg}
    ch = True
    while ch:
        ch = False
        for k, alts in cg.items():
            for a in alts:
                c = 1 + max([d[s] for s in a if is_nt(s)] + [0])
                if c < d[k]: d[k] = c; ch = True
    return d
def altcost(cg, alt, mind): return max([mind[s] for s in alt if is_nt(s)] + [0])
def nodes(t, p=()):
    yield p, t
    if t[1]:
        for i, c in enumerate(t[1]): yield from nodes(c, p + (i,))
def sub(t, p):
    for i in p: t = t[1][i]
    return t
def yield_(t):
    if t[1] is None: return ""
    if not t[1]: return "" if is_nt(t[0]) else t[0]
    return "".join(yield_(c) for c in t[1])

def to_dt(t, ids=None):
    from isla.derivation_tree import DerivationTree
    return DerivationTree(t[0], None if t[1] is None else [to_dt(c) for c in t[1]])

# ---------- match expressions (independent): abstract word = list of symbols: ('t', char) | ('n', NT, var|None)
def mexpr_word(elems):
    w = []
    for e in elems:
        if e[0] == 'text':
            w.extend(('t', ch, None) for ch in e[1])
        elif e[0] == 'nt': w.append(('n', e[1], None))
        elif e[0] == 'bind': w.append(('n', e[1], e[2]))
    return w
def abstract_parses(cg, A, w, cap=20):
    """all prefix trees rooted A whose frontier spells w. returns list of (tree, {var: path})"""
    memo = {}
    def parse_sym(sym, i, j, depth):
        # yields (tree, binds) for sym deriving w[i:j]
        key = (sym, i, j)
        if depth > len(w) + len(cg) + 2: return []
        if not is_nt(sym):
            if j - i == len(sym) and all(w[i + k][0] == 't' and w[i + k][1] == sym[k] for k in range(len(sym))):
                return [((sym, ()), {})]
            return []
        if key in memo: return memo[key]
        memo[key] = []  # cut cycles
        res = []
        if j - i == 1 and w[i][0] == 'n' and w[i][1] == sym:
            res.append(((sym, None), {} if w[i][2] is None else {w[i][2]: ()}))
        for alt in cg[sym]:
            for parts in split_seq(alt, i, j, depth + 1):
                kids = tuple(p[0] for p in parts)
                b = {}
                for idx, p in enumerate(parts):
                    for v, path in p[1].items(): b[v] = (idx,) + path
                res.append(((sym, kids), b))
                if len(res) > cap: break
        memo[key] = res
        return res
    def split_seq(alt, i, j, depth):
        if not alt:
            return [[]] if i == j else []
        out = []
        first, rest = alt[0], alt[1:]
        for k in range(i, j + 1):
            fs = parse_sym(first, i, k, depth)
            if not fs: continue
            rs = split_seq(rest, k, j, depth)
            for f in fs:
                for r in rs:
                    out.append([f] + r)
                    if len(out) > cap: return out
        return out
    return parse_sym(A, 0, len(w), 0)

def match(t, mt, P):
    """spec's match: returns dict var->path(relative to t) or None"""
    if t[0] != mt[0]: return None
    nc_m = 0 if not mt[1] else len(mt[1])
    nc_t = 0 if not t[1] else len(t[1])
    if nc_m > 0 and nc_t != nc_m: return None
    vs = [v for v, p in P.items() if p == ()]
    if vs: return {vs[0]: ()}
    if nc_m == 0:
        # mt is a leaf (open nt or terminal): matches
        return {}
    res = {}
    for i in range(nc_t):
        Pi = {v: p[1:] for v, p in P.items() if p and p[0] == i}
        m = match(t[1][i], mt[1][i], Pi)
        if m is None: return None
        for v, p in m.items(): res[v] = (i,) + p
    return res

# ---------- formulas: tuples
# ('forall'|'exists', T, var, invar, mexpr|None, body) ; mexpr = list of alternatives? no: elems with optionals
# ('and', a, b) ('or', a, b) ('not', a) ('eq', var, lit) ('eqv', v1, v2) ('pred', name, v1, v2) ('true',) ('count', var, T, k)
def pr(f):
    k = f[0]
    if k in ('forall', 'exists'):
        _, T, v, inv, mx, body = f
        ms = '' if mx is None else '="' + mexpr_str(mx) + '"'
        return f'{k} {T} {v}{ms} in {inv}: ({pr(body)})'
    if k == 'and': return f'({pr(f[1])} and {pr(f[2])})'
    if k == 'or': return f'({pr(f[1])} or {pr(f[2])})'
    if k == 'not': return f'not ({pr(f[1])})'
    if k == 'eq': return f'(= {f[1]} "{f[2]}")'
    if k == 'eqv': return f'(= {f[1]} {f[2]})'
    if k == 'lenlt': return f'(< (str.len {f[1]}) {f[2]})'
    if k == 'pred': return f'{f[1]}({f[2]}, {f[3]})'
    if k == 'count': return f'count({f[1]}, "{f[2]}", "{f[3]}")'
    if k == 'true': return 'true'
    raise Exception(k)
def mexpr_str(mx):
    out = []
    for e in mx:
        if e[0] == 'text': out.append(e[1])
        elif e[0] == 'nt': out.append(e[1])
        elif e[0] == 'bind': out.append('{' + e[1] + ' ' + e[2] + '}')
        elif e[0] == 'opt': out.append('[' + ''.join(x[1] for x in e[1]) + ']')
    return ''.join(out)

def pre_index(root):
    idx = {}; last = {}
    order = [p for p, _ in nodes(root)]
    for i, p in enumerate(order): idx[p] = i
    for p in order:
        last[p] = max(idx[q] for q in order if q[:len(p)] == p)
    return idx, last

class Ref:
    def __init__(self, cg, root):
        self.cg, self.root = cg, root
        self.idx, self.last = pre_index(root)
        self.mx_cache = {}
        self.ambiguous = False
    def mexpr_trees(self, T, mx):
        key = (T, json.dumps(mx))
        if key in self.mx_cache: return self.mx_cache[key]
        opts = [i for i, e in enumerate(mx) if e[0] == 'opt']
        res = []
        for mask in itertools.product([0, 1], repeat=len(opts)):
            elems = []
            for i, e in enumerate(mx):
                if e[0] == 'opt':
                    if mask[opts.index(i)]: elems.extend(e[1])
                else: elems.append(e)
            ps = abstract_parses(self.cg, T, mexpr_word(elems))
            if len(ps) > 1: self.ambiguous = True
            res.extend(ps)
        self.mx_cache[key] = res
        return res
    def sat(self, f, env):
        k = f[0]
        if k in ('forall', 'exists'):
            _, T, v, inv, mx, body = f
            base = env[inv]
            t = sub(self.root, base)
            results = []
            for p, n in nodes(t):
                if n[0] != T: continue
                if mx is None:
                    results.append(self.sat(body, {**env, v: base + p}))
                else:
                    for mt, P in self.mexpr_trees(T, mx):
                        m = match(n, mt, P)
                        if m is not None:
                            e2 = {**env, v: base + p}
                            for var, rp in m.items(): e2[var] = base + p + rp
                            results.append(self.sat(body, e2))
            return all(results) if k == 'forall' else any(results)
        if k == 'and': return self.sat(f[1], env) and self.sat(f[2], env)
        if k == 'or': return self.sat(f[1], env) or self.sat(f[2], env)
        if k == 'not': return not self.sat(f[1], env)
        if k == 'true': return True
        if k == 'eq': return yield_(sub(self.root, env[f[1]])) == f[2]
        if k == 'eqv': return yield_(sub(self.root, env[f[1]])) == yield_(sub(self.root, env[f[2]]))
        if k == 'lenlt': return len(yield_(sub(self.root, env[f[1]]))) < f[2]
        if k == 'count':
            return sum(1 for _, n in nodes(sub(self.root, env[f[1]])) if n[0] == f[2]) == int(f[3])
        if k == 'pred':
            a, b = env[f[2]], env[f[3]]
            ia, la, ib, lb = self.idx[a], self.last[a], self.idx[b], self.last[b]
            n = f[1]
            if n == 'before': return la < ib
            if n == 'after': return lb < ia
            if n == 'inside': return ib <= ia <= lb
            if n == 'same_position': return a == b
            if n == 'different_position': return a != b
            if n == 'direct_child': return len(a) == len(b) + 1 and a[:-1] == b
        raise Exception(k)

# ---------- random formulas
def reach(cg):
    r = {k: set() for k in cg}
    ch = True
    while ch:
        ch = False
        for k, alts in cg.items():
            for a in alts:
                for s in a:
                    if is_nt(s):
                        new = {s} | r[s]
                        if not new <= r[k]: r[k] |= new; ch = True
    return r
def rand_prefix(cg, T, depth, rnd):
    """random derivation prefix of T as tree with open leaves"""
    if depth == 0 or rnd.random() < 0.35: return (T, None)
    alt = rnd.choice(cg[T])
    if not alt: return (T, None)
    return (T, tuple((s, ()) if not is_nt(s) else rand_prefix(cg, s, depth - 1, rnd) for s in alt))
def prefix_to_mexpr(pt, rnd, fresh, T0):
    elems = []; binds = []
    def walk(t):
        if t[1] is None:
            if rnd.random() < 0.5:
                v = fresh(); elems.append(('bind', t[0], v)); binds.append((v, t[0]))
            else: elems.append(('nt', t[0]))
        elif not t[1]:
            if not is_nt(t[0]):
                if elems and elems[-1][0] == 'text': elems[-1] = ('text', elems[-1][1] + t[0])
                else: elems.append(('text', t[0]))
        else:
            for c in t[1]: walk(c)
    walk(pt)
    return elems, binds
def rand_formula(cg, R, scope, depth, rnd, fresh, lits):
    # scope: list of (var, type)
    choices = ['q', 'q', 'atom', 'atom']
    if depth > 0: choices += ['and', 'or', 'not', 'q']
    c = rnd.choice(choices) if depth > 0 else 'atom'
    if c == 'q':
        inv, it = rnd.choice(scope)
        cand = sorted(R[it] | {it})
        T = rnd.choice(cand)
        v = fresh()
        mx = None; extra = []
        if rnd.random() < 0.45:
            pt = rand_prefix(cg, T, 2, rnd)
            if pt[1] is not None:
                mx, extra = prefix_to_mexpr(pt, rnd, fresh, T)
                if any('{' in e[1] or '[' in e[1] or '"' in e[1] for e in mx if e[0] == 'text'): mx, extra = None, []
        body = rand_formula(cg, R, scope + [(v, T)] + extra, depth - 1, rnd, fresh, lits)
        return (rnd.choice(['forall', 'exists']), T, v, inv, mx, body)
    if c in ('and', 'or'):
        return (c, rand_formula(cg, R, scope, depth - 1, rnd, fresh, lits), rand_formula(cg, R, scope, depth - 1, rnd, fresh, lits))
    if c == 'not': return ('not', rand_formula(cg, R, scope, depth - 1, rnd, fresh, lits))
    vs = [s for s in scope if s[0] != 'start'] or scope
    k = rnd.choice(['eq', 'eq', 'eqv', 'pred', 'pred', 'lenlt', 'count'])
    if k == 'eq':
        v, t = rnd.choice(vs); return ('eq', v, rnd.choice(lits[t]))
    if k == 'eqv' and len(vs) >= 2:
        a, b = rnd.sample(vs, 2); return ('eqv', a[0], b[0])
    if k == 'pred' and len(vs) >= 1:
        a = rnd.choice(vs); b = rnd.choice(vs)
        return ('pred', rnd.choice(['before', 'after', 'inside', 'same_position', 'different_position', 'direct_child']), a[0], b[0])
    if k == 'lenlt':
        v, t = rnd.choice(vs); return ('lenlt', v, rnd.randint(0, 6))
    if k == 'count':
        v, t = rnd.choice(scope); cand = sorted(R[t] | {t}); return ('count', v, rnd.choice(cand), rnd.randint(0, 4))
    v, t = rnd.choice(vs); return ('eq', v, rnd.choice(lits[t]))

GRAMMARS = {
 "lang": {"<start>": ["<stmt>"], "<stmt>": ["<assgn> ; <stmt>", "<assgn>"], "<assgn>": ["<var> := <rhs>"], "<rhs>": ["<var>", "<digit>"], "<var>": list("abc"), "<digit>": list("012")},
 "blk": {"<start>": ["<block>"], "<block>": ["{<stmts>}"], "<stmts>": ["<stmt><stmts>", "<stmt>"], "<stmt>": ["<block>", "<decl>", "<use>"], "<decl>": ["int <id>;"], "<use>": ["<id>=<id>;"], "<id>": list("xyz")},
 "eps": {"<start>": ["<l>"], "<l>": ["<i><l>", ""], "<i>": ["a", "b<l>c", "<o>"], "<o>": ["", "d"]},
}

def main(seed, n):
    from isla.evaluator import evaluate
    from isla.language import parse_isla
    from isla.isla_predicates import STANDARD_STRUCTURAL_PREDICATES as SP, STANDARD_SEMANTIC_PREDICATES as MP
    from grammar_graph import gg
    rnd = random.Random(seed)
    stats = Counter(); bad = []
    for gname, g in GRAMMARS.items():
        cg = canon(g); mind = min_depths(cg); R = reach(cg)
        graph = gg.GrammarGraph.from_grammar(g)
        trees = [gen_tree(cg, "<start>", rnd.randint(1, 6), rnd, mind) for _ in range(40)]
        lits = {k: sorted({yield_(s) for t in trees for _, s in nodes(t) if s[0] == k} | {"zz"})[:12] for k in cg}
        for _ in range(n):
            cnt = [0]
            def fresh():
                cnt[0] += 1; return f"v{cnt[0]}"
            f = rand_formula(cg, R, [("start", "<start>")], 3, rnd, fresh, lits)
            text = pr(f)
            try:
                pf = parse_isla(text, g, SP, MP)
            except BaseException as e:
                stats["parse_fail:" + type(e).__name__] += 1
                if stats["parse_fail:" + type(e).__name__] <= 3: print("PARSEFAIL", gname, text, str(e)[:200])
                continue
            for t in rnd.sample(trees, 4):
                ref = Ref(cg, t)
                try:
                    exp = ref.sat(f, {"start": ()})
                except RecursionError:
                    stats["ref_rec"] += 1; continue
                if ref.ambiguous: stats["ambig"] += 1; continue
                try:
                    got = evaluate(pf, to_dt(t), g, SP, MP, graph=graph)
                    got = str(got)
                except BaseException as e:
                    got = "EXC:" + type(e).__name__ + ":" + str(e)[:100]
                stats["cases"] += 1
                stats["exp_" + str(exp)] += 1
                if got != ("TRUE" if exp else "FALSE"):
                    stats["MISMATCH"] += 1
                    bad.append((gname, text, yield_(t), exp, got))
    print(dict(stats))
    seen = set()
    for b in bad:
        key = (b[4][:30])
        if len([1 for s in seen if s == key]) > 0 and len(seen) > 8: continue
        seen.add(key)
        print("BAD", b)
        if len(seen) > 12: break
    print("total bad", len(bad))

if __name__ == "__main__":
    main(int(sys.argv[1]), int(sys.argv[2]))
