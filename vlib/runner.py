"""Sharded Hypothesis runner with watchdogs, known-findings handling, replay files, evidence.

A property module provides:
  ID, RULE, LEVEL_ASSUMPTIONS (list), CASES = {"quick": n, "thorough": n}
  SOFT (s per case, cooperative), HARD (s without progress before a worker is killed)
  selftest()                      -- raises on oracle self-test failure (exit 2)
  generate(rnd, tier) -> case     -- JSON-able case built from a Hypothesis-backed Random
  judge(case) -> dict             -- keys: labels [str], nontrivial bool, violations [ {sig, ...} ],
                                     inconclusive str|None, sample (optional)
  health(stats) -> str|None       -- optional generator-health floor (exit 2 if a string comes back)
"""
import os
import sys
import json
import time
import hashlib
import signal
import shutil
import traceback
import multiprocessing as mp
from collections import Counter

from . import env

VERIF = env.VERIF


class SoftTimeout(BaseException):
    pass


def _alarm(*_a):
    raise SoftTimeout()


class watchdog:
    def __init__(self, seconds):
        self.s = seconds

    def __enter__(self):
        signal.signal(signal.SIGALRM, _alarm)
        # repeat every second after the budget: an alarm that fires inside a __del__ or gc callback is
        # swallowed ("Exception ignored"), the next tick raises again
        signal.setitimer(signal.ITIMER_REAL, self.s, 1.0)

    def __exit__(self, *a):
        signal.setitimer(signal.ITIMER_REAL, 0)
        return False


def reraise_if_timeout(exc):
    """An alarm that fires inside a ctypes callback (Z3) surfaces as ctypes.ArgumentError('...SoftTimeout...');
    property modules call this in their `except Exception` handlers so that a budget hit is never mistaken
    for an exception of the code under test."""
    if isinstance(exc, SoftTimeout) or "SoftTimeout" in str(exc) or "SoftTimeout" in type(exc).__name__:
        raise SoftTimeout()


def derive(seed, *parts):
    h = hashlib.sha256((":".join(str(p) for p in (seed,) + parts)).encode()).hexdigest()
    return int(h[:12], 16)


def case_key(case):
    return hashlib.sha1(json.dumps(case, sort_keys=True, default=str).encode()).hexdigest()[:16]


def load_known(pid):
    import glob
    entries = []
    for path in [os.path.join(VERIF, "known_findings.json")] + sorted(glob.glob(os.path.join(VERIF, "known_findings.d", "*.json"))):
        if not os.path.exists(path):
            continue
        with open(path) as f:
            data = json.load(f)
        entries.extend(data.get("findings", []))
    return [e for e in entries if e.get("status") == "open" and pid in ([e.get("property")] + e.get("also", []))]


def match_known(sig, known):
    for e in known:
        for s in e.get("signatures", [e.get("signature")]):
            if s and (sig == s or sig.startswith(s + "|") or (s.endswith("*") and sig.startswith(s[:-1]))):
                return e
    return None


def guarded_judge(prop, case):
    """judge under the cooperative watchdog; a timeout is inconclusive"""
    try:
        with watchdog(prop.SOFT):
            try:
                return prop.judge(case)
            finally:
                signal.setitimer(signal.ITIMER_REAL, 0)
    except SoftTimeout:
        return {"labels": ["timeout"], "nontrivial": False, "violations": [], "inconclusive": "timeout"}
    except RecursionError:
        return {"labels": ["recursion"], "nontrivial": False, "violations": [], "inconclusive": "recursion"}


class _BudgetReached(BaseException):
    """raised inside the Hypothesis test body when the wall-clock budget of the run is used up; a BaseException, so
    Hypothesis lets it through instead of treating it as a failing example"""


def _worker(prop_name, tier, seed, shard, attempt, n, out_path, cur_path, done_path, shrink_sig=None):
    try:
        env.setup()
        deadline = float(os.environ.get("VERIF_DEADLINE_TS", "0") or 0)
        import importlib
        prop = importlib.import_module("props." + prop_name)
        import hypothesis
        from hypothesis import given, settings, strategies as st, HealthCheck, Phase
        known = load_known(prop.ID)
        out = open(out_path, "a", buffering=1)
        state = {"fail": {}, "last_fail": None, "harness": None, "samples": [], "gen_count": 0}

        import random as _random

        @st.composite
        def cases(draw):
            # Search phase: Hypothesis draws one 64-bit seed per case and the generator runs on a
            # random.Random(seed).  (Measured: with st.randoms() two thirds of the generated cases were
            # duplicates and trees were half the size, because Hypothesis keeps re-trying near-identical
            # choice sequences.)  Shrink phase (thorough tier): st.randoms(), so that Hypothesis can shrink
            # the individual choices of the generator structurally.
            if shrink_sig is None and getattr(prop, "RNG", "seed") == "seed":
                rnd = _random.Random(draw(st.integers(min_value=0, max_value=2 ** 64 - 1)))
                # a running index (unique across shards) for generators that stratify expensive cases
                rnd.verif_index = shard + state["gen_count"] * 64
                state["gen_count"] += 1
            else:
                rnd = draw(st.randoms(use_true_random=False))
            # generators call the harness' own reference algorithms (recognisers, match-expression parses), which have
            # rare slow corners: a generator that needs more than GEN_SOFT seconds yields a skipped case instead of
            # stalling the shard until the hard kill
            try:
                with watchdog(getattr(prop, "GEN_SOFT", 30)):
                    try:
                        return prop.generate(rnd, tier)
                    finally:
                        signal.setitimer(signal.ITIMER_REAL, 0)
            except SoftTimeout:
                return {"__skip__": "generator_timeout"}

        def body(case):
            if deadline and time.time() > deadline:
                raise _BudgetReached()
            if isinstance(case, dict) and case.get("__skip__"):
                if shrink_sig is None:
                    out.write(json.dumps({"k": None, "nt": False, "l": [case["__skip__"]], "inc": case["__skip__"], "kn": [], "v": []}) + "\n")
                return
            with open(cur_path, "w") as cf:
                json.dump(case, cf, default=str)
            res = guarded_judge(prop, case)
            viol = res.get("violations") or []
            newv = []
            kn = []
            for v in viol:
                e = match_known(v["sig"], known)
                if e is not None:
                    kn.append(e["id"])
                else:
                    newv.append(v)
            rec = {"k": res.get("key") or case_key(case), "nt": bool(res.get("nontrivial")) and not res.get("inconclusive"),
                   "l": res.get("labels", []), "inc": res.get("inconclusive"), "kn": kn,
                   "v": [v["sig"] for v in newv]}
            if res.get("counters"):
                rec["c"] = res["counters"]
            if shrink_sig is None:
                out.write(json.dumps(rec) + "\n")
                if rec["nt"] and len(state["samples"]) < 4:
                    smp = res.get("sample", case)
                    txt = json.dumps(smp, default=str)
                    state["samples"].append(smp if len(txt) < 2500 else txt[:2500] + "...")
            for v in newv:
                if shrink_sig is None:
                    if v["sig"] not in state["fail"]:
                        state["fail"][v["sig"]] = {"case": case, "violation": v}
                elif v["sig"] == shrink_sig:
                    state["last_fail"] = {"case": case, "violation": v}
                    raise AssertionError(v["sig"])

        phases = [Phase.generate] if shrink_sig is None else [Phase.generate, Phase.shrink]
        test = hypothesis.seed(derive(seed, prop.ID, shard, attempt))(
            settings(max_examples=n, deadline=None, database=None, report_multiple_bugs=False,
                     suppress_health_check=list(HealthCheck), phases=phases, derandomize=False,
                     verbosity=hypothesis.Verbosity.quiet)(given(cases())(body)))
        stopped = False
        try:
            test()
        except AssertionError:
            if shrink_sig is None:
                raise
        except _BudgetReached:
            stopped = True
        result = {"fail": state["fail"], "last_fail": state["last_fail"], "samples": state["samples"], "budget_stop": stopped}
    except BaseException as e:  # harness error inside the worker
        result = {"harness_error": "%s: %s\n%s" % (type(e).__name__, e, traceback.format_exc()[-3000:])}
    with open(done_path, "w") as f:
        json.dump(result, f, default=str)


def _count_lines(path):
    try:
        with open(path, "rb") as f:
            return sum(1 for _ in f)
    except FileNotFoundError:
        return 0


def run_shards(prop, prop_name, tier, seed, total, work, shrink=None):
    """returns (records, fails, samples, meta)"""
    nw = int(os.environ.get("VERIF_WORKERS", "0")) or min(16, os.cpu_count() or 1)
    nw = max(1, min(nw, total))
    per = [total // nw + (1 if i < total % nw else 0) for i in range(nw)]
    ctx = mp.get_context("fork")
    procs = {}
    meta = {"hard_kills": 0, "worker_crash": 0, "harness_errors": [], "killed_cases": [], "budget_stops": 0}

    def start(shard, attempt, n):
        base = os.path.join(work, "s%d" % shard)
        done = base + ".done.%d" % attempt
        p = ctx.Process(target=_worker, args=(prop_name, tier, seed, shard, attempt, n, base + ".out", base + ".cur", done, shrink))
        p.start()
        procs[shard] = {"p": p, "attempt": attempt, "n": n, "done": done, "base": base, "t": time.time(),
                        "lines0": _count_lines(base + ".out")}

    for i in range(nw):
        start(i, 0, per[i])
    fails = {}
    samples = []
    last_fails = []
    finished = set()
    while len(finished) < nw:
        time.sleep(0.2)
        now = time.time()
        for shard, info in list(procs.items()):
            if shard in finished:
                continue
            p = info["p"]
            if not p.is_alive():
                p.join()
                if os.path.exists(info["done"]):
                    with open(info["done"]) as f:
                        r = json.load(f)
                    if "harness_error" in r:
                        meta["harness_errors"].append(r["harness_error"])
                    else:
                        for sig, fc in r.get("fail", {}).items():
                            fails.setdefault(sig, fc)
                        if r.get("last_fail"):
                            last_fails.append(r["last_fail"])
                        samples.extend(r.get("samples", []))
                        meta["budget_stops"] += 1 if r.get("budget_stop") else 0
                    finished.add(shard)
                else:
                    # died without a result (native crash): skip the case it was on, restart the rest
                    meta["worker_crash"] += 1
                    _note_killed(meta, info)
                    donelines = _count_lines(info["base"] + ".out") - info["lines0"]
                    rest = info["n"] - donelines - 1
                    if rest > 0 and info["attempt"] < 6:
                        start(shard, info["attempt"] + 1, rest)
                    else:
                        finished.add(shard)
                continue
            latest = info["t"]
            for suffix in (".out", ".cur"):
                try:
                    latest = max(latest, os.path.getmtime(info["base"] + suffix))
                except OSError:
                    pass
            if now - latest > prop.HARD:
                p.kill()
                p.join()
                meta["hard_kills"] += 1
                _note_killed(meta, info)
                donelines = _count_lines(info["base"] + ".out") - info["lines0"]
                rest = info["n"] - donelines - 1
                if rest > 0 and info["attempt"] < 12 and shrink is None:
                    start(shard, info["attempt"] + 1, rest)
                else:
                    finished.add(shard)
    records = []
    for i in range(nw):
        pth = os.path.join(work, "s%d.out" % i)
        if os.path.exists(pth):
            with open(pth) as f:
                for line in f:
                    try:
                        records.append(json.loads(line))
                    except ValueError:
                        pass
    return records, fails, samples, meta, last_fails


def _note_killed(meta, info):
    try:
        with open(info["base"] + ".cur") as f:
            txt = f.read()
        if len(meta["killed_cases"]) < 3:
            meta["killed_cases"].append(txt[:1500])
    except OSError:
        pass


def run_fuzz(prop, fz, seed, work):
    """atheris/libFuzzer campaign: `procs` independent processes (libFuzzer is single-core), each with its own
    fresh corpus directory and seed, -runs bounded; the semantic oracle lives inside the target script, which
    writes a JSON replay and exits non-zero on a violation.  A process that dies without a replay file is a
    harness problem of that process (counted), not a violation."""
    import subprocess
    # atheris is installed into /verif/.deps on demand (offline wheelhouse); without it the campaign is skipped
    probe = subprocess.run([sys.executable, "-c", "import atheris"], env=dict(os.environ, PYTHONPATH=env.DEPS), capture_output=True)
    if probe.returncode != 0:
        os.makedirs(env.DEPS, exist_ok=True)
        subprocess.run([sys.executable, "-m", "pip", "install", "--quiet", "--no-index", "--find-links", env.WHEELS, "--target", env.DEPS,
                        "atheris"], capture_output=True)
        probe = subprocess.run([sys.executable, "-c", "import atheris"], env=dict(os.environ, PYTHONPATH=env.DEPS), capture_output=True)
        if probe.returncode != 0:
            return {"skipped": "atheris not installable offline", "violations": []}
    nproc = int(fz.get("procs", 8))
    runs = int(os.environ.get("VERIF_FUZZ_RUNS", fz["runs"])) // nproc
    script = os.path.join(VERIF, fz["script"])
    envv = dict(os.environ, PYTHONPATH=os.pathsep.join([env.DEPS, os.environ.get("PYTHONPATH", "")]))
    procs = []
    for i in range(nproc):
        d = os.path.join(work, "fuzz%d" % i)
        os.makedirs(os.path.join(d, "corpus"))
        out = os.path.join(d, "violation.json")
        log = open(os.path.join(d, "log"), "w")
        p = subprocess.Popen([sys.executable, script, os.path.join(d, "corpus"), out, "-runs=%d" % runs,
                              "-seed=%d" % (derive(seed, prop.ID, "fuzz", i) % (2 ** 31 - 1) + 1), "-max_len=%d" % fz.get("max_len", 64)],
                             cwd=d, env=envv, stdout=log, stderr=subprocess.STDOUT)
        procs.append((p, d, out))
    info = {"processes": nproc, "runs_per_process": runs, "done_runs": 0, "corpus_units": 0, "died": 0, "violations": []}
    deadline = time.time() + fz.get("budget_s", 3600)
    for p, d, out in procs:
        try:
            p.wait(timeout=max(1, deadline - time.time()))
        except subprocess.TimeoutExpired:
            p.kill()
            info["died"] += 1
            continue
        try:
            txt = open(os.path.join(d, "log"), errors="replace").read()
        except OSError:
            txt = ""
        import re as _re
        m = _re.search(r"Done (\d+) runs", txt)
        if m:
            info["done_runs"] += int(m.group(1))
        info["corpus_units"] += len(os.listdir(os.path.join(d, "corpus")))
        if os.path.exists(out):
            with open(out) as f:
                data = json.load(f)
            sig = "fuzz:" + data["violation"]["sig"]
            rp = write_replay(prop, sig, {"case": data["case"], "violation": data["violation"]}, len(info["violations"]))
            info["violations"].append((sig, rp))
        elif p.returncode != 0:
            info["died"] += 1
    return info


def write_replay(prop, sig, fc, idx):
    d = os.path.join(VERIF, "replays")
    os.makedirs(d, exist_ok=True)
    name = "%s_%s_%d.json" % (prop.ID, hashlib.sha1(sig.encode()).hexdigest()[:8], idx)
    path = os.path.join(d, name)
    with open(path, "w") as f:
        json.dump({"property": prop.ID, "signature": sig, "case": fc["case"], "violation": fc["violation"]}, f,
                  indent=1, default=str)
    return path


def replay_file(prop, path):
    with open(path) as f:
        data = json.load(f)
    case = data["case"] if isinstance(data, dict) and "case" in data else data
    return case, guarded_judge(prop, case)


def main(prop_name, tier, replay=None):
    import importlib
    t0 = time.time()
    env.setup()
    prop = importlib.import_module("props." + prop_name)
    seed = int(os.environ.get("VERIF_SEED", "1") or "1")
    known = load_known(prop.ID)

    if replay:
        case, res = replay_file(prop, replay)
        print(json.dumps({k: v for k, v in res.items() if k != "sample"}, indent=1, default=str)[:6000])
        bad = [v for v in res.get("violations", []) if match_known(v["sig"], known) is None]
        for v in res.get("violations", []):
            e = match_known(v["sig"], known)
            if e is not None:
                print("KNOWN-FINDING: property=%s %s" % (prop.ID, e["what"]))
        if bad:
            print("VIOLATION property=%s replay=%s" % (prop.ID, replay))
            return 1
        return 0

    try:
        with watchdog(300):
            prop.selftest()
    except BaseException as e:
        print("HARNESS-ERROR: oracle self-test failed: %s: %s" % (type(e).__name__, e), file=sys.stderr)
        traceback.print_exc()
        return 2

    work = os.path.join(VERIF, ".work", "%s_%d" % (prop.ID, os.getpid()))
    shutil.rmtree(work, ignore_errors=True)
    os.makedirs(work)
    os.environ["HOME"] = work
    os.chdir(work)
    violations = []  # (sig, path)
    try:
        # 1. regression corpus
        corpus_dir = os.path.join(VERIF, "corpus", prop.ID)
        n_corpus = 0
        if os.path.isdir(corpus_dir):
            for fn in sorted(os.listdir(corpus_dir)):
                if not fn.endswith(".json"):
                    continue
                n_corpus += 1
                path = os.path.join(corpus_dir, fn)
                case, res = replay_file(prop, path)
                for v in res.get("violations", []):
                    if match_known(v["sig"], known) is None:
                        violations.append((v["sig"], path))
        # 2. witnesses of open findings
        known_lines = []
        for e in known:
            if e.get("property") != prop.ID:
                continue
            still = None
            if e.get("witness") is not None:
                res = guarded_judge(prop, e["witness"])
                still = any(match_known(v["sig"], [e]) is not None for v in res.get("violations", []))
            known_lines.append((e, still))
            if still or still is None:
                print("KNOWN-FINDING: property=%s %s" % (prop.ID, e["what"]))
            else:
                print("note: open finding %s no longer reproduces from its witness" % e["id"])
        # 3. generated search
        total = int(os.environ.get("VERIF_CASES", "0")) or prop.CASES[tier]
        # wall-clock budget of the generated search: bounded by case count first; the thorough tier additionally stops
        # drawing new cases after VERIF_BUDGET_S seconds (default 5400).  A budget stop is reported in the evidence
        # (requested vs. evaluated cases) and is never a violation.
        budget = int(os.environ.get("VERIF_BUDGET_S", "0") or 0) or (getattr(prop, "BUDGET_S", 5400) if tier == "thorough" else 0)
        if budget:
            os.environ["VERIF_DEADLINE_TS"] = repr(time.time() + budget)
        records, fails, samples, meta, _ = run_shards(prop, prop_name, tier, seed, total, work)
        os.environ.pop("VERIF_DEADLINE_TS", None)
        if meta["harness_errors"]:
            print("HARNESS-ERROR in worker:\n" + meta["harness_errors"][0], file=sys.stderr)
            return 2
        if meta["worker_crash"] > 3:
            print("HARNESS-ERROR: %d worker crashes" % meta["worker_crash"], file=sys.stderr)
            return 2
        # 3b. coverage-guided byte-level campaign (thorough tier, properties that define FUZZ)
        fuzz_info = None
        fz = getattr(prop, "FUZZ", None)
        if fz and (tier == "thorough" or os.environ.get("VERIF_FUZZ")):
            fuzz_info = run_fuzz(prop, fz, seed, work)
            for rp in fuzz_info.pop("violations"):
                violations.append((rp[0], rp[1]))
        # 4. shrink (thorough only)
        if fails and tier == "thorough" and not os.environ.get("VERIF_NOSHRINK"):
            for sig in sorted(fails)[:3]:
                swork = os.path.join(work, "shrink_" + hashlib.sha1(sig.encode()).hexdigest()[:6])
                os.makedirs(swork)
                try:
                    os.environ["VERIF_DEADLINE_TS"] = repr(time.time() + 900)
                    _r, _f, _s, _m, lfs = run_shards(prop, prop_name, tier, seed, total, swork, shrink=sig)
                    if lfs:
                        best = min(lfs, key=lambda fc: len(json.dumps(fc["case"], default=str)))
                        fails[sig] = best
                except BaseException:
                    pass
        for i, sig in enumerate(sorted(fails)):
            violations.append((sig, write_replay(prop, sig, fails[sig], i)))

        # 5. evidence
        labels = Counter()
        inc = Counter()
        kn = Counter()
        keys = set()
        counters = Counter()
        for r in records:
            for ck, cv in (r.get("c") or {}).items():
                counters[ck] += cv
            for l in r["l"]:
                labels[l] += 1
            if r["inc"]:
                inc[r["inc"]] += 1
            for k in r["kn"]:
                kn[k] += 1
            if r["nt"]:
                keys.add(r["k"])
        stats = {"evaluations": len(records), "distinct_nontrivial": len(keys), "classes": dict(labels),
                 "inconclusive": dict(inc), "excluded_known": dict(kn)}
        ev = {
            "property_id": prop.ID, "tier": tier, "seed": seed, "level": "exploration",
            "coverage": {
                "evaluations": len(records) + n_corpus,
                "distinct_nontrivial": len(keys),
                "rule": prop.RULE,
                "samples": samples[:8],
                "classes": dict(sorted(labels.items())),
                "inconclusive": dict(inc),
                "excluded_known": dict(kn),
                "counters": dict(counters),
                "hard_kills": meta["hard_kills"], "worker_crash": meta["worker_crash"],
                "killed_cases": meta["killed_cases"],
                "requested_cases": total, "wall_budget_s": budget or None,
                "stopped_by_budget": bool(meta["budget_stops"]),
                "corpus_replayed": n_corpus,
                "known_findings_replayed": [{"id": e["id"], "still_fails": s} for e, s in known_lines],
                "violation_signatures": sorted(set(s for s, _ in violations)),
                "fuzz_campaign": fuzz_info,
            },
            "assumptions": list(getattr(prop, "ASSUMPTIONS", [])),
            "wall_s": round(time.time() - t0, 1),
            "violations": len(violations),
        }
        # sensitivity runs against scratch copies (tools/seedtest.sh, tools/mut.py) set VERIF_EVIDENCE_DIR so that
        # the committed evidence always describes a run on /repo's working tree
        evdir = os.environ.get("VERIF_EVIDENCE_DIR") or os.path.join(VERIF, "evidence")
        os.makedirs(evdir, exist_ok=True)
        with open(os.path.join(evdir, prop.ID + ".json"), "w") as f:
            json.dump(ev, f, indent=1, default=str)
        if meta["budget_stops"]:
            print("note: wall-clock budget of %d s reached after %d of %d requested cases (%d shards stopped early)" % (
                budget, len(records), total, meta["budget_stops"]))
        print("%s %s seed=%d cases=%d nontrivial_distinct=%d inconclusive=%s excluded_known=%s hard_kills=%d wall=%.0fs" % (
            prop.ID, tier, seed, len(records), len(keys), dict(inc), dict(kn), meta["hard_kills"], time.time() - t0))
        print("classes: " + json.dumps(dict(sorted(labels.items()))))
        if violations:
            for sig, path in violations:
                print("violation signature: %s" % sig)
                print("VIOLATION property=%s replay=%s" % (prop.ID, path))
            return 1
        h = getattr(prop, "health", None)
        if h is not None:
            msg = h(stats, tier)
            if msg:
                print("HARNESS-ERROR: generator health: " + msg, file=sys.stderr)
                return 2
        if len(keys) < 2:
            print("HARNESS-ERROR: fewer than 2 distinct non-trivial cases", file=sys.stderr)
            return 2
        return 0
    finally:
        os.chdir(VERIF)
        shutil.rmtree(work, ignore_errors=True)
        try:
            os.rmdir(os.path.join(VERIF, ".work"))
        except OSError:
            pass
