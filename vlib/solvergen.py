"""Constraint templates and settings for the solver-facing properties (C01, C02, C18).

Templates are instantiated over a grammar's nonterminals and produce formulas of the harness AST
(vlib/fml.py) in *core* syntax, so the reference semantics can judge every solution.  They are chosen to be
productive (the solver finds solutions within seconds) while covering each elimination route of
ISLaSolver.solve(): universal matching, existential elimination by tree insertion, SMT solving with
string/integer atoms, semantic predicate (count) elimination, numeric quantifiers, structural predicates.
"""
from . import rt, fml
from .gen import chance, pick

SETTINGS_SPACE = {
    "max_number_free_instantiations": [1, 2, 5, 10],
    "max_number_smt_instantiations": [1, 2, 5, 10],
    "enable_optimized_z3_queries": [True, False],
    "enforce_unique_trees_in_queue": [False, True],
    "max_number_tree_insertion_results": [5, 1],
    "tree_insertion_methods": [None, 1, 2, 3, 4, 5, 6, 7, 0],
    "global_fuzzer": [False, True],
}


def settings(rnd):
    s = {}
    for k, vals in SETTINGS_SPACE.items():
        if chance(rnd, 0.45):
            s[k] = pick(rnd, vals)
    return s


def _eq(v, s, neg=False):
    a = ["smt", ["=", ["var", v], ["str", s]]]
    return ["not", a] if neg else a


def template(rnd, cg, lits, gname=None, prefer=None, only=None):
    """returns (name, formula); `prefer`: a nonterminal (the requested start symbol) that quantifiers with match
    expressions should range over with high probability (the quantified type is then the tree's root)"""
    R = rt.reach(cg)
    num = sorted(fml.numeral_nts(cg))
    nts = [k for k in cg if k != "<start>"]
    inner = [k for k in nts if any(rt.is_nt(s) for a in cg[k] for s in a)]

    def some_lit(T, default="zz"):
        pool = lits.get(T) or [default]
        return pick(rnd, pool)

    kinds = ["forall_eq", "forall_neq", "forall_len", "exists_eq", "count_lit", "count_numq", "struct2", "mexpr_children",
             "bool_combo", "exists_len", "prefix", "random", "random", "nested_in", "nested_in_smt", "implication"]
    if num:
        kinds += ["toint", "toint", "toint_arith", "toint_pair"]
        if any((R[n] - {n}) & set(nts) for n in num):
            kinds += ["toint_and_part"] * 3
    if gname in ("lang", "blk"):
        kinds += ["defuse", "defuse"]
    if prefer:
        kinds += ["mexpr_children"] * 6
    if only:
        kinds = [x for x in kinds if x in only] or kinds
    k = pick(rnd, kinds)
    T = pick(rnd, nts)
    v = "v1"
    if k == "forall_eq":
        # only sensible when T has few values: pick a leaf-ish type
        leafy = [x for x in nts if x not in inner] or nts
        T = pick(rnd, leafy)
        return k, ["forall", T, v, "start", None, _eq(v, some_lit(T))]
    if k == "forall_neq":
        return k, ["forall", T, v, "start", None, _eq(v, some_lit(T), True)]
    if k == "forall_len":
        op = pick(rnd, ["<", "<=", ">", ">=", "="])
        n = rnd.randint(1, 6) if op in (">", ">=") else rnd.randint(1, 12)
        return k, ["forall", T, v, "start", None, ["smt", [op, ["str.len", ["var", v]], ["int", n]]]]
    if k == "exists_len":
        return k, ["exists", T, v, "start", None, ["smt", [pick(rnd, [">", ">=", "="]), ["str.len", ["var", v]], ["int", rnd.randint(1, 8)]]]]
    if k == "exists_eq":
        return k, ["exists", T, v, "start", None, _eq(v, some_lit(T))]
    if k == "prefix":
        s = some_lit(T)
        opn = pick(rnd, ["str.prefixof", "str.suffixof", "str.contains"])
        s2 = s[:rnd.randint(1, 2)] if opn != "str.suffixof" else s[-1:]
        atom = ["smt", [opn, ["var", v], ["str", s2]]] if opn == "str.contains" else ["smt", [opn, ["str", s2], ["var", v]]]
        return k, [pick(rnd, ["forall", "exists"]), T, v, "start", None, atom]
    if k == "toint":
        N = pick(rnd, num)
        op = pick(rnd, ["<", "<=", ">", ">=", "="])
        # small bounds (0, 1, 2) one time in three: the values 0 and 1 are where signs and padding are special
        bound = rnd.randint(0, 2) if chance(rnd, 0.33) else rnd.randint(0, 60)
        return k, [pick(rnd, ["forall", "forall", "exists"]), N, v, "start", None,
                   ["smt", [op, ["str.to.int", ["var", v]], ["int", bound]]]]
    if k == "toint_and_part":
        # a numeric condition on a numeral-valued node together with a condition on one of its parts (e.g. its leading
        # digit): whatever value the solver finds for the number must keep the part as constrained
        cands = [n for n in num if (R[n] - {n}) & set(nts)]
        N = pick(rnd, cands)
        D = pick(rnd, sorted((R[N] - {N}) & set(nts)))
        cmp_ = ["smt", [pick(rnd, [">", ">", ">=", "<", "="]), ["str.to.int", ["var", "v1"]], ["int", pick(rnd, [5, 20, 100, 100, 250, 1000])]]]
        part = _eq("v2", some_lit(D, "7"), chance(rnd, 0.25))
        return k, ["and", ["forall", N, "v1", "start", None, cmp_], [pick(rnd, ["forall", "forall", "exists"]), D, "v2", "start", None, part]]
    if k == "toint_arith":
        N = pick(rnd, num)
        lhs = [pick(rnd, ["+", "-", "*"]), ["str.to.int", ["var", v]], ["int", rnd.randint(1, 4)]]
        if chance(rnd, 0.3):
            lhs = ["mod", ["str.to.int", ["var", v]], ["int", rnd.randint(2, 5)]]
        return k, [pick(rnd, ["forall", "exists"]), N, v, "start", None,
                   ["smt", [pick(rnd, ["<", ">", "=", ">=", "<="]), lhs, ["int", rnd.randint(0, 20)]]]]
    if k == "toint_pair":
        N = pick(rnd, num)
        return k, ["forall", N, "v1", "start", None, ["forall", N, "v2", "start", None,
                   ["or", ["pred", "same_position", ["v", "v1"], ["v", "v2"]],
                    ["smt", [pick(rnd, ["distinct", "<=", "="]), ["str.to.int", ["var", "v1"]], ["str.to.int", ["var", "v2"]]]]]]]
    if k == "count_lit":
        cand = [x for x in nts if len(cg[x]) >= 1]
        T = pick(rnd, cand)
        return k, ["count", "start", T, ["s", str(rnd.randint(0, 4))]]
    if k == "count_numq":
        T = pick(rnd, nts)
        return k, ["existsint", "n1", ["and", ["count", "start", T, ["v", "n1"]],
                                       ["smt", [pick(rnd, [">", ">=", "=", "<"]), ["str.to.int", ["var", "n1"]], ["int", rnd.randint(1, 4)]]]]]
    if k == "struct2":
        U = pick(rnd, nts)
        name = pick(rnd, ["before", "after", "inside", "direct_child", "different_position", "same_position"])
        q1, q2 = pick(rnd, ["exists", "forall"]), "exists"
        body = ["pred", name, ["v", "v1"], ["v", "v2"]]
        if chance(rnd, 0.4):
            body = ["and", body, _eq("v2", some_lit(U))]
        return k, [q1, T, "v1", "start", None, [q2, U, "v2", "start", None, body]]
    if k == "nested_in_smt":
        # an existential below a universal whose body also constrains the *in*-variable by an SMT atom
        inn = [x for x in inner if R[x]]
        if inn:
            T = pick(rnd, inn)
            U = pick(rnd, sorted(R[T]))
            outer_atom = ["smt", [pick(rnd, [">", ">=", "<="]), ["str.len", ["var", "v1"]], ["int", rnd.randint(1, 7)]]]
            if chance(rnd, 0.3):
                s_ = some_lit(T)
                outer_atom = ["smt", ["str.contains", ["var", "v1"], ["str", s_[:1] or "a"]]]
            return k, [pick(rnd, ["forall", "forall", "exists"]), T, "v1", "start", None,
                       ["exists", U, "v2", "v1", None, ["and", _eq("v2", some_lit(U)), outer_atom]]]
        k = "nested_in"
    if k == "nested_in":
        inn = [x for x in inner if R[x]]
        if inn:
            T = pick(rnd, inn)
            U = pick(rnd, sorted(R[T]))
            return k, ["forall", T, "v1", "start", None, [pick(rnd, ["exists", "forall"]), U, "v2", "v1", None,
                                                            _eq("v2", some_lit(U), chance(rnd, 0.3))]]
        k = "mexpr_children"
    if k == "mexpr_children":
        fg = fml.FGen(rnd, cg, lits, dict(mexpr=1.0, opt=0.3))
        for _ in range(6):
            T = prefer if prefer and prefer in cg and chance(rnd, 0.75) else pick(rnd, inner or nts)
            mx, binds = fg.mexpr_for(T)
            if mx and binds:
                b = pick(rnd, binds)
                body = _eq(b[0], some_lit(b[1]), chance(rnd, 0.5))
                if len(binds) >= 2 and chance(rnd, 0.5):
                    b2 = pick(rnd, [x for x in binds if x != b])
                    body = ["not", ["smt", ["=", ["var", b[0]], ["var", b2[0]]]]] if chance(rnd, 0.6) else ["smt", ["=", ["var", b[0]], ["var", b2[0]]]]
                return k, [pick(rnd, ["forall", "forall", "exists"]), T, "q1", "start", mx, body]
        return "forall_neq", ["forall", T, v, "start", None, _eq(v, some_lit(T), True)]
    if k == "defuse":
        if gname == "lang":
            return k, ["forall", "<assgn>", "a1", "start", [["nt", "<var>"], ["text", " := "], ["bind", "<var>", "r"]],
                       ["exists", "<assgn>", "a2", "start", [["bind", "<var>", "l"], ["text", " := "], ["nt", "<rhs>"]],
                        ["and", ["pred", "before", ["v", "a2"], ["v", "a1"]], ["smt", ["=", ["var", "l"], ["var", "r"]]]]]]
        return k, ["forall", "<use>", "u", "start", [["nt", "<id>"], ["text", "="], ["bind", "<id>", "r"], ["text", ";"]],
                   ["exists", "<decl>", "d", "start", [["text", "int "], ["bind", "<id>", "l"], ["text", ";"]],
                    ["and", ["pred", "before", ["v", "d"], ["v", "u"]], ["smt", ["=", ["var", "l"], ["var", "r"]]]]]]
    if k == "implication":
        n1, f1 = template(rnd, cg, lits, gname)
        n2, f2 = template(rnd, cg, lits, gname)
        return "implication(%s,%s)" % (n1, n2), [pick(rnd, ["implies", "iff", "xor"]), rename_bound(f1, "a"), rename_bound(f2, "b")]
    if k == "bool_combo":
        n1, f1 = template(rnd, cg, lits, gname)
        n2, f2 = template(rnd, cg, lits, gname)
        if chance(rnd, 0.2):
            f2 = ["not", f2]
        return "bool(%s,%s)" % (n1, n2), [pick(rnd, ["and", "and", "or"]), rename_bound(f1, "a"), rename_bound(f2, "b")]
    # random low-depth composition
    fg = fml.FGen(rnd, cg, lits, dict(numq=0.15, unused=0.0, mexpr=0.3, connectives=("and", "or", "not", "implies")))
    return "random", fg.formula([("start", "<start>")], rnd.randint(1, 2))


def rename_bound(f, suffix):
    """append `suffix` to every variable except `start` (keeps two templates' names apart)"""
    def rv(x):
        return x if x == "start" else x + suffix

    def term(t):
        if t[0] == "var":
            return ["var", rv(t[1])]
        if t[0] in ("str", "int"):
            return t
        return [t[0]] + [term(a) for a in t[1:]]

    def mx(m):
        out = []
        for e in m:
            if e[0] == "bind":
                out.append(["bind", e[1], rv(e[2])])
            elif e[0] == "opt":
                out.append(["opt", mx(e[1])])
            else:
                out.append(e)
        return out

    def go(x):
        k = x[0]
        if k in ("forall", "exists"):
            return [k, x[1], rv(x[2]), rv(x[3]), None if x[4] is None else mx(x[4]), go(x[5])]
        if k in ("forallint", "existsint"):
            return [k, rv(x[1]), go(x[2])]
        if k in ("and", "or", "not", "implies", "iff", "xor"):
            return [k] + [go(a) for a in x[1:]]
        if k == "smt":
            return ["smt", term(x[1])]
        if k == "count":
            return ["count", rv(x[1]), x[2], ["v", rv(x[3][1])] if x[3][0] == "v" else x[3]]
        if k == "pred":
            return ["pred", x[1]] + [["v", rv(a[1])] if a[0] == "v" else a for a in x[2:]]
        return x

    return go(f)
