"""Regex ASTs for C15: a JSON-able AST, its conversion to/from Z3 regular expressions, an
independent translation to Python `re`, a bounded string enumerator and a few structural facts.

AST (nested lists, JSON-able):
  ["re", s]            literal string s                 z3.Re(s)
  ["range", a, b]      one character in a..b            z3.Range(a, b)
  ["star", x] ["plus", x] ["opt", x]                    z3.Star / z3.Plus / z3.Option
  ["union", x, y, ...] (>= 2)                           z3.Union(...)
  ["concat", x, y, ...] (>= 2)                          z3.Concat(...)

Nothing here imports isla.  Z3 is used only to build the argument handed to ISLa and to read back
what ISLa returns (`from_z3` looks at declaration kinds, never at ISLa code).
"""
import re

SIGNS = "+-"


# ---------------------------------------------------------------- Z3 <-> AST

def to_z3(ast):
    import z3
    k = ast[0]
    if k == "re":
        return z3.Re(ast[1])
    if k == "range":
        return z3.Range(ast[1], ast[2])
    if k == "star":
        return z3.Star(to_z3(ast[1]))
    if k == "plus":
        return z3.Plus(to_z3(ast[1]))
    if k == "opt":
        return z3.Option(to_z3(ast[1]))
    if k == "union":
        return z3.Union(*[to_z3(c) for c in ast[1:]])
    if k == "concat":
        return z3.Concat(*[to_z3(c) for c in ast[1:]])
    raise ValueError("bad ast %r" % (ast,))


def from_z3(r):
    """Z3 regex -> AST, by declaration kind (Z3 builds n-ary Concat/Union as nested binary nodes;
    the nesting is kept here, `flat` removes it)."""
    import z3
    k = r.decl().kind()
    ch = r.children()
    if k == z3.Z3_OP_SEQ_TO_RE:
        s = ch[0].as_string()
        if "\\u{" in s:
            raise ValueError("escaped literal not supported by the harness: %r" % s)
        return ["re", s]
    if k == z3.Z3_OP_RE_RANGE:
        return ["range", ch[0].as_string(), ch[1].as_string()]
    if k == z3.Z3_OP_RE_STAR:
        return ["star", from_z3(ch[0])]
    if k == z3.Z3_OP_RE_PLUS:
        return ["plus", from_z3(ch[0])]
    if k == z3.Z3_OP_RE_OPTION:
        return ["opt", from_z3(ch[0])]
    if k == z3.Z3_OP_RE_UNION:
        return ["union"] + [from_z3(c) for c in ch]
    if k == z3.Z3_OP_RE_CONCAT:
        return ["concat"] + [from_z3(c) for c in ch]
    raise ValueError("regex kind not supported by the harness: %s" % r)


def flat(ast):
    """associativity-normal form: nested concat in concat / union in union are spliced"""
    k = ast[0]
    if k in ("re", "range"):
        return list(ast)
    if k in ("star", "plus", "opt"):
        return [k, flat(ast[1])]
    out = [k]
    for c in ast[1:]:
        fc = flat(c)
        if fc[0] == k:
            out.extend(fc[1:])
        else:
            out.append(fc)
    return out


# ---------------------------------------------------------------- AST -> Python re

def to_py(ast):
    k = ast[0]
    if k == "re":
        return re.escape(ast[1])
    if k == "range":
        a, b = ast[1], ast[2]
        if len(a) != 1 or len(b) != 1:
            raise ValueError("range bounds must be single characters")
        if a > b:
            return "(?!)"  # empty language, as in SMT-LIB
        return "[%s-%s]" % (re.escape(a), re.escape(b))
    if k == "star":
        return "(?:%s)*" % to_py(ast[1])
    if k == "plus":
        return "(?:%s)+" % to_py(ast[1])
    if k == "opt":
        return "(?:%s)?" % to_py(ast[1])
    if k == "union":
        return "(?:" + "|".join("(?:%s)" % to_py(c) for c in ast[1:]) + ")"
    if k == "concat":
        return "".join("(?:%s)" % to_py(c) for c in ast[1:])
    raise ValueError("bad ast %r" % (ast,))


def compile_ast(ast):
    return re.compile(to_py(ast), re.DOTALL)


# ---------------------------------------------------------------- automaton matcher

class Matcher:
    """Thompson NFA of an AST, run as a lazily determinised automaton: linear in the string, no
    backtracking.  `start` / `step` / `accepting` expose the state sets so that callers can share
    common prefixes of many strings."""

    def __init__(self, ast):
        self.eps = []      # state -> list of states
        self.edges = []    # state -> list of (lo, hi, target)
        s, a = self._build(ast)
        self.accept = a
        self.start = self._close({s})
        self._memo = {}

    def _new(self):
        self.eps.append([])
        self.edges.append([])
        return len(self.eps) - 1

    def _build(self, a):
        k = a[0]
        if k == "re":
            s = cur = self._new()
            for ch in a[1]:
                nxt = self._new()
                self.edges[cur].append((ch, ch, nxt))
                cur = nxt
            return s, cur
        if k == "range":
            s, t = self._new(), self._new()
            if len(a[1]) != 1 or len(a[2]) != 1:
                raise ValueError("range bounds must be single characters")
            if a[1] <= a[2]:
                self.edges[s].append((a[1], a[2], t))
            return s, t
        if k == "concat":
            s, t = self._build(a[1])
            for c in a[2:]:
                s2, t2 = self._build(c)
                self.eps[t].append(s2)
                t = t2
            return s, t
        if k == "union":
            s, t = self._new(), self._new()
            for c in a[1:]:
                s2, t2 = self._build(c)
                self.eps[s].append(s2)
                self.eps[t2].append(t)
            return s, t
        if k in ("star", "plus", "opt"):
            s, t = self._new(), self._new()
            s2, t2 = self._build(a[1])
            self.eps[s].append(s2)
            self.eps[t2].append(t)
            if k in ("star", "opt"):
                self.eps[s].append(t)
            if k in ("star", "plus"):
                self.eps[t2].append(s2)
            return s, t
        raise ValueError("bad ast %r" % (a,))

    def _close(self, states):
        seen = set(states)
        todo = list(states)
        while todo:
            q = todo.pop()
            for r in self.eps[q]:
                if r not in seen:
                    seen.add(r)
                    todo.append(r)
        return frozenset(seen)

    def step(self, S, ch):
        key = (S, ch)
        r = self._memo.get(key)
        if r is None:
            r = self._close({t for q in S for (lo, hi, t) in self.edges[q] if lo <= ch <= hi})
            self._memo[key] = r
        return r

    def run(self, S, s):
        for ch in s:
            if not S:
                break
            S = self.step(S, ch)
        return S

    def accepting(self, S):
        return self.accept in S

    def fullmatch(self, s):
        return self.accept in self.run(self.start, s)


# ---------------------------------------------------------------- second matcher (end-position sets; cross-check of the first)

def freeze(ast):
    return tuple(freeze(c) if isinstance(c, list) else c for c in ast)


def fullmatch(fast, s):
    """s in L(ast), by computing for every sub-expression and start position the set of possible end
    positions (star/plus by closure).  Polynomial.  `fast` is a frozen (tuple) AST.  Only used to
    cross-check `Matcher` (self-test and a sample of strings in every case)."""
    memo = {}
    n = len(s)

    def ends(a, i):
        key = (a, i)
        r = memo.get(key)
        if r is not None:
            return r
        k = a[0]
        if k == "re":
            r = frozenset([i + len(a[1])]) if s.startswith(a[1], i) else frozenset()
        elif k == "range":
            r = frozenset([i + 1]) if i < n and a[1] <= s[i] <= a[2] else frozenset()
        elif k == "opt":
            r = ends(a[1], i) | {i}
        elif k == "union":
            r = frozenset().union(*[ends(c, i) for c in a[1:]])
        elif k == "concat":
            cur = {i}
            for c in a[1:]:
                nxt = set()
                for j in cur:
                    nxt |= ends(c, j)
                cur = nxt
                if not cur:
                    break
            r = frozenset(cur)
        elif k in ("star", "plus"):
            seen = set()
            frontier = {i}
            reach = set()
            while frontier:
                j = frontier.pop()
                if j in seen:
                    continue
                seen.add(j)
                e = ends(a[1], j)
                reach |= e
                frontier |= (e - seen)
            r = frozenset(reach | {i}) if k == "star" else frozenset(reach)
        else:
            raise ValueError("bad ast %r" % (a,))
        memo[key] = r
        return r

    return n in ends(fast, 0)


def nested_quantifier(ast, inside=False):
    """a star/plus whose body contains another quantifier or option (Python's re may backtrack badly)"""
    k = ast[0]
    if k in ("re", "range"):
        return False
    if k in ("star", "plus", "opt"):
        if inside:
            return True
        return nested_quantifier(ast[1], k != "opt" or inside)
    return any(nested_quantifier(c, inside) for c in ast[1:])


# ---------------------------------------------------------------- bounded enumeration

def enum_strings(ast, loop_max=2, cap=20000, chars=None):
    """Set of strings of L(ast) obtained by unrolling every star/plus at most `loop_max` times.
    `chars`: if given, a range only yields characters in this set and a literal is dropped unless all
    of its characters are in it (restriction of the language to an alphabet).
    Returns (set, complete) -- complete False if the cap was hit."""
    state = {"ok": True}

    def cat(xs, ys):
        out = set()
        for x in xs:
            for y in ys:
                out.add(x + y)
                if len(out) > cap:
                    state["ok"] = False
                    return out
        return out

    def go(a):
        k = a[0]
        if k == "re":
            if chars is not None and any(c not in chars for c in a[1]):
                return set()
            return {a[1]}
        if k == "range":
            lo, hi = ord(a[1]), ord(a[2])
            s = {chr(c) for c in range(lo, hi + 1)} if lo <= hi else set()
            return s if chars is None else {c for c in s if c in chars}
        if k == "opt":
            return go(a[1]) | {""}
        if k in ("star", "plus"):
            base = go(a[1])
            acc = {""} if k == "star" else set()
            cur = {""}
            for _ in range(loop_max):
                cur = cat(cur, base)
                acc |= cur
                if len(acc) > cap:
                    state["ok"] = False
                    break
            return acc
        if k == "union":
            out = set()
            for c in a[1:]:
                out |= go(c)
            return out
        if k == "concat":
            cur = {""}
            for c in a[1:]:
                cur = cat(cur, go(c))
                if not cur:
                    return cur
            return cur
        raise ValueError("bad ast %r" % (a,))

    res = go(ast)
    return res, state["ok"]


# ---------------------------------------------------------------- structural facts

def size(ast):
    return 1 + sum(size(c) for c in ast[1:] if isinstance(c, list))


def atoms(ast):
    if ast[0] in ("re", "range"):
        yield ast
    else:
        for c in ast[1:]:
            for a in atoms(c):
                yield a


def zero_capable_atoms(ast):
    """number of atoms that can contribute a '0' character"""
    n = 0
    for a in atoms(ast):
        if a[0] == "re":
            n += a[1].count("0")
        elif a[1] <= "0" <= a[2]:
            n += 1
    return n


def has_sign_literal(ast):
    for a in atoms(ast):
        if a[0] == "re" and any(c in SIGNS for c in a[1]):
            return True
        if a[0] == "range" and any(a[1] <= c <= a[2] for c in SIGNS):
            return True
    return False


def sign_facts(ast):
    """(nonempty, sign_first, sign_later): the language (assumed non-empty) contains a non-empty
    string / a string starting with a sign / a string with a sign at an index >= 1.
    Exact for the constructors used here provided every sub-language is non-empty (ordered ranges)."""
    k = ast[0]
    if k == "re":
        s = ast[1]
        return (len(s) > 0, s[:1] != "" and s[0] in SIGNS, any(c in SIGNS for c in s[1:]))
    if k == "range":
        return (True, any(ast[1] <= c <= ast[2] for c in SIGNS), False)
    if k == "opt":
        return sign_facts(ast[1])
    if k in ("star", "plus"):
        ne, sf, sl = sign_facts(ast[1])
        return (ne, sf, sl or (ne and sf))
    if k == "union":
        fs = [sign_facts(c) for c in ast[1:]]
        return (any(f[0] for f in fs), any(f[1] for f in fs), any(f[2] for f in fs))
    if k == "concat":
        ne, sf, sl = False, False, False
        nullable_prefix = True
        for c in ast[1:]:
            cne, csf, csl = sign_facts(c)
            if csl or (ne and csf):
                sl = True
            if csf and nullable_prefix:
                sf = True
            ne = ne or cne
            nullable_prefix = nullable_prefix and nullable(c)
        return (ne, sf, sl)
    raise ValueError("bad ast %r" % (ast,))


def nullable(ast):
    k = ast[0]
    if k == "re":
        return ast[1] == ""
    if k == "range":
        return False
    if k in ("star", "opt"):
        return True
    if k == "plus":
        return nullable(ast[1])
    if k == "union":
        return any(nullable(c) for c in ast[1:])
    if k == "concat":
        return all(nullable(c) for c in ast[1:])
    raise ValueError("bad ast %r" % (ast,))


def show(ast):
    """compact human-readable form"""
    k = ast[0]
    if k == "re":
        return '"%s"' % ast[1]
    if k == "range":
        return "[%s-%s]" % (ast[1], ast[2])
    if k == "star":
        return show(ast[1]) + "*"
    if k == "plus":
        return show(ast[1]) + "+"
    if k == "opt":
        return show(ast[1]) + "?"
    if k == "union":
        return "(" + " | ".join(show(c) for c in ast[1:]) + ")"
    return "(" + " ".join(show(c) for c in ast[1:]) + ")"
