"""C17 cross-process decoder: reads a job (JSON on stdin) with pickled/JSON-encoded trees produced
by another interpreter (different PYTHONHASHSEED, different id counter), decodes them here and runs
the model battery.  Prints one JSON line: {"problems": [[slot, sig, detail], ...], "next_id_ok": bool}.
"""
import os
import sys
import json

sys.path.insert(0, os.path.dirname(os.path.dirname(os.path.abspath(__file__))))


def main():
    from vlib import env
    env.setup()
    import pickle
    import base64
    from vlib import c17_lib
    from isla.derivation_tree import DerivationTree
    from grammar_graph import gg
    job = json.load(sys.stdin)
    graph = None
    try:
        graph = gg.GrammarGraph.from_grammar(job["grammar"])
    except Exception:
        graph = None
    problems = []
    for i, item in enumerate(job["items"]):
        m = item["model"]
        try:
            if item["how"] == "pickle":
                o = pickle.loads(base64.b64decode(item["data"]))
            else:
                o = DerivationTree.from_json(item["data"])
        except Exception as e:
            problems.append([i, "decode:raises:%s" % type(e).__name__, {"error": str(e)[:200]}])
            continue
        # ids of later trees must not collide with decoded ones (fresh interpreter: counter starts at 0)
        probes = [DerivationTree("<probe>", None).id for _ in range(3)]
        if set(probes) & set(c17_lib.ids(m)):
            problems.append([i, "new_tree_reuses_decoded_id", {"probe_ids": probes}])
        for sig, det in c17_lib.battery(o, m, graph, tag="xproc"):
            problems.append([i, sig, det])
    print(json.dumps({"problems": problems, "hashseed": os.environ.get("PYTHONHASHSEED")}, default=str))


if __name__ == "__main__":
    main()
