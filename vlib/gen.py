"""Generators.  Every random choice goes through `rnd`, a `random.Random`-compatible object
handed out by Hypothesis (`st.randoms(use_true_random=False)`), so cases shrink and replay.
Choices are ordered so that smaller draws give simpler structures.
"""
from . import rt
from .rt import is_nt

PLAIN = ["a", "b", "c", "0", "1", " ", ";", "=", "(", ")", "x", "ab", "9", "-", ","]


def chance(rnd, p):
    """True with probability p; shrinks towards False."""
    return rnd.random() > 1.0 - p


def pick(rnd, seq):
    return seq[rnd.randint(0, len(seq) - 1)]


def grammar(rnd, max_nts=6, alphabet=None, eps=True, recursion=True, wide=False,
            multi=True, names=None, min_nts=2):
    """Random well-formed grammar, built by construction:
    every nonterminal productive (alternative 0 uses only terminals and later nonterminals)
    and reachable; <start> has one alternative consisting of one nonterminal.
    Returns dict nt -> list of alternative strings.
    """
    alpha = list(alphabet or PLAIN)
    if not multi:
        alpha = [a for a in alpha if len(a) == 1]
    k = rnd.randint(min_nts, max_nts)
    if names:
        nts = ["<%s>" % n for n in names[:k]]
        k = len(nts)
    else:
        nts = ["<n%d>" % i for i in range(k)]
    g = {"<start>": [[nts[0]]]}
    allow_eps = eps and chance(rnd, 0.6)
    allow_rec = recursion and chance(rnd, 0.8)
    for i, nt in enumerate(nts):
        later = nts[i + 1:]
        nalt = rnd.randint(1, 4)
        alts = []
        pool0 = alpha + later + later
        n0 = rnd.randint(1, 3)
        alts.append([pick(rnd, pool0) for _ in range(n0)])
        for _ in range(nalt - 1):
            pool = alpha + (nts + nts if allow_rec else later + later)
            if allow_eps and chance(rnd, 0.35):
                alts.append([])
                continue
            n = rnd.randint(1, 4)
            alt = [pick(rnd, pool) for _ in range(n)]
            if n >= 2 and chance(rnd, 0.3):
                # adjacent repetition of one symbol (nullable A A is where Earley parsers go wrong)
                i = rnd.randint(0, n - 2)
                alt[i + 1] = alt[i]
            alts.append(alt)
        if wide and chance(rnd, 0.25):
            n = rnd.randint(29, 40)
            alts.append([pick(rnd, alpha + later) for _ in range(n)])
        g[nt] = alts
    for i in range(1, k):
        if not any(nts[i] in a for j in range(i) for a in g[nts[j]]):
            j = rnd.randint(0, i - 1)
            g[nts[j]].append([nts[i]] + ([pick(rnd, alpha)] if chance(rnd, 0.5) else []))
    out = {}
    for nt, alts in g.items():
        strs = []
        for a in alts:
            # keep adjacent terminals separate only via nonterminal boundaries: joining merges them
            s = "".join(a)
            if s not in strs:
                strs.append(s)
        out[nt] = strs
    return out


def acyclic_grammar(rnd, **kw):
    """grammar without unit/nullable cycles (A =>+ A); repairs instead of rejecting."""
    g = grammar(rnd, **kw)
    for _ in range(20):
        cg = rt.canon(g)
        if not rt.has_unit_cycle(cg):
            return g
        # repair: append a terminal to every alternative that consists only of nonterminals
        # and contains a nonterminal that is not strictly later
        order = list(g.keys())
        changed = False
        for k in order:
            new = []
            for a in g[k]:
                syms = rt.split_alt(a)
                if syms and all(is_nt(s) for s in syms) and any(order.index(s) <= order.index(k) for s in syms if s in g):
                    a = a + "a"
                    changed = True
                if a not in new:
                    new.append(a)
            g[k] = new
        if not changed:
            break
    cg = rt.canon(g)
    assert not rt.has_unit_cycle(cg), g
    return g


def tree(rnd, cg, sym, depth, md=None, p_open=0.0, bias=0.75):
    """random derivation tree (no ids) as nested lists; closed unless p_open > 0."""
    md = md or rt.min_depths(cg)

    def go(s, d, top):
        if not is_nt(s):
            return [s, []]
        if p_open and not top and chance(rnd, p_open):
            return [s, None]
        alts = cg[s]
        if d <= 0:
            alt = min(alts, key=lambda a: max([md[x] for x in a if is_nt(x)] + [0]))
        else:
            rec = [a for a in alts if any(is_nt(x) for x in a) and max([md[x] for x in a if is_nt(x)] + [0]) <= d]
            pool = rec if rec and chance(rnd, bias) else [a for a in alts if max([md[x] for x in a if is_nt(x)] + [0]) <= d] or alts
            alt = pick(rnd, pool)
        return [s, [go(x, d - 1, False) for x in alt]]

    return go(sym, depth, True)


def with_ids(t, start=1):
    return rt.assign_ids(t, start)[0]


def cut(rnd, t, p_cut=0.3):
    """cut subtrees of a closed tree (with ids) back to open leaves keeping ids; root is kept
    expanded."""

    def go(n, top):
        if n[1] is None:
            return [n[0], None, n[2]]
        if is_nt(n[0]) and not top and chance(rnd, p_cut):
            return [n[0], None, n[2]]
        return [n[0], [go(c, False) for c in n[1]], n[2]]

    return go(t, True)


def complete(rnd, cg, t, depth=3, md=None):
    """fill open leaves of t (ids kept for existing nodes; new nodes get id None)."""
    md = md or rt.min_depths(cg)

    def go(n):
        if n[1] is None:
            s = tree(rnd, cg, n[0], depth, md)
            return [s[0], [_noid(c) for c in s[1]], n[2] if len(n) > 2 else None]
        return [n[0], [go(c) for c in n[1]], n[2] if len(n) > 2 else None]

    return go(t)


def _noid(t):
    return [t[0], None if t[1] is None else [_noid(c) for c in t[1]], None]


def fresh_ids(t, used, start=10000):
    """give every node whose id is None a fresh id not in `used`"""
    cnt = [start]

    def go(n):
        i = n[2] if len(n) > 2 else None
        if i is None:
            while cnt[0] in used:
                cnt[0] += 1
            i = cnt[0]
            cnt[0] += 1
        return [n[0], None if n[1] is None else [go(c) for c in n[1]], i]

    return go(t)


ZOO = {
    # ambiguous on purpose: "1+2+3" has two derivations, so the tree a caller hands in need not be the parser's first one
    "amb": {"<start>": ["<e>"], "<e>": ["<e>+<e>", "<d>", "(<e>)"], "<d>": ["1", "2", "3"]},
    # the only alternative leading from <pair> to <item> mentions <item> twice (a path through a repeated symbol)
    # numerals that cannot be written in plain decimal: mandatory zero padding
    "pad": {"<start>": ["<row>"], "<row>": ["<int>", "<int>,<row>"], "<int>": ["0<digit>", "00<digit>"],
            "<digit>": ["0", "1", "2", "3", "4", "5", "6", "7", "8", "9"]},
    "pairs": {"<start>": ["<list>"], "<list>": ["<pair>", "<pair>;<list>"], "<pair>": ["<item>,<item>"],
              "<item>": ["<num>", "(<pair>)"], "<num>": ["1", "2"]},
    "lang": {"<start>": ["<stmt>"], "<stmt>": ["<assgn> ; <stmt>", "<assgn>"], "<assgn>": ["<var> := <rhs>"],
             "<rhs>": ["<var>", "<digit>"], "<var>": list("abc"), "<digit>": list("012")},
    "blk": {"<start>": ["<block>"], "<block>": ["{<stmts>}"], "<stmts>": ["<stmt><stmts>", "<stmt>"],
            "<stmt>": ["<block>", "<decl>", "<use>"], "<decl>": ["int <id>;"], "<use>": ["<id>=<id>;"],
            "<id>": list("xyz")},
    "eps": {"<start>": ["<l>"], "<l>": ["<i><l>", ""], "<i>": ["a", "b<l>c", "<o>"], "<o>": ["", "d"]},
    "csv": {"<start>": ["<file>"], "<file>": ["<row>\n<file>", "<row>\n"], "<row>": ["<field>,<row>", "<field>"],
            "<field>": ["<ch><field>", ""], "<ch>": list("xy1")},
    "xml": {"<start>": ["<el>"], "<el>": ["(<id><attrs>)<body>(/<id>)", "(<id><attrs>/)"],
            "<attrs>": [" <attr><attrs>", ""], "<attr>": ["<id>=<id>"], "<body>": ["<el><body>", "<txt>", ""],
            "<txt>": ["t", "tt"], "<id>": list("pq")},
    "rec": {"<start>": ["<recs>"], "<recs>": ["<rec>;<recs>", "<rec>"], "<rec>": ["<key>=<num>"],
            "<key>": list("kl"), "<num>": ["<digit><num>", "<digit>"], "<digit>": list("0123456789")},
    "int": {"<start>": ["<ints>"], "<ints>": ["<int> <ints>", "<int>"], "<int>": ["<sign><num>"],
            "<sign>": ["", "-"], "<num>": ["<lead><digits>", "<digit>"], "<digits>": ["<digit><digits>", "<digit>"],
            "<lead>": list("123456789"), "<digit>": list("0123456789")},
}
