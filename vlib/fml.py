"""Reference layer, part 2: the harness' own ISLa formula AST, printers, reference semantics and
formula generator.  Written from the language specification (sphinx/islaspec.rst); shares no
code with /repo/src.

Formulas are JSON-able nested lists:
  ["forall"|"exists", T, var, invar, mexpr|None, body]
      mexpr = [elem, ...], elem = ["text", s] | ["nt", T] | ["bind", T, v] | ["opt", [elem, ...]]
  ["forallint"|"existsint", var, body]
  ["and", f, g, ...] ["or", f, g, ...] ["not", f] ["implies", f, g] ["iff", f, g] ["xor", f, g]
  ["true"] ["false"]
  ["pred", name, arg, ...]     arg = ["v", var] | ["s", text] | ["i", int]
  ["count", var, T, arg]       arg = ["s", "3"] | ["v", numeric var]
  ["smt", term]
SMT terms:
  ["var", name] ["str", s] ["int", n]
  ["str.len", t] ["str.to.int", t] ["str.++", t, u] ["+", a, b] ["-", a, b] ["*", a, b] ["mod", a, b] ["div", a, b]
  ["=", a, b] ["distinct", a, b] ["<", a, b] ["<=", a, b] [">", a, b] [">=", a, b]
  ["str.prefixof", a, b] ["str.suffixof", a, b] ["str.contains", a, b]
  ["not", a] ["and", a, b] ["or", a, b]
Variables are bound to *paths* into the reference tree (node identity = path).
"""
import itertools
import json

from . import rt
from .rt import is_nt

# ------------------------------------------------------------------ printing (core concrete syntax)


def lit(s):
    """ISLa string literal: everything outside printable ASCII, and '"' and '\\', as \\u{hex}"""
    out = []
    for ch in s:
        if ch in '"\\' or not (32 <= ord(ch) < 127):
            out.append("\\u{%x}" % ord(ch))
        else:
            out.append(ch)
    return '"' + "".join(out) + '"'


def term_str(t):
    k = t[0]
    if k == "var":
        return t[1]
    if k == "str":
        return lit(t[1])
    if k == "int":
        return str(t[1]) if t[1] >= 0 else "(- %d)" % (-t[1])
    return "(" + k + " " + " ".join(term_str(a) for a in t[1:]) + ")"


def mexpr_str(mx):
    out = []
    for e in mx:
        if e[0] == "text":
            out.append(e[1].replace('"', '\\"'))
        elif e[0] == "nt":
            out.append(e[1])
        elif e[0] == "bind":
            out.append("{" + e[1] + " " + e[2] + "}")
        elif e[0] == "opt":
            out.append("[" + mexpr_str(e[1]) + "]")
    return "".join(out)


def arg_str(a):
    if a[0] == "v":
        return a[1]
    if a[0] == "s":
        return lit(a[1])
    return str(a[1])


def pr(f):
    """core ISLa concrete syntax, fully parenthesised"""
    k = f[0]
    if k in ("forall", "exists"):
        _, T, v, inv, mx, body = f
        ms = "" if mx is None else '="' + mexpr_str(mx) + '"'
        return "%s %s %s%s in %s: (%s)" % (k, T, v, ms, inv, pr(body))
    if k in ("forallint", "existsint"):
        return "%s int %s: (%s)" % ("forall" if k == "forallint" else "exists", f[1], pr(f[2]))
    if k in ("and", "or"):
        return "(" + (" %s " % k).join(pr(x) for x in f[1:]) + ")"
    if k in ("implies", "iff", "xor"):
        return "(%s %s %s)" % (pr(f[1]), k, pr(f[2]))
    if k == "not":
        return "not (%s)" % pr(f[1])
    if k == "true":
        return "true"
    if k == "false":
        return "false"
    if k == "pred":
        return "%s(%s)" % (f[1], ", ".join(arg_str(a) for a in f[2:]))
    if k == "count":
        return 'count(%s, "%s", %s)' % (f[1], f[2], arg_str(f[3]))
    if k == "smt":
        return term_str(f[1])
    raise ValueError(k)


# ------------------------------------------------------------------ ground SMT terms (Python evaluation)

class Undecided(Exception):
    """the reference declines to judge (outside the fragment it decides exactly)"""


def numeral(s):
    """sign-aware integer value of s if s is [+-]?[0-9]+ (ISLa's documented str.to.int), else None"""
    body = s[1:] if s[:1] in "+-" else s
    if not body or not all("0" <= c <= "9" for c in body):
        return None
    return int(s)


def ev_term(t, val):
    """val: var name -> Python string (tree yield) or int (numeric quantifier instance)"""
    k = t[0]
    if k == "var":
        return val[t[1]]
    if k in ("str", "int"):
        return t[1]
    a = [ev_term(x, val) for x in t[1:]]
    if k == "str.len":
        return len(a[0])
    if k == "str.to.int":
        if isinstance(a[0], int):
            return a[0]
        n = numeral(a[0])
        if n is None:
            raise Undecided("str.to.int on non-numeral %r" % (a[0],))
        return n
    if k == "str.++":
        return a[0] + a[1]
    if k == "+":
        return a[0] + a[1]
    if k == "-":
        return a[0] - a[1]
    if k == "*":
        return a[0] * a[1]
    if k in ("mod", "div"):
        if a[1] <= 0:
            raise Undecided("div/mod by non-positive")
        return a[0] % a[1] if k == "mod" else a[0] // a[1]
    if k == "=":
        return a[0] == a[1]
    if k == "distinct":
        return a[0] != a[1]
    if k == "<":
        return a[0] < a[1]
    if k == "<=":
        return a[0] <= a[1]
    if k == ">":
        return a[0] > a[1]
    if k == ">=":
        return a[0] >= a[1]
    if k == "str.prefixof":
        return a[1].startswith(a[0])
    if k == "str.suffixof":
        return a[1].endswith(a[0])
    if k == "str.contains":
        return a[1] in a[0]
    if k == "not":
        return not a[0]
    if k == "and":
        return all(a)
    if k == "or":
        return any(a)
    raise ValueError(k)


def term_vars(t, acc=None):
    acc = set() if acc is None else acc
    if t[0] == "var":
        acc.add(t[1])
    elif t[0] not in ("str", "int"):
        for x in t[1:]:
            term_vars(x, acc)
    return acc


def term_to_z3(t, z3, strvars):
    """for self-tests only: build a z3 expression (variables as String constants)"""
    k = t[0]
    if k == "var":
        return strvars[t[1]]
    if k == "str":
        return z3.StringVal(t[1])
    if k == "int":
        return z3.IntVal(t[1])
    a = [term_to_z3(x, z3, strvars) for x in t[1:]]
    import operator
    table = {"str.len": z3.Length, "str.to.int": z3.StrToInt, "str.++": z3.Concat, "+": operator.add, "-": operator.sub,
             "*": operator.mul, "mod": operator.mod, "div": operator.truediv, "<": operator.lt, "<=": operator.le,
             ">": operator.gt, ">=": operator.ge, "str.prefixof": z3.PrefixOf, "str.suffixof": z3.SuffixOf,
             "str.contains": z3.Contains, "not": z3.Not, "and": z3.And, "or": z3.Or}
    if k == "=":
        return z3.BoolRef(z3.Z3_mk_eq(a[0].ctx_ref(), a[0].as_ast(), a[1].as_ast()), a[0].ctx)
    if k == "distinct":
        return z3.Distinct(a[0], a[1])
    return table[k](*a)


# ------------------------------------------------------------------ match expressions

def mexpr_word(elems):
    w = []
    for e in elems:
        if e[0] == "text":
            w.extend(("t", ch, None) for ch in e[1])
        elif e[0] == "nt":
            w.append(("n", e[1], None))
        elif e[0] == "bind":
            w.append(("n", e[1], e[2]))
    return w


def abstract_parses(cg, A, w, cap=12):
    """all derivation prefixes rooted in A whose frontier spells the abstract word w
    (letters: terminal characters or nonterminal symbols).  Returns [(tree, {var: path})];
    trees are (label, children|None) with None = open leaf."""
    memo = {}
    limit = len(w) + len(cg) + 2

    def parse_sym(sym, i, j, depth):
        if depth > limit:
            return []
        if not is_nt(sym):
            if j - i == len(sym) and all(w[i + k][0] == "t" and w[i + k][1] == sym[k] for k in range(len(sym))):
                return [((sym, ()), {})]
            return []
        key = (sym, i, j)
        if key in memo:
            return memo[key]
        memo[key] = []
        res = []
        if j - i == 1 and w[i][0] == "n" and w[i][1] == sym:
            res.append(((sym, None), {} if w[i][2] is None else {w[i][2]: ()}))
        for alt in cg[sym]:
            for parts in split_seq(alt, i, j, depth + 1):
                kids = tuple(p[0] for p in parts)
                b = {}
                for idx, p in enumerate(parts):
                    for v, path in p[1].items():
                        b[v] = (idx,) + path
                res.append(((sym, kids), b))
                if len(res) > cap:
                    break
        memo[key] = res
        return res

    def split_seq(alt, i, j, depth):
        if not alt:
            return [[]] if i == j else []
        out = []
        first, rest = alt[0], alt[1:]
        for k in range(i, j + 1):
            fs = parse_sym(first, i, k, depth)
            if not fs:
                continue
            rs = split_seq(rest, k, j, depth)
            for f in fs:
                for r in rs:
                    out.append([f] + r)
                    if len(out) > cap:
                        return out
        return out

    return parse_sym(A, 0, len(w), 0)


def mexpr_alternatives(mx):
    """all on/off choices of optional groups -> flat element lists"""
    opts = [i for i, e in enumerate(mx) if e[0] == "opt"]
    res = []
    for mask in itertools.product([1, 0], repeat=len(opts)):
        elems = []
        for i, e in enumerate(mx):
            if e[0] == "opt":
                if mask[opts.index(i)]:
                    elems.extend(e[1])
            else:
                elems.append(e)
        res.append(elems)
    return res


def mexpr_vars(mx):
    out = []
    for e in mx:
        if e[0] == "bind":
            out.append((e[2], e[1]))
        elif e[0] == "opt":
            out.extend(mexpr_vars(e[1]))
    return out


def match(t, mt, P, flags=None):
    """the specification's match(t, t', P): dict var -> path relative to t, or None.
    A closed epsilon node in t' against a node with children in t is where the formal definition
    (no child-count test for numc(t') = 0) and the prose ("is a prefix") disagree: flagged."""
    if t[0] != mt[0]:
        return None
    nc_m = 0 if not mt[1] else len(mt[1])
    nc_t = 0 if not t[1] else len(t[1])
    if nc_m > 0 and nc_t != nc_m:
        return None
    vs = [v for v, p in P.items() if p == ()]
    if vs:
        return {vs[0]: ()}
    if nc_m == 0:
        if mt[1] is not None and is_nt(mt[0]) and nc_t != 0 and flags is not None:
            flags.add("mexpr_epsilon_vs_children")
        return {}
    res = {}
    for i in range(nc_t):
        Pi = {v: p[1:] for v, p in P.items() if p and p[0] == i}
        m = match(t[1][i], mt[1][i], Pi, flags)
        if m is None:
            return None
        for v, p in m.items():
            res[v] = (i,) + p
    return res


# ------------------------------------------------------------------ reference semantics

class Ref:
    """sat(f, env) on one closed reference tree; env maps variables to paths (or ints for numeric
    variables).  `flags` collects reasons why a verdict should not be compared strictly."""

    def __init__(self, cg, root, numq_all_ints=False, numq_min=0):
        self.cg, self.root = cg, root
        self.numq_min = numq_min  # 0: numerals of naturals; 1: the literal reading of "positive integers"
        # numq_all_ints: NOT the specification -- the reading under which a numeric variable ranges over
        # all strings (negative numerals; non-numerals, for which str.to.int is -1).  Only used to
        # recognise one known root cause by its verdict pattern.
        self.numq_all_ints = numq_all_ints
        self.idx, self.last = rt.pre_index(root)
        self.mx_cache = {}
        self.cyclic = None
        self.flags = set()
        self.nonempty_domain = False
        self.lab = {p: n[0] for p, n in rt.nodes(root)}

    def mexpr_trees(self, T, mx):
        key = (T, json.dumps(mx))
        if key in self.mx_cache:
            return self.mx_cache[key]
        if self.cyclic is None:
            self.cyclic = rt.has_unit_cycle(self.cg)
        if self.cyclic:
            # A =>+ A: every match expression has infinitely many parses (and the grammar is outside the
            # Earley parser's domain, which ISLa uses to parse match expressions): not judged
            self.flags.add("ambiguous_mexpr")
        res = []
        for elems in mexpr_alternatives(mx):
            ps = abstract_parses(self.cg, T, mexpr_word(elems))
            if len(ps) > 1:
                self.flags.add("ambiguous_mexpr")
            res.extend(ps)
        self.mx_cache[key] = res
        return res

    def yield_of(self, p):
        return rt.tyield(rt.sub(self.root, p))

    def count_nodes(self, p, T):
        return sum(1 for _, n in rt.nodes(rt.sub(self.root, p)) if n[0] == T)

    def sat(self, f, env):
        k = f[0]
        if k in ("forall", "exists"):
            _, T, v, inv, mx, body = f
            base = env[inv]
            t = rt.sub(self.root, base)
            results = []
            for p, n in rt.nodes(t):
                if n[0] != T:
                    continue
                if mx is None:
                    self.nonempty_domain = True
                    results.append(self.sat(body, {**env, v: base + p}))
                else:
                    for mt, P in self.mexpr_trees(T, mx):
                        m = match(n, mt, P, self.flags)
                        if m is not None:
                            self.nonempty_domain = True
                            e2 = {**env, v: base + p}
                            for var, rp in m.items():
                                e2[var] = base + p + rp
                            results.append(self.sat(body, e2))
            return all(results) if k == "forall" else any(results)
        if k in ("forallint", "existsint"):
            vals = self.int_candidates(f[2], f[1], env)
            rs = [self.sat(f[2], {**env, f[1]: n}) for n in vals]
            return all(rs) if k == "forallint" else any(rs)
        if k == "and":
            return all([self.sat(x, env) for x in f[1:]])
        if k == "or":
            return any([self.sat(x, env) for x in f[1:]])
        if k == "not":
            return not self.sat(f[1], env)
        if k == "implies":
            return (not self.sat(f[1], env)) or self.sat(f[2], env)
        if k == "iff":
            return self.sat(f[1], env) == self.sat(f[2], env)
        if k == "xor":
            return self.sat(f[1], env) != self.sat(f[2], env)
        if k == "true":
            return True
        if k == "false":
            return False
        if k == "smt":
            val = {}
            for x in term_vars(f[1]):
                e = env[x]
                val[x] = e if isinstance(e, int) else self.yield_of(e)
            return bool(ev_term(f[1], val))
        if k == "count":
            c = self.count_nodes(env[f[1]], f[2])
            a = f[3]
            if a[0] == "v":
                n = env[a[1]]
                return c == n
            n = numeral(a[1])
            if n is None:
                raise Undecided("count with non-numeral")
            return c == n
        if k == "pred":
            return self.pred(f[1], f[2:], env)
        raise ValueError(k)

    def int_candidates(self, body, var, env):
        """finite complete test set for a numeric quantifier over the fragment where `var` occurs
        only as third argument of count and inside str.to.int(var) compared with var-free terms:
        the body's truth depends on n only through comparisons with finitely many thresholds."""
        th = set()

        def walk(f, env_paths):
            k = f[0]
            if k in ("forall", "exists"):
                # thresholds may depend on inner bindings: collect over all instantiations
                _, T, v, inv, mx, b = f
                base = env_paths.get(inv)
                if base is None or isinstance(base, int):
                    return
                t = rt.sub(self.root, base)
                for p, n in rt.nodes(t):
                    if n[0] != T:
                        continue
                    if mx is None:
                        walk(b, {**env_paths, v: base + p})
                    else:
                        for mt, P in self.mexpr_trees(T, mx):
                            m = match(n, mt, P, self.flags)
                            if m is not None:
                                e2 = {**env_paths, v: base + p}
                                for vv, rp in m.items():
                                    e2[vv] = base + p + rp
                                walk(b, e2)
            elif k in ("forallint", "existsint"):
                raise Undecided("nested numeric quantifier")
            elif k in ("and", "or", "not", "implies", "iff", "xor"):
                for x in f[1:]:
                    walk(x, env_paths)
            elif k == "count":
                if f[3][0] == "v" and f[3][1] == var:
                    th.add(self.count_nodes(env_paths[f[1]], f[2]))
            elif k == "smt":
                collect_smt(f[1], env_paths)
            elif k == "pred":
                if any(a[0] == "v" and a[1] == var for a in f[2:]):
                    raise Undecided("numeric variable in structural predicate")

        def collect_smt(t, env_paths):
            if t[0] in ("=", "distinct", "<", "<=", ">", ">="):
                sides = t[1:]
                has = [var in term_vars(s) for s in sides]
                if not any(has):
                    return
                if all(has):
                    raise Undecided("numeric variable on both sides")
                me, other = (sides[0], sides[1]) if has[0] else (sides[1], sides[0])
                if me != ["str.to.int", ["var", var]]:
                    raise Undecided("numeric variable outside str.to.int(n)")
                val = {}
                for x in term_vars(other):
                    e = env_paths[x]
                    val[x] = e if isinstance(e, int) else self.yield_of(e)
                c = ev_term(other, val)
                if not isinstance(c, int) or isinstance(c, bool):
                    raise Undecided("comparison of str.to.int(n) with non-int")
                th.add(c)
            elif t[0] in ("not", "and", "or"):
                for x in t[1:]:
                    collect_smt(x, env_paths)
            elif var in term_vars(t):
                raise Undecided("numeric variable in unsupported position")

        walk(body, dict(env))
        cands = {self.numq_min}
        for c in th:
            for d in (c - 1, c, c + 1):
                if d >= self.numq_min or self.numq_all_ints:
                    cands.add(d)
        if self.numq_all_ints:
            cands.add(-1)
        return sorted(cands)

    def pred(self, name, args, env):
        def path(a):
            assert a[0] == "v"
            return env[a[1]]

        if name == "nth":
            N = args[0][1]
            N = int(N)
            a, b = path(args[1]), path(args[2])
            if self.lab[a] == self.lab[b]:
                self.flags.add("nth_same_label")
            if not (self.idx[b] <= self.idx[a] <= self.last[b]):
                return False
            occ = [q for q in sorted(self.lab, key=lambda q: self.idx[q])
                   if self.idx[b] <= self.idx[q] <= self.last[b] and self.lab[q] == self.lab[a]]
            return N <= len(occ) and N >= 1 and occ[N - 1] == a
        if name == "level":
            op, T = args[0][1], args[1][1]
            a, b = path(args[2]), path(args[3])
            # three readings of the informal description (see props/c04_structural.py); judged only where they agree
            A = frozenset(a[:k] for k in range(len(a)) if self.lab[a[:k]] == T)
            B = frozenset(b[:k] for k in range(len(b)) if self.lab[b[:k]] == T)
            vals = {{"EQ": A == B, "GE": A <= B, "LE": B <= A, "GT": A < B, "LT": B < A}[op]}
            k = 0
            while k < min(len(a), len(b)) and a[k] == b[k]:
                k += 1
            prefixes = [()] + [a[:m] for m in range(1, k + 1) if self.lab[a[:m]] == T]
            for incl in (0, 1):
                r = False
                for pfx in prefixes:
                    o1 = [a[:m] for m in range(len(pfx) + 1, len(a) + incl) if self.lab[a[:m]] == T]
                    o2 = [b[:m] for m in range(len(pfx) + 1, len(b) + incl) if self.lab[b[:m]] == T]
                    r = r or {"EQ": not o1 and not o2, "GE": not o1, "LE": not o2, "GT": not o1 and bool(o2),
                              "LT": not o2 and bool(o1)}[op]
                vals.add(r)
            if len(vals) > 1:
                self.flags.add("level_readings_differ")
            return sorted(vals)[0]
        a, b = path(args[0]), path(args[1])
        ia, la, ib, lb = self.idx[a], self.last[a], self.idx[b], self.last[b]
        if name == "before":
            return la < ib
        if name == "after":
            return lb < ia
        if name == "inside":
            return ib <= ia <= lb
        if name == "same_position":
            return a == b
        if name == "different_position":
            return a != b
        if name == "direct_child":
            return len(a) == len(b) + 1 and a[:-1] == b
        raise ValueError(name)


def sat(cg, tree, f, env=None, numq_all_ints=False, numq_min=0):
    """returns (verdict, flags, nonempty_domain); raises Undecided"""
    r = Ref(cg, tree, numq_all_ints, numq_min)
    v = r.sat(f, env or {"start": ()})
    return v, r.flags, r.nonempty_domain


# ------------------------------------------------------------------ formula properties

def walk(f):
    yield f
    k = f[0]
    if k in ("forall", "exists"):
        yield from walk(f[5])
    elif k in ("forallint", "existsint"):
        yield from walk(f[2])
    elif k in ("and", "or", "not", "implies", "iff", "xor"):
        for x in f[1:]:
            yield from walk(x)


def free_uses(f, acc=None):
    """variables used (not binding occurrences) anywhere in f"""
    acc = set() if acc is None else acc
    k = f[0]
    if k in ("forall", "exists"):
        acc.add(f[3])
        free_uses(f[5], acc)
    elif k in ("forallint", "existsint"):
        free_uses(f[2], acc)
    elif k in ("and", "or", "not", "implies", "iff", "xor"):
        for x in f[1:]:
            free_uses(x, acc)
    elif k == "smt":
        acc |= term_vars(f[1])
    elif k == "count":
        acc.add(f[1])
        if f[3][0] == "v":
            acc.add(f[3][1])
    elif k == "pred":
        for a in f[2:]:
            if a[0] == "v":
                acc.add(a[1])
    return acc


def has_kind(f, kinds):
    return any(x[0] in kinds for x in walk(f))


def has_unused_forall(f):
    """a universal tree quantifier none of whose bound variables occurs in its body"""
    for x in walk(f):
        if x[0] == "forall":
            bound = {x[2]} | ({v for v, _ in mexpr_vars(x[4])} if x[4] else set())
            if not (bound & free_uses(x[5])):
                return True
    return False


# ------------------------------------------------------------------ formula generator

from .gen import chance, pick  # noqa: E402

SAFE_MEXPR_CHARS = set("abcdefghijklmnopqrstuvwxyzABCDEFGHIJKLMNOPQRSTUVWXYZ0123456789 ;:=(),.+-*/_!?#%&'|~^$@\n\t")


def numeral_nts(cg):
    """nonterminals whose language is a subset of [0-9]+ (greatest fixpoint)"""
    ok = set(cg)
    ch = True
    while ch:
        ch = False
        for k in list(ok):
            good = True
            for a in cg[k]:
                if not a:
                    good = False
                for s in a:
                    if is_nt(s):
                        if s not in ok:
                            good = False
                    elif not s or not all("0" <= c <= "9" for c in s):
                        good = False
            if not good:
                ok.discard(k)
                ch = True
    # every alternative non-empty and all-digit => language within [0-9]+ (non-empty since no epsilon alt)
    return ok


class FGen:
    """scope- and type-directed random formulas over a grammar.  `lits[T]` are sample yields of T."""

    def __init__(self, rnd, cg, lits, opts=None):
        self.rnd, self.cg = rnd, cg
        self.R = rt.reach(cg)
        self.lits = lits
        self.num = numeral_nts(cg)
        self.cnt = 0
        o = dict(mexpr=0.4, opt=0.3, preds=True, count=True, numq=0.0, connectives=("and", "or", "not"), p_forall=0.5, mexpr_depth=2,
                 unused=0.0, smt_ops=("eq", "eqv", "len", "toint", "prefix", "arith"), nth_level=True, max_depth=3)
        o.update(opts or {})
        self.o = o

    def fresh(self, prefix="v"):
        self.cnt += 1
        return "%s%d" % (prefix, self.cnt)

    def rand_prefix(self, T, depth):
        if depth == 0 or chance(self.rnd, 0.3 if depth <= 2 else 0.15):
            return (T, None)
        alt = pick(self.rnd, self.cg[T])
        if not alt:
            return (T, None)
        return (T, tuple((s, ()) if not is_nt(s) else self.rand_prefix(s, depth - 1) for s in alt))

    def prefix_to_mexpr(self, pt):
        elems, binds = [], []

        def walk_(t):
            if t[1] is None:
                if chance(self.rnd, 0.55):
                    v = self.fresh()
                    elems.append(["bind", t[0], v])
                    binds.append((v, t[0]))
                else:
                    elems.append(["nt", t[0]])
            elif not t[1]:
                if not is_nt(t[0]) and t[0]:
                    if elems and elems[-1][0] == "text":
                        elems[-1] = ["text", elems[-1][1] + t[0]]
                    else:
                        elems.append(["text", t[0]])
            else:
                for c in t[1]:
                    walk_(c)

        walk_(pt)
        return elems, binds

    def mexpr_for(self, T):
        """match expression for bound type T from a random derivation prefix, or (None, [])"""
        pt = self.rand_prefix(T, self.o["mexpr_depth"])
        if pt[1] is None:
            return None, []
        mx, binds = self.prefix_to_mexpr(pt)
        if not mx or any(e[0] == "text" and not set(e[1]) <= SAFE_MEXPR_CHARS for e in mx):
            return None, []
        # optional: wrap a removable suffix in brackets when the shorter form is derivable too
        if len(mx) >= 2 and chance(self.rnd, self.o["opt"]):
            for cutpos in range(len(mx) - 1, 0, -1):
                head, tail = mx[:cutpos], mx[cutpos:]
                if any(e[0] == "bind" for e in tail):
                    continue
                if abstract_parses(self.cg, T, mexpr_word(head), cap=2):
                    return head + [["opt", tail]], binds
        return mx, binds

    def formula(self, scope, depth, numvars=()):
        """scope: list of (var, type)"""
        rnd, o = self.rnd, self.o
        kinds = ["q", "q", "q", "atom", "atom"] if len(scope) > 1 else ["q", "q", "q", "q", "atom"]
        if depth > 0:
            kinds = ["q", "q"] + list(o["connectives"]) + kinds
            if o["numq"] and not numvars and chance(rnd, o["numq"]):
                kinds = ["numq"]
        c = pick(rnd, kinds) if depth > 0 else "atom"
        if c == "q":
            inv, it = pick(rnd, scope)
            cand = sorted(self.R[it] | {it})
            T = pick(rnd, cand)
            v = self.fresh()
            mx, extra = (None, [])
            if chance(rnd, o["mexpr"]):
                mx, extra = self.mexpr_for(T)
            q = "forall" if chance(rnd, o["p_forall"]) else "exists"
            inner_scope = scope + [(v, T)] + extra
            if chance(rnd, o["unused"]):
                body = self.formula(scope, depth - 1, numvars)
            else:
                body = self.formula(inner_scope, depth - 1, numvars)
                if not ({v} | {x for x, _ in extra}) & free_uses(body) and not chance(rnd, o["unused"]):
                    # make sure the bound variable is used: conjoin/disjoin an atom over it
                    atom = self.atom([(v, T)] + extra, numvars)
                    body = [("and" if q == "exists" else "or"), atom, body] if chance(rnd, 0.5) else [("or" if q == "exists" else "and"), atom, body]
            return [q, T, v, inv, mx, body]
        if c == "numq":
            n = self.fresh("n")
            body = self.num_body(scope, depth - 1, n)
            return ["existsint" if chance(rnd, 0.6) else "forallint", n, body]
        if c in ("and", "or"):
            n = 2 + (1 if chance(rnd, 0.35) else 0) + (1 if chance(rnd, 0.2) else 0)
            return [c] + [self.formula(scope, depth - 1, numvars) for _ in range(n)]
        if c in ("implies", "iff", "xor"):
            return [c, self.formula(scope, depth - 1, numvars), self.formula(scope, depth - 1, numvars)]
        if c == "not":
            return ["not", self.formula(scope, depth - 1, numvars)]
        return self.atom(scope, numvars)

    def num_body(self, scope, depth, n):
        """body of a numeric quantifier: n occurs only in count(.., n) and str.to.int(n) cmp n-free"""
        rnd = self.rnd
        parts = []
        v, t = pick(rnd, scope)
        cand = sorted(x for x in (self.R[t]) if x != t) or sorted(self.R[t] | {t})
        if chance(rnd, 0.8):
            parts.append(["count", v, pick(rnd, cand), ["v", n]])
        if not parts or chance(rnd, 0.7):
            op = pick(rnd, ["<", "<=", ">", ">=", "="])
            other = ["int", rnd.randint(0, 5)]
            nums = [(x, tt) for x, tt in scope if tt in self.num]
            if nums and chance(rnd, 0.4):
                other = ["str.to.int", ["var", pick(rnd, nums)[0]]]
            parts.append(["smt", [op, ["str.to.int", ["var", n]], other]])
        if depth > 0 and chance(rnd, 0.4):
            parts.append(self.formula(scope, depth - 1, (n,)))
        conn = "and" if chance(rnd, 0.7) else "or"
        return parts[0] if len(parts) == 1 else [conn] + parts

    def atom(self, scope, numvars=()):
        rnd, o = self.rnd, self.o
        vs = [s for s in scope if s[0] != "start"] or scope
        kinds = list(o["smt_ops"]) * 2
        if o["preds"] and len(vs) >= 1:
            kinds += ["pred", "pred"]
            if o["nth_level"]:
                kinds += ["nth", "level"]
        if o["count"]:
            kinds += ["count"]
        k = pick(rnd, kinds)
        v, t = pick(rnd, vs)
        if k == "eq":
            pool = self.lits.get(t) or ["zz"]
            s = pick(rnd, pool) if chance(rnd, 0.85) else "zz"
            return ["smt", [pick(rnd, ["=", "=", "distinct"]) if chance(rnd, 0.3) else "=", ["var", v], ["str", s]]]
        if k == "eqv" and len(vs) >= 2:
            w, _ = pick(rnd, vs)
            return ["smt", ["=", ["var", v], ["var", w]]]
        if k == "len":
            op = pick(rnd, ["<", "<=", ">", ">=", "="])
            lhs = ["str.len", ["var", v]]
            if chance(rnd, 0.25) and len(vs) >= 2:
                w, _ = pick(rnd, vs)
                return ["smt", [op, lhs, ["str.len", ["var", w]]]]
            return ["smt", [op, lhs, ["int", rnd.randint(0, 6)]]]
        if k == "toint":
            nums = [(x, tt) for x, tt in vs if tt in self.num]
            if nums:
                x, _ = pick(rnd, nums)
                op = pick(rnd, ["<", "<=", ">", ">=", "="])
                rhs = ["int", rnd.randint(0, 12)]
                if len(nums) >= 2 and chance(rnd, 0.4):
                    y, _ = pick(rnd, nums)
                    rhs = ["str.to.int", ["var", y]]
                    if chance(rnd, 0.4):
                        rhs = [pick(rnd, ["+", "-", "*"]), rhs, ["int", rnd.randint(0, 3)]]
                return ["smt", [op, ["str.to.int", ["var", x]], rhs]]
            k = "prefix"
        if k == "prefix":
            pool = self.lits.get(t) or ["z"]
            s = pick(rnd, pool)
            s = s[:rnd.randint(0, max(0, min(2, len(s))))] if chance(rnd, 0.7) else s[-1:]
            opn = pick(rnd, ["str.prefixof", "str.suffixof", "str.contains"])
            if opn == "str.contains":
                return ["smt", [opn, ["var", v], ["str", s]]]
            return ["smt", [opn, ["str", s], ["var", v]]]
        if k == "arith":
            op = pick(rnd, ["<", "<=", ">", ">=", "="])
            lhs = [pick(rnd, ["+", "*", "-"]), ["str.len", ["var", v]], ["int", rnd.randint(0, 3)]]
            if chance(rnd, 0.3):
                lhs = ["mod", ["str.len", ["var", v]], ["int", rnd.randint(1, 3)]]
            return ["smt", [op, lhs, ["int", rnd.randint(0, 6)]]]
        if k == "pred":
            w, _ = pick(rnd, vs)
            name = pick(rnd, ["before", "after", "inside", "same_position", "different_position", "direct_child"])
            return ["pred", name, ["v", v], ["v", w]]
        if k == "nth":
            # strict sub-domain: the two arguments carry different labels
            others = [(w, tt) for w, tt in scope if tt != t]
            if others:
                w, _ = pick(rnd, others)
                N = rnd.randint(1, 3)
                return ["pred", "nth", ["s", str(N)], ["v", v], ["v", w]]  # "N is a numeric String" (specification)
            k = "level"
        if k == "level":
            # strict sub-domain: neither argument labelled with the level nonterminal
            w, tw = pick(rnd, vs)
            cands = [x for x in self.cg if x != "<start>"]
            if cands:
                T = pick(rnd, cands)
                return ["pred", "level", ["s", pick(rnd, ["EQ", "GE", "LE", "GT", "LT"])], ["s", T], ["v", v], ["v", w]]
            return ["pred", "same_position", ["v", v], ["v", w]]
        if k == "count":
            v, t = pick(rnd, scope)
            cand = sorted(x for x in self.R[t] if x != t)
            if cand:
                T = pick(rnd, cand)
                if numvars and chance(rnd, 0.5):
                    return ["count", v, T, ["v", numvars[0]]]
                return ["count", v, T, ["s", str(rnd.randint(0, 4))]]
        pool = self.lits.get(t) or ["zz"]
        return ["smt", ["=", ["var", v], ["str", pick(rnd, pool)]]]


def reuse_names(rnd, f, pool=("v", "v_0", "v_1", "w", "w_0", "x1")):
    """rename the tree-quantifier variables of f so that names are RE-USED in sibling scopes (same nonterminal
    type only, never shadowing an enclosing binder) and look like the names ISLa's own renaming invents (v_0):
    the shapes on which bound-variable renaming can capture.  Numeric variables and `start` keep their names."""
    name_type = {}

    def term(t, m):
        if t[0] == "var":
            return ["var", m.get(t[1], t[1])]
        if t[0] in ("str", "int"):
            return t
        return [t[0]] + [term(a, m) for a in t[1:]]

    def choose(T, in_scope):
        cands = [n for n in pool if n not in in_scope and name_type.get(n, T) == T]
        if not cands:
            return None
        n = pick(rnd, cands)
        name_type[n] = T
        return n

    def go(x, m, in_scope):
        k = x[0]
        if k in ("forall", "exists"):
            _, T, v, inv, mx, body = x
            m2, scope2 = dict(m), set(in_scope)
            nv = choose(T, scope2) or v
            m2[v] = nv
            scope2.add(nv)
            nmx = None
            if mx is not None:
                last = [nv]

                def mxgo(elems):
                    out = []
                    for e in elems:
                        if e[0] == "bind":
                            # siblings bound by ONE quantifier that differ by the suffix a renaming would add (x and
                            # x_0): renaming x must not land on its sibling
                            sib = last[0] + "_0"
                            if (sib in pool and sib not in scope2 and name_type.get(sib, e[1]) == e[1]
                                    and name_type.get(last[0]) == e[1] and chance(rnd, 0.5)):
                                nb = sib
                                name_type[nb] = e[1]
                            else:
                                nb = choose(e[1], scope2) or e[2]
                            last[0] = nb
                            m2[e[2]] = nb
                            scope2.add(nb)
                            out.append(["bind", e[1], nb])
                        elif e[0] == "opt":
                            out.append(["opt", mxgo(e[1])])
                        else:
                            out.append(e)
                    return out
                nmx = mxgo(mx)
            return [k, T, nv, m.get(inv, inv), nmx, go(body, m2, scope2)]
        if k in ("forallint", "existsint"):
            return [k, x[1], go(x[2], m, in_scope | {x[1]})]
        if k in ("and", "or", "not", "implies", "iff", "xor"):
            return [k] + [go(a, m, in_scope) for a in x[1:]]
        if k == "smt":
            return ["smt", term(x[1], m)]
        if k == "count":
            return ["count", m.get(x[1], x[1]), x[2], ["v", m.get(x[3][1], x[3][1])] if x[3][0] == "v" else x[3]]
        if k == "pred":
            return ["pred", x[1]] + [["v", m.get(a[1], a[1])] if a[0] == "v" else a for a in x[2:]]
        return x

    return go(f, {}, {"start"})


def sample_lits(cg, trees, cap=10):
    lits = {}
    for k in cg:
        ys = []
        for t in trees:
            for _, n in rt.nodes(t):
                if n[0] == k and n[1] is not None:
                    y = rt.tyield(n)
                    if y not in ys and len(y) <= 12:
                        ys.append(y)
        lits[k] = ys[:cap]
    return lits
