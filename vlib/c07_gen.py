"""C07 helper: grammars and the generator of sugared constraints (AST of vlib/c07_print.py).

Scope- and type-directed like fml.FGen (whose match-expression machinery is reused), but it produces
every surface form: omitted names / `in`, free nonterminals, XPath references, all SMT-LIB operators
of ISLa's lexer in sort-correct terms, nasty string literals, predicates with string and int arguments,
numeric quantifiers, name clashes that exercise the parser's variable renaming."""
from . import rt, gen, fml
from .rt import is_nt
from .gen import chance, pick

# ------------------------------------------------------------------ grammars

QUOTES = {"<start>": ["<s>"],
          "<s>": ['"<w>"', "<w>\n<s>", "a\\n<w>", "<w>\t<w>", "(<w>)<s>", "<w>", "<w>\\<w>", 'say "<w>" <s>'],
          "<w>": ["a", "b", "ä", "\\", '"', "é€", "a b", "\U0001f600", "<", "x>y", "\r", "\x7f"]}

XML = {"<start>": ["<xml-tree>"],
       "<xml-tree>": ["<text>", "<xml-open-tag><xml-tree><xml-close-tag>", "<xml-openclose-tag>"],
       "<xml-open-tag>": ["<<id>>", "<<id> <xml-attribute>>"],
       "<xml-openclose-tag>": ["<<id>/>", "<<id> <xml-attribute>/>"],
       "<xml-close-tag>": ["</<id>>"],
       "<xml-attribute>": ['<id>="<text>"', "<xml-attribute> <xml-attribute>"],
       "<id>": ["<LETTER>", "<id><LETTER>"],
       "<text>": ["<LETTER_SPACE>", "<text><LETTER_SPACE>"],
       "<LETTER>": ["a", "b", "x", "_"],
       "<LETTER_SPACE>": ["a", " ", "'", "\t"]}

ARR = {"<start>": ["<arr>"], "<arr>": ["[<items>]", "[]"], "<items>": ["<item>,<items>", "<item>"],
       "<item>": ["<num_1>", "<arr>", "<obj>"], "<obj>": ["{<num_1>:<item>}", "{}"], "<num_1>": ["0", "1", "42"]}

ODD = {"<start>": ["<a-b>"], "<a-b>": ["<a_b>;<a-b>", "<a_b>"], "<a_b>": ["<n1>=<n1>", "<X>x", "<X><n1><X>"],
       "<n1>": ["1", "<n1>0"], "<X>": ["X", "<_y>"], "<_y>": ["y", ""]}

# nonterminal names that are reserved words of the constraint language
KEYW = {"<start>": ["<in>"], "<in>": ["<not> <in>", "<not>"], "<not>": ["<true>", "<mod>", "<int>"], "<true>": ["t"],
        "<mod>": ["m", "<mod>m"], "<int>": ["0", "7"]}

ZOO7 = dict(gen.ZOO)
ZOO7.update({"quotes": QUOTES, "xmlang": XML, "arr": ARR, "odd": ODD, "keyw": KEYW})

NAME_POOL = ["a", "b-c", "d_e", "f1", "G", "h-1", "_i", "jK", "l_0", "m-n_2", "item", "var", "x", "id", "N", "q9", "r-", "s_"]
ALPHA = ["a", "b", "c", "x", "0", "1", " ", ";", "=", "(", ")", "ab", ",", '"', "\\", "\n", "ä", "<", "{", "[", "]", "}", "'", "\t"]

NASTY_LITS = ['"', "\\", 'a"b', "a\\b", "\\n", "a\\nb", "\n", "\t", "\r\n", "ä", "äöü", "€", "\U0001f600",
              "\x7f", "\x00", "\x01", "<a>", "{<a> x}", "[", "", " ", "a b", "\\u{41}", "\\x41", "ÿ", "Ā", "'", "\"\"", "\\\\",
              "\\\"", " ", "#c", "0", "-1", "+7", "007"]

PLAIN_MEXPR = set("abcdefghijklmnopqrstuvwxyzABCDEFGHIJKLMNOPQRSTUVWXYZ0123456789 ;:=(),.+-*/_!?#%&'|~^$@\n\t")
# characters a match-expression text can carry: everything except '{' and '[' (no escape exists for them,
# MexprLexer.g4) and ']' (would close an optional); '"' and '\' are written escaped by the printer
def mexpr_writable(s):
    return not any(ch in "{[]" for ch in s)


def plain_alt(alt):
    return not any((not is_nt(s)) and any(ch in '{[]"\\' for ch in s) for s in alt)


def gen_grammar(rnd):
    r = rnd.random()
    if r < 0.62:
        name = pick(rnd, ["lang", "lang", "quotes", "quotes", "xmlang", "xmlang", "odd", "odd", "rec", "int", "csv", "eps", "xml",
                          "blk", "arr", "keyw"])
        return name, ZOO7[name]
    names = list(NAME_POOL)
    # shuffle by random swaps (rnd.shuffle is avoided: keep to randint/random)
    for i in range(len(names) - 1, 0, -1):
        j = rnd.randint(0, i)
        names[i], names[j] = names[j], names[i]
    alpha = ALPHA if chance(rnd, 0.5) else ALPHA[:13]
    g = gen.grammar(rnd, max_nts=5, names=names, alphabet=alpha, wide=False)
    if chance(rnd, 0.5):
        keys = [k for k in g if k != "<start>"]
        host = pick(rnd, keys)
        g = dict(g)
        g[host] = list(g[host]) + [pick(rnd, ["<num>", "<num>;", "=<num>"])]
        g["<num>"] = ["<dig><num>", "<dig>"]
        g["<dig>"] = ["0", "1", "2", "7"]
    return "random", g


# ------------------------------------------------------------------ formulas

STRUCT2 = ["before", "after", "inside", "same_position", "different_position", "direct_child", "consecutive"]


class SGen(fml.FGen):
    def __init__(self, rnd, cg, lits, opts=None):
        o = dict(p_free=0.25, p_xpath=0.2, p_omit_name=0.3, p_omit_in=0.6, p_in_nt=0.1, p_clash=0.2, p_nasty=0.35,
                 numq=0.07, known=0.5, mexpr=0.4, opt=0.7, max_term_depth=3,
                 connectives=("and", "or", "not", "implies", "iff", "xor", "and", "or", "not"))
        o.update(opts or {})
        super().__init__(rnd, cg, lits, o)
        self.alts_with_nt = {k: [a for a in alts if any(is_nt(s) for s in a)] for k, alts in cg.items()}
        self.used_names = []
        self.name_type = {}
        self.mexpr_bound = set()
        self.qkind = {}
        self.in_numq = 0
        self.nts = sorted(cg)
        # `known`: cases drawn with known=False stay clear of the shapes behind open findings, so that
        # the search continues behind them with undiminished density
        self.avoid_known = not chance(rnd, o["known"])

    # -------------------------------------------------------------- names
    def new_name(self, scope_names, T=None):
        """a variable name; deliberately re-uses names of disjoint scopes, the names the parser itself would
        invent (T without brackets, x_0) and odd identifiers.  Cases drawn clear of the open findings re-use a
        name only for the same type and stay away from names of the form x_<n>."""
        rnd = self.rnd
        n = self._new_name(scope_names, T)
        self.name_type.setdefault(n, T)
        return n

    def _new_name(self, scope_names, T):
        rnd = self.rnd
        if self.used_names and chance(rnd, self.o["p_clash"]):
            cand = [n for n in self.used_names if n not in scope_names
                    and (not self.avoid_known or self.name_type.get(n) == T)]
            if cand:
                return pick(rnd, cand)
        r = rnd.random()
        if r < 0.12 and T is not None:
            # the name the parser itself would invent for <T> (T without brackets), or its first renaming
            base = T[1:-1]
            if base not in fml_keywords() and base != "start":
                n = base if (chance(rnd, 0.5) or self.avoid_known) else base + "_0"
                if n not in scope_names and self.name_type.get(n, T) == T:
                    self.used_names.append(n)
                    return n
        if r < 0.22:
            pool = ["x", "y", "elem", "a-b", "_u", "X1"] + ([] if self.avoid_known else ["v_0", "v_1", "x_0", "v1_0"])
            n = pick(rnd, pool)
            if n not in scope_names and (not self.avoid_known or self.name_type.get(n, T) == T):
                self.used_names.append(n)
                return n
        while True:
            n = self.fresh()
            if n not in scope_names:
                self.used_names.append(n)
                return n

    def badname(self, T):
        """nonterminals for which the parser invents a variable name that is a reserved word (open finding)"""
        return T == "<start>" or T[1:-1] in fml_keywords()

    # -------------------------------------------------------------- references
    def xpath_from(self, ref, T, allow_desc=True):
        """extend a reference of type T by 1..3 child steps (and possibly a descendant step); returns (ref, type)"""
        rnd = self.rnd
        segs = []
        cur = T
        nsteps = pick(rnd, [1, 1, 2, 2, 3])
        for _ in range(nsteps):
            alts = self.alts_with_nt.get(cur) or []
            if not alts:
                break
            alt = pick(rnd, alts)
            positions = [i for i, s in enumerate(alt) if is_nt(s)]
            p = pick(rnd, positions)
            C = alt[p]
            idx = sum(1 for i in positions if i <= p and alt[i] == C)
            if self.avoid_known and (self.badname(C) or not all(
                    plain_alt(a) for a in self.cg[cur] if sum(1 for s in a if s == C) >= idx)):
                # the translation writes every alternative of `cur` with enough <C>s as a match expression
                break
            segs.append([".", C, idx if (idx > 1 or chance(rnd, 0.25)) else None])
            cur = C
        if allow_desc and chance(rnd, 0.2 if segs else 1.0):
            below = sorted(self.R[cur])
            if below:
                D = pick(rnd, below)
                if self.avoid_known and self.badname(D):
                    return (["xp", ref, segs], cur) if segs else (ref, T)
                segs.append(["..", D])
                cur = D
                if chance(rnd, 0.1):
                    alts = self.alts_with_nt.get(cur) or []
                    if alts:
                        alt = pick(rnd, alts)
                        C = pick(rnd, [s for s in alt if is_nt(s)])
                        if not self.avoid_known:
                            segs.append([".", C, None])
                            cur = C
        if not segs:
            return ref, T
        return ["xp", ref, segs], cur

    def some_ref(self, scope, want=None):
        """a reference to a tree variable: in-scope variable, free nonterminal, or XPath on either"""
        rnd, o = self.rnd, self.o
        vs = [s for s in scope if s[0] != ["v", "start"]] or scope
        if want is not None:
            typed = [s for s in vs if s[1] in want]
            if typed and chance(rnd, 0.8):
                vs = typed
        if chance(rnd, o["p_free"]):
            pool = [t for t in self.nts if (want is None or t in want)] or self.nts
            T = pick(rnd, pool)
            if self.avoid_known and self.badname(T):
                T = pick(rnd, [t for t in self.nts if not self.badname(t)] or ["<start>"])
            ref = ["nt", T]
        else:
            ref, T = pick(rnd, vs)
        p_x = o["p_xpath"] * (0.3 if self.in_numq else 1.0)
        if ref == ["v", "start"] or ref == ["nt", "<start>"] or json_key(ref) in self.mexpr_bound:
            # XPath on the constant / on <start> is rejected by the parser ("Unbound variables"), XPath on a
            # variable that already carries a match expression mostly ends in the documented merge conflict:
            # keep them rare
            p_x = 0.012
        if chance(rnd, p_x):
            # the descendant axis is only accepted on universally bound heads (free nonterminals, forall)
            in_scope = any(sc[0] == ref for sc in scope)
            desc = (not in_scope) or self.qkind.get(json_key(ref)) == "forall" or chance(rnd, 0.08)
            return self.xpath_from(ref, T, allow_desc=desc and not self.in_numq)
        return ref, T

    # -------------------------------------------------------------- literals
    def literal(self, T=None):
        rnd = self.rnd
        if chance(rnd, self.o["p_nasty"]):
            s = pick(rnd, NASTY_LITS)
            if chance(rnd, 0.3):
                s = s + pick(rnd, NASTY_LITS)
        else:
            pool = (self.lits.get(T) if T else None) or ["zz", "a", ""]
            s = pick(rnd, pool)
        style = pick(rnd, ["esc", "q", "q", "raw", "raw", "u4", "bs"])
        return ["str", s, style]

    # -------------------------------------------------------------- SMT terms
    def t_str(self, scope, d, numvars=()):
        rnd = self.rnd
        if d <= 0 or chance(rnd, 0.45):
            if chance(rnd, 0.65):
                r, _ = self.some_ref(scope)
                return ["ref", r]
            return self.literal(pick(rnd, scope)[1])
        k = pick(rnd, ["str.++", "str.++", "str.at", "str.substr", "str.replace", "str.replace_all", "str.replace_re",
                       "str.replace_re_all", "str.from_int", "str.from_code", "ite"])
        S, I, B, R = (lambda: self.t_str(scope, d - 1, numvars)), (lambda: self.t_int(scope, d - 1, numvars)), \
            (lambda: self.t_bool(scope, d - 1, numvars)), (lambda: self.t_re(scope, d - 1, numvars))
        if k == "str.++":
            return ["app", k, [S(), S()] + ([S()] if chance(rnd, 0.2) else [])]
        if k == "str.at":
            return ["app", k, [S(), I()]]
        if k == "str.substr":
            return ["app", k, [S(), I(), I()]]
        if k in ("str.replace", "str.replace_all"):
            return ["app", k, [S(), S(), S()]]
        if k in ("str.replace_re", "str.replace_re_all"):
            return ["app", k, [S(), R(), S()]]
        if k in ("str.from_int", "str.from_code"):
            return ["app", k, [I()]]
        if self.avoid_known:
            return ["app", "str.++", [S(), S()]]
        return ["app", "ite", [B(), S(), S()]]

    def t_int(self, scope, d, numvars=()):
        rnd = self.rnd
        if d <= 0 or chance(rnd, 0.35):
            r = rnd.random()
            if r < 0.5:
                return ["int", rnd.randint(-4, 12) if chance(rnd, 0.4) else rnd.randint(0, 9)]
            if r < 0.75:
                ref, _ = self.some_ref(scope)
                return ["app", "str.len", [["ref", ref]]]
            if numvars and r < 0.9:
                return ["app", "str.to.int", [["ref", ["v", pick(rnd, list(numvars))]]]]
            ref, _ = self.some_ref(scope, want=self.num)
            return ["app", pick(rnd, ["str.to.int", "str.to.int", "str.to_int"]), [["ref", ref]]]
        S, I = (lambda: self.t_str(scope, d - 1, numvars)), (lambda: self.t_int(scope, d - 1, numvars))
        k = pick(rnd, ["+", "-", "*", "div", "mod", "abs", "neg", "str.len", "str.to.int", "str.indexof", "str.to_code", "+", "-", "ite", "^"])
        if k in ("+", "*"):
            return ["app", k, [I(), I()] + ([I()] if chance(rnd, 0.2) else [])]
        if k in ("-", "div", "mod"):
            return ["app", k, [I(), I()]]
        if k == "abs":
            return ["app", k, [I()]]
        if k == "neg":
            return ["app", "-", [I()]]
        if k in ("str.len", "str.to.int", "str.to_code"):
            return ["app", k, [S()]]
        if k == "str.indexof":
            return ["app", k, [S(), S(), I()]]
        if k == "^":
            return ["app", "+", [I(), I()]]
        if self.avoid_known:
            return ["app", "+", [I(), I()]]
        return ["app", "ite", [self.t_bool(scope, d - 1, numvars), I(), I()]]

    def t_re(self, scope, d, numvars=()):
        rnd = self.rnd
        if d <= 0 or chance(rnd, 0.35):
            r = rnd.random()
            if r < 0.55:
                return ["app", "str.to_re", [self.literal(pick(rnd, scope)[1])]]
            if r < 0.7:
                a, b = sorted([pick(rnd, "abcxyz019 ~"), pick(rnd, "abcxyz019 ~")])
                if chance(rnd, 0.3):
                    a, b = "à", "ÿ"
                return ["app", "re.range", [["str", a, "q"], ["str", b, pick(rnd, ["q", "raw"])]]]
            return ["app", pick(rnd, ["re.none", "re.all", "re.allchar"]), []]
        R = (lambda: self.t_re(scope, d - 1, numvars))
        k = pick(rnd, ["re.++", "re.++", "re.union", "re.inter", "re.*", "re.+", "re.opt", "re.comp", "re.diff", "re.loop", "re.loop3", "re.^"])
        if k in ("re.++", "re.union", "re.inter"):
            return ["app", k, [R(), R()] + ([R()] if chance(rnd, 0.2) else [])]
        if k == "re.diff":
            return ["app", k, [R(), R()]]
        if k in ("re.*", "re.+", "re.opt", "re.comp"):
            return ["app", k, [R()]]
        lo = rnd.randint(0, 2)
        if k == "re.loop":
            return ["iapp", "re.loop", [lo, lo + rnd.randint(0, 3)], [R()]]
        if k == "re.^":
            return ["iapp", "re.^", [rnd.randint(0, 3)], [R()]]
        if self.avoid_known:
            return ["iapp", "re.loop", [lo, lo + 1], [R()]]
        # the three-argument application listed as prefix operator in ISLa's lexer: re.loop(r, lo, hi)
        return ["app", "re.loop", [R(), ["int", lo], ["int", lo + rnd.randint(0, 3)]]]

    def t_bool(self, scope, d, numvars=(), top=False):
        rnd = self.rnd
        S, I, B, R = (lambda: self.t_str(scope, d - 1, numvars)), (lambda: self.t_int(scope, d - 1, numvars)), \
            (lambda: self.t_bool(scope, d - 1, numvars)), (lambda: self.t_re(scope, d - 1, numvars))
        kinds = ["eqs", "eqs", "eqi", "cmp", "cmp", "str.<=", "str.prefixof", "str.suffixof", "str.contains", "str.in_re", "str.in_re",
                 "str.is_digit", "distinct"]
        if d > 1:
            kinds += ["and", "or", "=>", "xor", "ite", "eqb"]
        if not top:
            kinds += ["const"]
        if self.avoid_known:
            # Boolean structure inside an SMT atom, str.<= and '^' end in open findings once the atom is negated
            kinds = [x for x in kinds if x not in ("and", "or", "=>", "xor", "ite", "eqb", "str.<=")]
        if self.avoid_known or (not top and chance(rnd, 0.7)):
            # 'distinct' behind any identifier is an open finding; nested under '=' it is mostly rejected
            kinds = [x for x in kinds if x != "distinct"]
        k = pick(rnd, kinds)
        if k == "eqs":
            ref, T = self.some_ref(scope)
            if d <= 1 or chance(rnd, 0.5):
                rhs = self.literal(T) if chance(rnd, 0.7) else ["ref", self.some_ref(scope)[0]]
                args = [["ref", ref], rhs]
                if chance(rnd, 0.2):
                    args.reverse()
                return ["app", "=", args]
            return ["app", "=", [S(), S()]]
        if k == "eqi":
            return ["app", "=", [I(), I()]]
        if k == "eqb":
            return ["app", "=", [B(), B()]]
        if k == "cmp":
            if chance(rnd, 0.05) and not self.avoid_known:
                return ["app", pick(rnd, ["<", ">="]), [["app", "^", [I(), I()]], I()]]
            return ["app", pick(rnd, ["<", "<=", ">", ">="]), [I(), I()]]
        if k == "str.<=":
            return ["app", k, [S(), S()]]
        if k in ("str.prefixof", "str.suffixof", "str.contains"):
            return ["app", k, [S(), S()]]
        if k == "str.in_re":
            return ["app", k, [S(), self.t_re(scope, max(d - 1, 1), numvars)]]
        if k == "str.is_digit":
            return ["app", k, [S()]]
        if k == "distinct":
            if chance(rnd, 0.5):
                return ["app", k, [S(), S()] + ([S()] if chance(rnd, 0.3) else [])]
            return ["app", k, [I(), I()]]
        if k in ("and", "or"):
            return ["app", k, [B(), B()] + ([B()] if chance(rnd, 0.2) else [])]
        if k in ("=>", "xor"):
            return ["app", k, [B(), B()]]
        if k == "ite":
            if self.avoid_known:
                return ["app", "and", [B(), B()]]
            return ["app", "ite", [B(), B(), B()]]
        return ["bool", chance(rnd, 0.5)]

    # -------------------------------------------------------------- atoms
    def satom(self, scope, numvars=()):
        rnd = self.rnd
        kinds = ["smt"] * 7 + ["pred", "pred", "nth", "level", "count", "sem"]
        if numvars:
            kinds += ["count", "numcmp", "numcmp"]
        k = pick(rnd, kinds)
        if k == "smt":
            t = self.t_bool(scope, rnd.randint(1, self.o["max_term_depth"]), numvars, top=True)
            if chance(rnd, 0.03):
                t = ["bool", chance(rnd, 0.5)]
            return ["smt", t]
        if k == "numcmp":
            n = pick(rnd, list(numvars))
            other = self.t_int(scope, 1, ())
            return ["smt", ["app", pick(rnd, ["=", "<", "<=", ">", ">="]), [["app", "str.to.int", [["ref", ["v", n]]]], other]]]
        if k == "pred":
            a, _ = self.some_ref(scope)
            b, _ = self.some_ref(scope)
            return ["pred", pick(rnd, STRUCT2), a, b]
        if k == "nth":
            a, _ = self.some_ref(scope)
            b, _ = self.some_ref(scope)
            n = rnd.randint(1, 3)
            return ["pred", "nth", ["s", str(n)] if chance(rnd, 0.6) else ["i", n], a, b]
        if k == "level":
            a, _ = self.some_ref(scope)
            b, _ = self.some_ref(scope)
            T = pick(rnd, self.nts)
            return ["pred", "level", ["s", pick(rnd, ["EQ", "GE", "LE", "GT", "LT"])], ["s", T], a, b]
        if k == "count":
            a, _ = self.some_ref(scope)
            T = pick(rnd, self.nts)
            if numvars and chance(rnd, 0.7):
                third = ["v", pick(rnd, list(numvars))]
            else:
                third = ["s", str(rnd.randint(0, 4))]
            return ["pred", "count", a, ["s", T], third]
        # semantic predicates of isla_predicates with int and string arguments
        a, _ = self.some_ref(scope)
        name = pick(rnd, ["ljust", "ljust_crop", "rjust", "rjust_crop", "crop", "extend_crop"])
        w = rnd.randint(0, 6) if chance(rnd, 0.8) else rnd.randint(-2, 40)
        if name in ("crop", "extend_crop"):
            return ["pred", name, a, ["i", w]]
        fill = pick(rnd, [" ", "0", "x", "\\\"", "ä", "#", "ab", "", "\\u{20}", "<", "\\\\"])
        return ["pred", name, a, ["i", w], ["s", fill]]

    # -------------------------------------------------------------- formulas
    def sformula(self, scope, depth, numvars=(), top=False):
        """scope: list of (ref, type) with ref = ["v", name] | ["nt", T]"""
        rnd, o = self.rnd, self.o
        kinds = ["q", "q", "q", "atom", "atom"]
        if depth > 0:
            kinds = ["q", "q"] + list(o["connectives"]) + kinds
            if o["numq"] and not numvars and chance(rnd, o["numq"]):
                kinds = ["numq"]
        c = pick(rnd, kinds) if depth > 0 else "atom"
        if c == "q":
            inref, it = pick(rnd, scope)
            cand = sorted(self.R[it] | {it})
            T = pick(rnd, cand)
            scope_names = {s[0][1] for s in scope if s[0][0] == "v"} | set(numvars)
            bound_nts = {s[0][1] for s in scope if s[0][0] == "nt"}
            if chance(rnd, o["p_omit_name"]) and T not in bound_nts and not (
                    self.avoid_known and self.badname(T)) and (T != "<start>" or chance(rnd, 0.05)):
                name = None
                me = (["nt", T], T)
            else:
                name = self.new_name(scope_names if not chance(rnd, 0.04) else set(), T)
                me = (["v", name], T)
            mx, extra = (None, [])
            if chance(rnd, o["mexpr"]):
                mx, extra = self.smexpr_for(T)
                if mx is not None:
                    self.mexpr_bound.add(json_key(me[0]))
            if inref == ["v", "start"]:
                if chance(rnd, o["p_omit_in"]):
                    inref = None
                elif chance(rnd, 0.1):
                    inref = ["nt", "<start>"]
            if inref is not None and inref[0] == "v" and inref != ["v", "start"] and chance(rnd, o["p_in_nt"]):
                # "in <T2>" with a free nonterminal as container
                inref = ["nt", it]
            q = "forall" if chance(rnd, o["p_forall"]) else "exists"
            self.qkind[json_key(me[0])] = q
            inner_scope = scope + [me] + [(["v", v], t) for v, t in extra]
            body = self.sformula(inner_scope, depth - 1, numvars)
            return [q, T, name, inref, mx, body]
        if c == "numq":
            n = self.fresh("n")
            self.in_numq += 1
            parts = [self.satom(scope, (n,))]
            if depth > 1 and chance(rnd, 0.5):
                parts.append(self.sformula(scope, depth - 1, (n,)))
            if chance(rnd, 0.5):
                parts.append(self.satom(scope, (n,)))
            self.in_numq -= 1
            body = parts[0] if len(parts) == 1 else [pick(rnd, ["and", "or"])] + parts
            return ["existsint" if chance(rnd, 0.6) else "forallint", n, body]
        if c in ("and", "or"):
            n = 2 + (1 if chance(rnd, 0.3) else 0) + (1 if chance(rnd, 0.15) else 0)
            return [c] + [self.sformula(scope, depth - 1, numvars) for _ in range(n)]
        if c in ("implies", "iff", "xor"):
            return [c, self.sformula(scope, depth - 1, numvars), self.sformula(scope, depth - 1, numvars)]
        if c == "not":
            return ["not", self.sformula(scope, depth - 1, numvars)]
        a = self.satom(scope, numvars)
        if chance(rnd, 0.05):
            a = ["par", a]
        return a

    def smexpr_for(self, T):
        """match expression from a random derivation prefix of T (fml.FGen machinery); texts may carry
        quotes, backslashes, newlines, '<' and non-ASCII characters"""
        pt = self.rand_prefix(T, 2)
        if pt[1] is None:
            return None, []
        mx, binds = self.prefix_to_mexpr(pt)
        if not mx:
            return None, []
        if any(e[0] == "text" and not mexpr_writable(e[1]) for e in mx):
            return None, []
        if self.avoid_known and any(e[0] == "text" and ('"' in e[1] or "\\" in e[1]) for e in mx):
            return None, []
        if len(mx) >= 2 and chance(self.rnd, self.o["opt"]):
            # optional suffix such that the shorter form is derivable as well (the documented use)
            for cutpos in range(len(mx) - 1, 0, -1):
                head, tail = mx[:cutpos], mx[cutpos:]
                if any(e[0] == "bind" for e in tail):
                    continue
                if fml.abstract_parses(self.cg, T, fml.mexpr_word(head), cap=2):
                    return head + [["opt", tail]], binds
        if len(mx) >= 2 and chance(self.rnd, 0.2):
            # any binder-free run in brackets: accepted syntax, whether or not both forms are derivable
            i = self.rnd.randint(0, len(mx) - 1)
            j = i
            while j + 1 < len(mx) and mx[j + 1][0] != "bind" and chance(self.rnd, 0.5):
                j += 1
            if all(e[0] != "bind" for e in mx[i:j + 1]) and (i > 0 or j + 1 < len(mx)):
                return mx[:i] + [["opt", mx[i:j + 1]]] + mx[j + 1:], binds
        return mx, binds


def json_key(ref):
    return ref[0] + ":" + ref[1]


def fml_keywords():
    from .c07_print import KEYWORDS
    return KEYWORDS
