"""C16: pure model of derivation trees and of the tree operations (no isla import).

A model tree is a nested list ``[label, children | None, id]`` (see vlib/rt.py): ``None`` marks an
open leaf, ``[]`` a closed leaf (terminal, or epsilon-expanded nonterminal).  Model trees are
never mutated; every operation returns a new list sharing the untouched parts.

Case trees (the JSON form produced by the generator) have no ids and may describe a very wide
node compactly:  ``[label, {"n": n, "pat": [leaf,...], "sp": [[index, subtree],...]}]`` stands for
a node with ``n`` children, child ``i`` being ``sp[i]`` if given and ``pat[i % len(pat)]`` otherwise.
"""
from .rt import is_nt


# ---------------------------------------------------------------- construction

def expand_spec(spec):
    """case tree -> plain nested [label, children|None] (no ids)"""
    label, ch = spec[0], spec[1]
    if ch is None:
        return [label, None]
    if isinstance(ch, dict):
        n = int(ch["n"])
        pat = ch["pat"]
        sp = {int(i): s for i, s in ch.get("sp", [])}
        return [label, [expand_spec(sp[i]) if i in sp else expand_spec(pat[i % len(pat)]) for i in range(n)]]
    return [label, [expand_spec(c) for c in ch]]


def with_ids(t, start):
    """fresh pre-order ids start, start+1, ...; returns (model, next id)"""
    cnt = [start]

    def go(n):
        i = cnt[0]
        cnt[0] += 1
        return [n[0], None if n[1] is None else [go(c) for c in n[1]], i]

    return go(t), cnt[0]


def well_formed(t):
    """shape rules every ISLa caller respects: inner nodes and open leaves are nonterminals"""
    if t[1] is None:
        return is_nt(t[0])
    if t[1]:
        return is_nt(t[0]) and all(well_formed(c) for c in t[1])
    return True


# ---------------------------------------------------------------- traversals

def nodes(m):
    """pre-order list of (path, node, subtree size)"""
    out = []

    def go(n, p):
        i = len(out)
        out.append(None)
        if n[1]:
            for k, c in enumerate(n[1]):
                go(c, p + (k,))
        out[i] = (p, n, len(out) - i)

    go(m, ())
    return out


def preorder(m, reverse=False):
    out = []

    def go(n, p):
        out.append((p, n))
        if n[1]:
            ks = range(len(n[1]))
            for k in (reversed(ks) if reverse else ks):
                go(n[1][k], p + (k,))

    go(m, ())
    return out


def postorder(m, reverse=False):
    out = []

    def go(n, p):
        if n[1]:
            ks = range(len(n[1]))
            for k in (reversed(ks) if reverse else ks):
                go(n[1][k], p + (k,))
        out.append((p, n))

    go(m, ())
    return out


def bfs(m):
    out = []
    level = [((), m)]
    while level:
        nxt = []
        for p, n in level:
            out.append((p, n))
            if n[1]:
                for k, c in enumerate(n[1]):
                    nxt.append((p + (k,), c))
        level = nxt
    return out


def sub(m, p):
    for i in p:
        m = m[1][i]
    return m


# ---------------------------------------------------------------- observations

def mstr(m, show_open=False, show_ids=False):
    """concatenation of the terminal leaves; open leaves optionally shown as their label"""
    out = []

    def go(n):
        if n[1] is None:
            if show_open:
                out.append("%s [%d]" % (n[0], n[2]) if show_ids else n[0])
        elif not n[1]:
            if not is_nt(n[0]):
                out.append(n[0])
        else:
            for c in n[1]:
                go(c)

    go(m)
    return "".join(out)


def mopen(m):
    if m[1] is None:
        return True
    return any(mopen(c) for c in m[1])


def depth(m):
    if not m[1]:
        return 1
    return 1 + max(depth(c) for c in m[1])


def skey(m):
    """structure without ids"""
    return (m[0], None if m[1] is None else tuple(skey(c) for c in m[1]))


def ikey(m):
    """structure with ids"""
    return (m[0], m[2], None if m[1] is None else tuple(ikey(c) for c in m[1]))


def ids(m):
    return [n[2] for _, n, _ in nodes(m)]


def parse_tree(m):
    """fuzzingbook parse-tree form as nested tuples"""
    return (m[0], None if m[1] is None else tuple(parse_tree(c) for c in m[1]))


def max_index(m):
    return max((len(n[1]) - 1 for _, n, _ in nodes(m) if n[1]), default=-1)


# ---------------------------------------------------------------- operations

def replace(m, p, s):
    if not p:
        return s
    ch = list(m[1])
    ch[p[0]] = replace(ch[p[0]], p[1:], s)
    return [m[0], ch, m[2]]


def reid(s, new_id):
    return [s[0], s[1], new_id]


def outermost(paths):
    """paths that have no proper prefix in `paths`"""
    ps = set(paths)
    return [p for p in paths if not any(p[:k] in ps for k in range(len(p)))]


def first_diff(a, b):
    """first pre-order path at which two models differ in label, id, openness or child count; None if equal"""
    stack = [((), a, b)]
    while stack:
        p, x, y = stack.pop()
        if x[0] != y[0] or x[2] != y[2] or (x[1] is None) != (y[1] is None) or len(x[1] or ()) != len(y[1] or ()):
            return p
        if x[1]:
            for k in range(len(x[1]) - 1, -1, -1):
                stack.append((p + (k,), x[1][k], y[1][k]))
    return None


def next_path(exp_paths, index_of, sizes, p, skip_children):
    """pre-order successor of p (optionally skipping p's subtree); None at the end"""
    i = index_of[p]
    j = i + (sizes[i] if skip_children else 1)
    return exp_paths[j] if j < len(exp_paths) else None
