"""C17 helpers shared by props/c17_serial.py and the cross-process child (vlib/c17_child.py).

Model trees are the nested lists of vlib/rt.py: ``[label, children | None, id]``.
Nothing in here asks ISLa what the right answer is: expectations are computed from the model
(labels, child lists, ids) or -- for cached values whose definition is not part of this property
(k-paths, hashes) -- from a *fresh* object built from the model that has no history at all.
"""
from . import rt


def model_str(m):
    """str(tree): terminal leaves concatenated, open leaves shown by their symbol"""
    if m[1] is None:
        return m[0]
    if not m[1]:
        return "" if rt.is_nt(m[0]) else m[0]
    return "".join(model_str(c) for c in m[1])


def strip(m):
    return [m[0], None if m[1] is None else [strip(c) for c in m[1]]]


def shift(m, base):
    return [m[0], None if m[1] is None else [shift(c, base) for c in m[1]], m[2] + base]


def ids(m):
    return [n[2] for _, n in rt.nodes(m)]


def walk(o):
    """DerivationTree -> model, reading only .value/.children/.id; also reports container types.
    Touches no cache of the object."""
    bad = []

    def go(n):
        ch = n.children
        if ch is not None and not isinstance(ch, tuple):
            bad.append(type(ch).__name__)
        return [n.value, None if ch is None else [go(c) for c in ch], n.id]

    return go(o), bad


def kp_key(paths):
    """k-path set -> comparable value (graph nodes are compared by class name and symbol)"""
    return sorted(tuple((type(n).__name__, n.symbol) for n in p) for p in paths)


def battery(o, m, graph, fresh=None, deep=True, tag="final"):
    """Everything the property lets a user expect from a tree object `o` whose content is `m`,
    whatever happened to it before.  Returns a list of (sig_suffix, detail)."""
    import pickle
    from isla.derivation_tree import DerivationTree
    out = []

    def bad(sig, **kw):
        out.append((sig, kw))

    def attempt(what, fn):
        try:
            return True, fn()
        except Exception as e:  # noqa
            bad("%s:raises:%s" % (what, type(e).__name__), error=str(e)[:200])
            return False, None

    w, cont = walk(o)
    if w != m:
        bad("structure_or_ids", expected=m, observed=w)
        return out
    if cont:
        bad("children_not_tuple", types=cont)
    if fresh is None:
        fresh = rt.to_dt(m)
    ok, s = attempt("str", lambda: str(o))
    if ok and s != model_str(m):
        bad("str", expected=model_str(m), observed=s)
    ok, s = attempt("to_string", lambda: o.to_string(show_open_leaves=False))
    if ok and s != rt.tyield(m):
        bad("to_string", expected=rt.tyield(m), observed=s)
    ok, v = attempt("len", lambda: len(o))
    if ok and v != rt.size(m):
        bad("len", expected=rt.size(m), observed=v)
    ok, v = attempt("is_open", lambda: o.is_open())
    if ok and v != rt.is_open(m):
        bad("is_open", expected=rt.is_open(m), observed=v)
    ok, v = attempt("eq", lambda: (o == fresh, fresh == o, o.structurally_equal(fresh)))
    if ok and v != (True, True, True):
        bad("eq_fresh", observed=list(v))
    ok, v = attempt("hash", lambda: (hash(o), hash(fresh)))
    if ok and v[0] != v[1]:
        bad("stale_hash", observed=v[0], fresh=v[1])
    ok, v = attempt("structural_hash", lambda: (o.structural_hash(), fresh.structural_hash()))
    if ok and v[0] != v[1]:
        bad("stale_structural_hash", observed=v[0], fresh=v[1])
    ok, v = attempt("set_member", lambda: (o in {fresh}, fresh in {o}, {o: 1}.get(fresh)))
    if ok and v != (True, True, 1) and not any(s in ("stale_hash",) for s, _ in out):
        bad("set_member", observed=list(v))
    ok, v = attempt("paths", lambda: [(list(p), n.value, n.id) for p, n in o.paths()])
    exp_paths = [(list(p), n[0], n[2]) for p, n in rt.nodes(m)]
    if ok and v != exp_paths:
        bad("paths", expected=exp_paths[:6], observed=v[:6])
    if graph is not None and rt.is_nt(m[0]):
        for k, pot in ((2, True), (3, False)):
            okf, ef = _quiet(lambda: kp_key(fresh.k_paths(graph, k, include_potential_paths=pot)))
            if not okf:
                continue
            ok, v = attempt("k_paths", lambda: kp_key(o.k_paths(graph, k, include_potential_paths=pot)))
            if ok and v != ef:
                bad("k_paths", k=k, potential=pot, expected=ef[:4], observed=v[:4])
    if deep:
        # per node: a stale cache in a child is invisible at the root once the root's own is cached
        nodes_o = []
        try:
            nodes_o = [n for _, n in o.paths()]
        except Exception:
            pass
        nodes_m = [n for _, n in rt.nodes(m)]
        if len(nodes_o) == len(nodes_m):
            for no, nm in zip(nodes_o[1:], nodes_m[1:]):
                fr = rt.to_dt(nm)
                ok, v = attempt("node", lambda: (str(no), no.is_open(), len(no), hash(no) == hash(fr),
                                                 no.structural_hash() == fr.structural_hash(), no == fr))
                if ok and v != (model_str(nm), rt.is_open(nm), rt.size(nm), True, True, True):
                    which = [n for n, a, b in zip(("str", "is_open", "len", "stale_hash", "stale_structural_hash", "eq"), v,
                                                  (model_str(nm), rt.is_open(nm), rt.size(nm), True, True, True)) if a != b]
                    bad("node:" + "+".join(which), node=nm[2], observed=list(v))
                    break
        # can be serialised again, with the same content, and is still itself afterwards
        ok, d = attempt("repickle", lambda: pickle.loads(pickle.dumps(o)))
        if ok and walk(d)[0] != m:
            bad("repickle:structure_or_ids", expected=m, observed=walk(d)[0])
        ok, d = attempt("rejson", lambda: DerivationTree.from_json(o.to_json()))
        if ok and walk(d)[0] != m:
            bad("rejson:structure_or_ids", expected=m, observed=walk(d)[0])
        if walk(o)[0] != m:
            bad("changed_by_serialising", expected=m, observed=walk(o)[0])
    return out


def _quiet(fn):
    try:
        return True, fn()
    except Exception:
        return False, None
