"""C05 helpers: typed SMT-LIB term generator (Bool/Int/String/RegLan), two printers
(standard SMT-LIB for Z3, ISLa concrete syntax), and the Z3 oracle.

A term is a JSON-able nested list:
  ["S", "text"]  string literal      ["I", n]  integer literal      ["B", true|false]
  ["V", "v0"]    string variable (instantiated through case["vals"])
  [op, arg, ...] application; op is the SMT-LIB name ("neg" = unary minus)
  ["re.loop", r, lo, hi, "idx"|"args"]   ((_ re.loop lo hi) r)  or the 3-argument form (re.loop r lo hi)
Nothing in this file imports isla.
"""
import re as _re

B, I, S, R = "B", "I", "S", "R"

# ---------------------------------------------------------------------------------------------
# value pools

STRS = ["", "a", "b", "ab", "ba", "aab", "abab", "a b", " ", "a\nb", "\n", "a\n", "\t", '"', 'a"b', "\\", "a\\b",
        "\\n", ".", "a.b", "*", "+", "?", "(", ")", "[", "]", "{", "}", "|", "^", "$", "-", "a-c", "ä", "λx", "é",
        "\U0001F600", "x\U0001F600", "0", "7", "12", "007", "-5", "+3", "100", "<", ">", "\x00", "\x7f", "\\u{41}",
        "A", "Z", "z", "abc", "c", "bb"]
COMMON = ["", "a", "b", "ab", "ba", "aab", "abab", "abc", "c", "0", "7", "12"]
NUMS = ["0", "7", "12", "007", "-5", "+3", "100", "-0", "+007", "-12", "3"]
UNSIGNED = ["0", "7", "12", "007", "100", "3"]
INTS = [-20, -7, -3, -2, -1, 0, 0, 1, 1, 2, 2, 3, 4, 5, 6, 10, 20, 97, 100, 255, 256, 65536, 10 ** 10]
SMALL = [-3, -2, -1, 0, 0, 1, 1, 2, 2, 3, 4, 5]
ESC_LIKE = ["\\u{41}", "a\\u{62}", "\\u0041", "\\u{5c}"]
RANGE_CH = "abcxyz019AZ"
RANGE_ODD = ["-", "]", "\\", "^", "[", "ä", "\n", "ab", ""]

SORT_OF = {
    "not": B, "and": B, "or": B, "=>": B, "xor": B, "=": B, "distinct": B, "<": B, "<=": B, ">": B, ">=": B,
    "str.<": B, "str.<=": B, "str.prefixof": B, "str.suffixof": B, "str.contains": B, "str.is_digit": B,
    "str.in_re": B,
    "+": I, "-": I, "neg": I, "*": I, "div": I, "mod": I, "abs": I, "str.len": I, "str.indexof": I,
    "str.to_code": I, "str.to.int": I,
    "str.++": S, "str.at": S, "str.substr": S, "str.replace": S, "str.replace_all": S, "str.replace_re": S,
    "str.replace_re_all": S, "str.from_int": S, "str.from_code": S,
    "str.to_re": R, "re.none": R, "re.all": R, "re.allchar": R, "re.++": R, "re.union": R, "re.inter": R,
    "re.*": R, "re.+": R, "re.opt": R, "re.comp": R, "re.diff": R, "re.range": R, "re.loop": R,
}
ALL_OPS = sorted(SORT_OF) + ["ite"]
# operators that have no spelling in ISLa's concrete syntax (lexer cannot produce them)
NO_ISLA_TEXT = {"str.<"}
# SMT_NONBINARY_OP of ISLa's lexer: may be written op(a, b) as well as (op a b)
CALLABLE = {"abs", "re.+", "re.*", "str.len", "str.in_re", "str.to_re", "str.at", "str.substr", "str.prefixof",
            "str.suffixof", "str.contains", "str.indexof", "str.replace", "str.replace_all", "str.replace_re",
            "str.replace_re_all", "re.union", "re.inter", "re.comp", "re.diff", "re.opt", "re.range",
            "str.is_digit", "str.to_code", "str.from_code", "str.to.int", "str.from_int"}


def sort_of(t, hint=None):
    h = t[0]
    if h in ("S", "V"):
        return S
    if h == "I":
        return I
    if h == "B":
        return B
    if h == "ite":
        return sort_of(t[2])
    return SORT_OF[h]


def args_of(t):
    h = t[0]
    if h in ("S", "V", "I", "B"):
        return []
    if h == "re.loop":
        return [t[1]]
    return list(t[1:])


def subterms(t):
    """post-order (children before parents)"""
    for a in args_of(t):
        for s in subterms(a):
            yield s
    yield t


def heads(t):
    out = set()
    for s in subterms(t):
        if s[0] == "S":
            out.add("lit:str")
        elif s[0] == "I":
            out.add("lit:int")
        elif s[0] == "B":
            out.add("lit:bool")
        elif s[0] == "V":
            out.add("var")
        else:
            out.add(s[0])
    return out


def head_name(t):
    return {"S": "strlit", "I": "intlit", "B": "boollit", "V": "strlit", "neg": "-"}.get(t[0], t[0])


def variables(t):
    return sorted({s[1] for s in subterms(t) if s[0] == "V"})


def size(t):
    return sum(1 for _ in subterms(t))


# ---------------------------------------------------------------------------------------------
# generator

def _pick(rnd, seq):
    return seq[rnd.randint(0, len(seq) - 1)]


def _chance(rnd, p):
    return rnd.random() > 1.0 - p


def _wpick(rnd, weighted):
    total = sum(w for _, w in weighted)
    x = rnd.random() * total
    for v, w in weighted:
        x -= w
        if x < 0:
            return v
    return weighted[-1][0]


class Gen:
    def __init__(self, rnd, vals):
        self.rnd = rnd
        self.vals = vals
        self.numvars = [v for v, s in vals.items() if _re.fullmatch(r"[+-]?[0-9]+", s)]
        self.unsvars = [v for v, s in vals.items() if _re.fullmatch(r"[0-9]+", s)]
        self.hint = None

    # -- leaves
    def strlit(self):
        r = self.rnd
        return ["S", _pick(r, COMMON) if _chance(r, 0.5) else _pick(r, STRS)]

    def sleaf(self):
        if self.vals and _chance(self.rnd, 0.55):
            return ["V", _pick(self.rnd, sorted(self.vals))]
        return self.strlit()

    def ileaf(self):
        r = self.rnd
        return ["I", _pick(r, SMALL) if _chance(r, 0.6) else _pick(r, INTS)]

    def rleaf(self):
        r = self.rnd
        c = r.randint(0, 9)
        if c <= 4:
            w = self.hint
            if w is not None and _chance(r, 0.5):
                # directed: a regex literal related to the string it is matched against (both verdicts, anchoring corners)
                return ["str.to_re", ["S", _pick(r, [w, w[:-1], w[1:], w + w, w[:1], w[-1:]])]]
            return ["str.to_re", self.sleaf() if _chance(r, 0.3) else self.strlit()]
        if c <= 6:
            return self.rng()
        if c == 7:
            return ["re.all"]
        if c == 8:
            return ["re.allchar"]
        return ["re.none"]

    def rng(self):
        r = self.rnd
        c = r.randint(0, 19)
        if c <= 15:
            i = r.randint(0, len(RANGE_CH) - 1)
            j = r.randint(i, len(RANGE_CH) - 1)
            # RANGE_CH is not sorted by code point on purpose: both ordered and reversed ranges occur
            return ["re.range", ["S", RANGE_CH[i]], ["S", RANGE_CH[j]]]
        if c <= 17:
            return ["re.range", ["S", _pick(r, RANGE_ODD)], ["S", _pick(r, RANGE_CH)]]
        return ["re.range", ["S", _pick(r, RANGE_CH)], ["S", _pick(r, RANGE_ODD)]]

    def numeral(self, d, unsigned=False):
        """a String term whose value is [+-]?[0-9]+ ([0-9]+ if unsigned) by construction"""
        r = self.rnd
        pool = self.unsvars if unsigned else self.numvars
        c = r.randint(0, 9)
        if pool and c <= 3:
            return ["V", _pick(r, pool)]
        if c == 4 and d > 0:
            return ["str.++", self.numeral(d - 1, unsigned), self.numeral(d - 1, True)]
        if c == 5 and d > 0:
            return ["str.from_int", ["I", abs(_pick(r, INTS))]]
        if c == 6 and d > 0:
            return ["ite", self.gen(B, d - 1), self.numeral(d - 1, unsigned), self.numeral(d - 1, unsigned)]
        return ["S", _pick(r, UNSIGNED if unsigned else NUMS)]

    # -- terms
    def gen(self, sort, d, root=False):
        r = self.rnd
        leaf = (d <= 0 or _chance(r, 0.22)) and not root
        if sort == S:
            if leaf:
                return self.sleaf()
            op = _wpick(r, [("str.++", 3), ("str.at", 3), ("str.substr", 3), ("str.replace", 2), ("str.replace_all", 1.5),
                            ("str.replace_re", 0.4), ("str.replace_re_all", 0.4), ("str.from_int", 1.5),
                            ("str.from_code", 1.5), ("ite", 1)])
            g = self.gen
            if op == "str.++":
                return [op] + [g(S, d - 1) for _ in range(2 + _chance(r, 0.2))]
            if op == "str.at":
                return [op, g(S, d - 1), g(I, d - 1)]
            if op == "str.substr":
                return [op, g(S, d - 1), g(I, d - 1), g(I, d - 1)]
            if op in ("str.replace", "str.replace_all"):
                return [op, g(S, d - 1), g(S, d - 1), g(S, d - 1)]
            if op in ("str.replace_re", "str.replace_re_all"):
                return [op, g(S, d - 1), g(R, d - 1), g(S, d - 1)]
            if op in ("str.from_int", "str.from_code"):
                return [op, g(I, d - 1)]
            return ["ite", g(B, d - 1), g(S, d - 1), g(S, d - 1)]
        if sort == I:
            if leaf:
                return self.ileaf()
            op = _wpick(r, [("+", 2), ("-", 2), ("neg", 1.5), ("*", 1.5), ("div", 2.5), ("mod", 2.5), ("abs", 1.5),
                            ("str.len", 3), ("str.indexof", 2), ("str.to_code", 2), ("str.to.int", 3), ("ite", 1)])
            g = self.gen
            if op in ("+", "*"):
                return [op] + [g(I, d - 1) for _ in range(2 + _chance(r, 0.2))]
            if op == "-":
                return [op] + [g(I, d - 1) for _ in range(2 + _chance(r, 0.1))]
            if op in ("div", "mod"):
                return [op, g(I, d - 1), g(I, d - 1)]
            if op in ("neg", "abs"):
                return [op, g(I, d - 1)]
            if op in ("str.len", "str.to_code"):
                return [op, g(S, d - 1)]
            if op == "str.indexof":
                return [op, g(S, d - 1), g(S, d - 1), g(I, d - 1)]
            if op == "str.to.int":
                return [op, self.numeral(d - 1)]
            return ["ite", g(B, d - 1), g(I, d - 1), g(I, d - 1)]
        if sort == R:
            if leaf or d <= 1:
                return self.rleaf()
            op = _wpick(r, [("re.++", 3), ("re.union", 3), ("re.inter", 1.5), ("re.*", 2), ("re.+", 2), ("re.opt", 2),
                            ("re.comp", 2.5), ("re.diff", 1.5), ("re.loop", 3), ("leaf", 2)])
            g = self.gen
            if op == "leaf":
                return self.rleaf()
            if op in ("re.++", "re.union"):
                return [op] + [g(R, d - 1) for _ in range(2 + _chance(r, 0.25))]
            if op in ("re.inter", "re.diff"):
                return [op, g(R, d - 1), g(R, d - 1)]
            if op in ("re.*", "re.+", "re.opt"):
                return [op, g(R, d - 1)]
            if op == "re.comp":
                c = r.randint(0, 3)
                if c == 0:
                    return [op, self.rng()]
                if c == 1:
                    return [op, ["re.union"] + [["str.to_re", ["S", _pick(r, "abcxyz019")]] for _ in range(2)]]
                return [op, g(R, d - 1)]
            lo = r.randint(0, 3)
            hi = lo + r.randint(0, 2) if _chance(r, 0.9) else max(0, lo - 1)
            return ["re.loop", g(R, d - 1), lo, hi, "idx" if _chance(r, 0.6) else "args"]
        # Bool
        if leaf:
            return ["B", _chance(r, 0.5)]
        op = _wpick(r, [("=", 6), ("not", 1.5), ("and", 1.5), ("or", 1.5), ("=>", 1), ("xor", 1), ("distinct", 1.5), ("ite", 0.7),
                        ("<", 1.2), ("<=", 1.2), (">", 1.2), (">=", 1.2), ("str.<", 1), ("str.<=", 1), ("str.prefixof", 1.2),
                        ("str.suffixof", 1.2), ("str.contains", 1.2), ("str.is_digit", 1), ("str.in_re", 9)])
        g = self.gen
        if op == "not":
            return [op, g(B, d - 1)]
        if op in ("and", "or"):
            return [op] + [g(B, d - 1) for _ in range(2 + _chance(r, 0.25))]
        if op in ("=>", "xor"):
            return [op, g(B, d - 1), g(B, d - 1)]
        if op == "=":
            so = _wpick(r, [(S, 5), (I, 5), (B, 0.6), (R, 0.15)])
            return [op, g(so, d - 1), g(so, d - 1)]
        if op == "distinct":
            so = _wpick(r, [(S, 5), (I, 5)])
            return [op] + [g(so, d - 1) for _ in range(2 + _chance(r, 0.25))]
        if op == "ite":
            return [op, g(B, d - 1), g(B, d - 1), g(B, d - 1)]
        if op in ("<", "<=", ">", ">="):
            return [op, g(I, d - 1), g(I, d - 1)]
        if op in ("str.<", "str.<=", "str.prefixof", "str.suffixof", "str.contains"):
            return [op, g(S, d - 1), g(S, d - 1)]
        if op == "str.is_digit":
            return [op, g(S, d - 1)]
        subj = g(S, d - 1)
        self.hint = subj[1] if subj[0] == "S" else self.vals.get(subj[1]) if subj[0] == "V" else None
        rx = g(R, d - 1)
        self.hint = None
        return ["str.in_re", subj, rx]


def gen_value(rnd):
    c = rnd.randint(0, 9)
    if c <= 2:
        return _pick(rnd, NUMS)
    elif c <= 5:
        return _pick(rnd, COMMON)
    elif c == 6 and rnd.randint(0, 3) == 0:
        return _pick(rnd, ESC_LIKE)
    return _pick(rnd, STRS)


def gen_case_term(rnd):
    nv = _pick(rnd, [0, 1, 1, 1, 2, 2, 3])
    vals = {}
    for i in range(nv):
        vals["v%d" % i] = gen_value(rnd)
    g = Gen(rnd, vals)
    depth = _pick(rnd, [1, 2, 2, 3, 3, 3, 4])
    term = g.gen(B, depth, root=True)
    used = set(variables(term))
    vals = {k: v for k, v in vals.items() if k in used}
    return term, vals


# ---------------------------------------------------------------------------------------------
# printers

def lit_smt(s):
    """standard SMT-LIB 2.6 string literal"""
    out = []
    for ch in s:
        o = ord(ch)
        if ch == '"':
            out.append('""')
        elif ch == "\\":
            out.append("\\u{5c}")
        elif 32 <= o < 127:
            out.append(ch)
        else:
            out.append("\\u{%x}" % o)
    return '"' + "".join(out) + '"'


def lit_isla(s, quote="u"):
    """ISLa concrete syntax: only \\u{hex} and \\" are usable escapes"""
    out = []
    for ch in s:
        o = ord(ch)
        if ch == '"':
            out.append('\\"' if quote == "bs" else "\\u{22}")
        elif ch == "\\":
            out.append("\\u{5c}")
        elif 32 <= o < 127:
            out.append(ch)
        else:
            out.append("\\u{%x}" % o)
    return '"' + "".join(out) + '"'


NUMERAL_RE = '(re.++ (re.opt (re.union (str.to_re "+") (str.to_re "-"))) (re.+ (re.range "0" "9")))'


def to_smt(t, vals=None, oracle=False, plain_at=None, _cnt=None):
    """Standard SMT-LIB text.  vals: substitute variables by literals.  oracle: negative literals as (- n),
    str.to.int rewritten to the sign-aware reading on [+-]?[0-9]+ (expressed in Z3 itself).  plain_at: set of
    str.to.int occurrence numbers (order of printing) that keep Z3's plain reading even in oracle mode -- used only
    to recognise the open finding 'two readings of str.to.int on signed numerals coexist'."""
    if _cnt is None:
        _cnt = [0]
    h = t[0]
    if h == "S":
        return lit_smt(t[1])
    if h == "V":
        return lit_smt(vals[t[1]]) if vals is not None else t[1]
    if h == "I":
        n = t[1]
        if n < 0:
            return "(- %d)" % -n if oracle else "-%d" % -n
        return str(n)
    if h == "B":
        return "true" if t[1] else "false"
    rec = lambda x: to_smt(x, vals, oracle, plain_at, _cnt)
    if h == "re.loop":
        if t[4] == "idx":
            return "((_ re.loop %d %d) %s)" % (t[2], t[3], rec(t[1]))
        return "(re.loop %s %d %d)" % (rec(t[1]), t[2], t[3])
    if h == "neg":
        return "(- %s)" % rec(t[1])
    if h == "str.to.int":
        me = _cnt[0]
        _cnt[0] += 1
        a = rec(t[1])
        if not oracle or (plain_at is not None and me in plain_at):
            return "(str.to_int %s)" % a
        rest = "(str.to_int (str.substr %s 1 (str.len %s)))" % (a, a)
        return '(ite (str.prefixof "-" %s) (- %s) (ite (str.prefixof "+" %s) %s (str.to_int %s)))' % (a, rest, a, rest, a)
    if len(t) == 1:
        return h
    return "(%s %s)" % (h, " ".join(rec(x) for x in t[1:]))


def contains_not(t):
    return any(s[0] == "not" for s in subterms(t))


def to_isla_sexpr(t, st):
    """SMT expression in ISLa concrete syntax; None when not expressible"""
    h = t[0]
    if h == "S":
        return lit_isla(t[1], st.get("quote", "u"))
    if h == "V":
        return t[1]
    if h == "I":
        return str(t[1])
    if h == "B":
        return "true" if t[1] else "false"
    if h in NO_ISLA_TEXT or h == "not":
        return None
    rec = lambda x: to_isla_sexpr(x, st)
    if h == "re.loop":
        a = rec(t[1])
        if a is None:
            return None
        if t[4] == "idx":
            return "((_ re.loop %d %d) %s)" % (t[2], t[3], a)
        if st.get("call"):
            return "re.loop(%s, %d, %d)" % (a, t[2], t[3])
        return "(re.loop %s %d %d)" % (a, t[2], t[3])
    if h == "neg":
        a = rec(t[1])
        return None if a is None else "(- %s)" % a
    if len(t) == 1:
        return h
    xs = [rec(x) for x in t[1:]]
    if any(x is None for x in xs):
        return None
    if st.get("call") and h in CALLABLE:
        return "%s(%s)" % (h, ", ".join(xs))
    return "(%s %s)" % (h, " ".join(xs))


PROP = {"and": "and", "or": "or", "xor": "xor", "=>": "implies"}


def to_isla_formula(t, st):
    """Bool term as ISLa formula text.  `not` can only be written at ISLa's propositional level, so the
    propositional spine above every `not` is printed with ISLa's connectives; elsewhere st['spine'] decides."""
    h = t[0]
    if h == "not":
        a = to_isla_formula(t[1], st)
        return None if a is None else "not (%s)" % a
    if h in PROP and (st.get("spine") or contains_not(t)):
        xs = [to_isla_formula(x, st) for x in t[1:]]
        if any(x is None for x in xs):
            return None
        return "(" + (" %s " % PROP[h]).join("(%s)" % x for x in xs) + ")"
    if st.get("infix") and h in ("=", "<", "<=", ">", ">=") and len(t) == 3 and sort_of(t[1]) in (I, S):
        a, b = to_isla_sexpr(t[1], st), to_isla_sexpr(t[2], st)
        if a is None or b is None:
            return None
        return "%s %s %s" % (a, h, b)
    return to_isla_sexpr(t, st)


# ---------------------------------------------------------------------------------------------
# Z3 side (oracle)

def z3_parse_bool(text, names=()):
    import z3
    return z3.parse_smt2_string("(assert %s)" % text, decls={v: z3.String(v) for v in names})[0]


def z3_parse_term(text, sort, names=()):
    """parse a term of any sort (wrapped into an atom, then unwrapped)"""
    if sort == B:
        return z3_parse_bool(text, names)
    if sort == R:
        return z3_parse_bool('(str.in_re "" %s)' % text, names).children()[1]
    e = z3_parse_bool("(distinct %s %s)" % (text, "0" if sort == I else '""'), names)
    return e.children()[0]


def mk_str(s):
    """Z3 string value holding exactly the characters of s (z3.StringVal alone would re-read \\u{..} text)"""
    import z3
    return z3.StringVal(s.replace("\\", "\\u{5c}"))


def decide(e, timeout_ms=10000, solver=True):
    """validity of a ground Bool term: True / False / None (undecided)"""
    import z3
    s = z3.simplify(e)
    if z3.is_true(s):
        return True
    if z3.is_false(s):
        return False
    if not solver:
        return None
    sol = z3.Solver()
    sol.set("timeout", timeout_ms)
    sol.add(z3.Not(e))
    r = sol.check()
    if r == z3.unsat:
        return True
    if r == z3.sat:
        return False
    return None


def oracle_verdict(term, vals, timeout_ms=10000):
    # Z3 4.11.2 does not honour its timeout on some str.replace_re queries (minutes inside check()):
    # such terms are decided by simplify or not at all
    hard = any(s[0] in ("str.replace_re", "str.replace_re_all") for s in subterms(term))
    return decide(z3_parse_bool(to_smt(term, vals, oracle=True)), timeout_ms, solver=not hard)


def signed_occurrences(term, vals):
    """occurrence numbers (as counted by to_smt) of the str.to.int applications whose argument starts with a sign:
    the ones on which Z3's plain reading (-1) and ISLa's documented sign-aware reading differ"""
    import z3
    out = []
    cnt = [0]

    def walk(t):
        if t[0] == "str.to.int":
            me = cnt[0]
            cnt[0] += 1
            try:
                a = to_smt(t[1], vals, oracle=True)
                e = z3_parse_bool('(or (str.prefixof "-" %s) (str.prefixof "+" %s))' % (a, a))
                if z3.is_true(z3.simplify(e)):
                    out.append(me)
            except Exception:
                pass
        for x in args_of(t):
            walk(x)

    walk(term)
    return out


def in_domain(term, vals):
    """every str.to.int argument evaluates (Z3 simplify) to [+-]?[0-9]+"""
    import z3
    for s in subterms(term):
        if s[0] == "str.to.int":
            e = z3_parse_bool("(str.in_re %s %s)" % (to_smt(s[1], vals, oracle=True), NUMERAL_RE))
            if not z3.is_true(z3.simplify(e)):
                return False
    return True
