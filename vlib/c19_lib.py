"""C19 helpers: BNF printing, in-process / child-process execution of the isla command line,
JSON-tree helpers and the harness' expectation for `isla check`.

Nothing here calls the code under test to compute an expected answer, with one exception that the
DESIGN allows: for inputs with more than one derivation tree the tree ISLa's Earley parser
returns first is used as *the* tree the constraint is judged on -- after the harness has validated
it (rt.valid, yield equals the input)."""
import io
import os
import sys
import json
import traceback

from . import rt, fml
from .rt import is_nt

CONTRACT = (0, 1, 2, 65)
TB = "Traceback (most recent call last)"


# ------------------------------------------------------------------ BNF text

def bnf_string(s):
    out = []
    for ch in s:
        if ch == "\\":
            out.append("\\\\")
        elif ch == '"':
            out.append('\\"')
        elif ch == "\n":
            out.append("\\n")
        elif ch == "\t":
            out.append("\\t")
        else:
            assert 32 <= ord(ch) < 127, "terminal outside printable ASCII: %r" % (s,)
            out.append(ch)
    return '"' + "".join(out) + '"'


def bnf_rule(nt, alts):
    parts = []
    for a in alts:
        syms = rt.split_alt(a)
        parts.append('""' if not syms else " ".join(x if is_nt(x) else bnf_string(x) for x in syms))
    return "%s ::= %s" % (nt, " | ".join(parts))


def bnf_text(g, keys=None, semicolons=False, comment=False):
    lines = []
    if comment:
        lines.append("# grammar written by the harness")
    for k in (keys if keys is not None else g):
        lines.append(bnf_rule(k, g[k]) + (";" if semicolons else ""))
    return "\n".join(lines) + "\n"


# ------------------------------------------------------------------ execution

def innermost_isla_frame(tb):
    """name of the innermost function of the traceback that lives in the isla package (else the
    innermost at all)"""
    frames = traceback.extract_tb(tb)
    name = frames[-1].name if frames else "?"
    for fr in frames:
        fn = fr.filename.replace("\\", "/")
        if "/isla/" in fn and "/site-packages/" not in fn:
            name = fr.name
    return name


def _reraise_masked_timeout(e):
    """the runner's watchdog raises SoftTimeout from a signal handler; when that happens inside a ctypes
    callback (Z3) it surfaces as ctypes.ArgumentError('... SoftTimeout ...') -- an ordinary Exception"""
    from .runner import SoftTimeout
    seen = set()
    x = e
    while x is not None and id(x) not in seen:
        seen.add(id(x))
        if isinstance(x, SoftTimeout) or "SoftTimeout" in (str(x) or "")[:200]:
            raise SoftTimeout()
        x = x.__cause__ or x.__context__


def run_cli(argv, rseed=0):
    """isla.cli.main in-process.  Returns dict(status, out, err, exc, where, tb)."""
    import random
    from isla import cli
    out, err = io.StringIO(), io.StringIO()
    res = {"status": None, "exc": None, "where": None}
    random.seed(rseed)
    try:
        cli.main(*argv, stdout=out, stderr=err)
        res["status"] = 0
    except SystemExit as e:
        c = e.code
        res["status"] = 0 if c is None else c
    except Exception as e:
        _reraise_masked_timeout(e)
        res["exc"] = type(e).__name__
        res["where"] = innermost_isla_frame(e.__traceback__)
        res["frames"] = [(os.path.basename(fr.filename), fr.name) for fr in traceback.extract_tb(e.__traceback__)]
        res["detail"] = (str(e) or "")[:300]
        res["tb"] = "".join(traceback.format_exception(type(e), e, e.__traceback__))[-1500:]
    res["out"] = out.getvalue()
    res["err"] = err.getvalue()
    return res


def run_child(argv, cwd, timeout=120):
    """the real command line in a child process: python -m isla ARGV"""
    import subprocess
    from . import env
    e = dict(os.environ)
    src = os.path.join(env.REPO, "src")
    e["PYTHONPATH"] = src + (os.pathsep + e["PYTHONPATH"] if e.get("PYTHONPATH") else "")
    e["PYTHONHASHSEED"] = "0"
    e["PYTHONWARNINGS"] = "ignore"
    e["HOME"] = cwd
    try:
        p = subprocess.run([sys.executable, "-m", "isla"] + list(argv), cwd=cwd, env=e, capture_output=True,
                           timeout=timeout, stdin=subprocess.DEVNULL)
    except subprocess.TimeoutExpired:
        return None
    return {"status": p.returncode, "out": p.stdout.decode("utf-8", "replace"), "err": p.stderr.decode("utf-8", "replace")}


class long_z3_timeout:
    """ISLa's validity queries carry a 500 ms Z3 timeout; on a loaded machine that alone turns a
    decidable query into UNKNOWN.  For a retry the harness swaps in a 20 s budget (patching the name
    `is_valid` in isla.evaluator from outside; nothing in /repo is changed)."""

    def __enter__(self):
        import functools
        from isla import evaluator, z3_helpers
        self.ev, self.old = evaluator, evaluator.is_valid
        evaluator.is_valid = functools.partial(z3_helpers.is_valid, timeout=20000)

    def __exit__(self, *a):
        self.ev.is_valid = self.old
        return False


# ------------------------------------------------------------------ JSON trees

def to_parse_tree(t):
    """reference tree -> the JSON shape of DerivationTree.to_parse_tree: [label, [children...]] / null"""
    return [t[0], None if t[1] is None else [to_parse_tree(c) for c in t[1]]]


def tree_shape(v):
    """JSON value has the shape [str, null | [tree, ...]]"""
    if not isinstance(v, list) or len(v) != 2 or not isinstance(v[0], str):
        return False
    if v[1] is None:
        return True
    if not isinstance(v[1], list):
        return False
    return all(tree_shape(c) for c in v[1])


def json_values(text):
    """sequence of JSON values in `text` separated by whitespace, or None"""
    dec = json.JSONDecoder()
    vals = []
    i, n = 0, len(text)
    while True:
        while i < n and text[i] in " \t\r\n":
            i += 1
        if i >= n:
            return vals
        try:
            v, i = dec.raw_decode(text, i)
        except ValueError:
            return None
        vals.append(v)


# ------------------------------------------------------------------ expectation for `check`

class Unjudged(Exception):
    pass


def isla_first_tree(g, s):
    """the tree ISLa's parser returns first for s (what `isla check` evaluates the constraint on)"""
    from isla.parser import EarleyParser
    import copy
    pt = next(EarleyParser(copy.deepcopy(g)).parse(s))
    return rt.from_parse_tree(pt)


def sat_all(cg, tree, formulas):
    verdicts = []
    for f in formulas:
        try:
            v, flags, _ne = fml.sat(cg, tree, f)
        except fml.Undecided as e:
            raise Unjudged("ref_undecided")
        if flags:
            raise Unjudged("ref_flag:" + sorted(flags)[0])
        verdicts.append(bool(v))
    return verdicts


def expect_string(g, cg, formulas, s, hint, info):
    """expected exit status of `isla check` for the input string s (after newline handling)"""
    try:
        v = json.loads(s)
        decodable = True
    except ValueError:
        v, decodable = None, False
    if decodable:
        info.add("input_json_decodable")
        if tree_shape(v):
            t = rt.from_parse_tree(v)
            if rt.valid(cg, t, root=None, allow_open=True):
                if rt.is_open(t) or t[0] != "<start>":
                    raise Unjudged("json_tree_partial")
                if rt.member(cg, "<start>", s):
                    raise Unjudged("json_tree_text_is_member")
                info.add("input_is_json_tree")
                return (0 if all(sat_all(cg, t, formulas)) else 1), t
            info.add("json_tree_invalid")
    if not rt.member(cg, "<start>", s):
        return 1, None
    info.add("member")
    n = 2 if rt.has_unit_cycle(cg) else rt.count_trees(cg, "<start>", s, cap=2)
    tree = None
    if n == 1 and hint is not None and rt.tyield(hint) == s and rt.valid(cg, hint, root="<start>"):
        tree = hint
        info.add("tree_from_harness")
    else:
        if n > 1:
            info.add("ambiguous_input")
        try:
            tree = isla_first_tree(g, s)
        except Exception as e:
            raise Unjudged("isla_parser_failed:" + type(e).__name__)
        if not rt.valid(cg, tree, root="<start>") or rt.tyield(tree) != s:
            raise Unjudged("isla_parser_tree_invalid")
        info.add("tree_from_isla_parser")
    return (0 if all(sat_all(cg, tree, formulas)) else 1), tree


def expected_check(g, formulas, text, via, hint=None):
    """-> (status, tree_used, info-labels); raises Unjudged.  `via` is 'file' or 'arg'."""
    cg = rt.canon(g)
    info = set()
    if via == "file" and text.endswith("\n"):
        s = text[:-1]
        # ISLa drops one trailing newline of an input file (editors add it).  Where the raw file content
        # is itself in the language and the two readings differ, the input is not pinned down: not judged.
        st, tree = expect_string(g, cg, formulas, s, hint, info)
        if rt.member(cg, "<start>", text):
            st2, _ = expect_string(g, cg, formulas, text, hint, set())
            if st2 != st:
                raise Unjudged("newline_ambiguous")
        return st, tree, info
    st, tree = expect_string(g, cg, formulas, text, hint, info)
    return st, tree, info
