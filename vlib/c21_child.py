"""C21 child: runs ISLaSolver on one shipped formalisation under one configuration and streams solutions.

Reads one JSON job from stdin:
  {"which": "csv"|"xml"|"rest"|"tar", "rseed": int, "cost": null | {"vec": [5 numbers], "k": int, "reset": int|null},
   "free": int, "smt": int, "unique": bool, "fuzzer": "cov"|"gf30", "global_fuzzer": bool, "max": int, "budget": seconds}
Prints one JSON line per solution, flushed immediately (the parent may have to kill this process: the solver
can hang):  {"s": <solution string>, "spans": [[label, start, end], ...]}
and a trailer {"end": "COUNT"|"STOP"|"TIMEOUT"|"EXC:<type>:<msg>", "n": int}.

The spans are computed here by walking .value/.children of the returned tree only (no ISLa helper): for every
node whose label is in the formalisation's span set, the half-open character interval its yield occupies in
str(tree).  Nothing in this file judges a solution.
"""
import os
import sys
import json

sys.path.insert(0, os.path.dirname(os.path.dirname(os.path.abspath(__file__))))

SPAN_LABELS = {
    "csv": {"<csv-record>", "<raw-field>", "<quoted-field>", "<simple-field>"},
    "xml": {"<xml-tree>", "<xml-open-tag>", "<xml-close-tag>", "<xml-openclose-tag>", "<xml-attribute>", "<id>",
            "<id-with-prefix>", "<id-no-prefix>", "<text>"},
    "rest": {"<section-title>", "<title-text>", "<underline>", "<label>", "<labeled_paragraph>", "<paragraph>",
             "<internal_reference>", "<internal_reference_nospace>", "<id>", "<enumeration>", "<enumeration_item>",
             "<number>", "<body-element>"},
    "tar": {"<entry>", "<header>", "<file_name>", "<file_name_str>", "<checksum>", "<typeflag>", "<linked_file_name>",
            "<content>"},
}


def spans_of(tree, labels):
    """iterative walk; returns (string, [[label, start, end], ...]) in document (pre-)order"""
    out = []
    parts = []
    pos = 0
    # stack of (node, state) ; state 0 = enter, 1 = leave (with start)
    stack = [(tree, None)]
    while stack:
        node, start = stack.pop()
        if start is not None:
            out[start[1]][2] = pos
            continue
        val, ch = node.value, node.children
        idx = None
        if val in labels:
            idx = len(out)
            out.append([val, pos, None])
        if ch is None:  # an open leaf in a "solution": rendered as str(tree) renders it, the validators will object
            parts.append(val)
            pos += len(val)
            if idx is not None:
                out[idx][2] = pos
            continue
        if not ch:
            if not (len(val) > 1 and val[0] == "<" and val[-1] == ">" and " " not in val):
                parts.append(val)
                pos += len(val)
            if idx is not None:
                out[idx][2] = pos
            continue
        if idx is not None:
            stack.append((node, (True, idx)))
        for c in reversed(ch):
            stack.append((c, None))
    return "".join(parts), out


def build(job):
    import functools
    from grammar_graph import gg
    from isla.solver import ISLaSolver, GrammarBasedBlackboxCostComputer, CostSettings, CostWeightVector
    from isla.fuzzer import GrammarFuzzer
    which = job["which"]
    if which == "csv":
        from isla_formalizations.csv import CSV_GRAMMAR, CSV_COLNO_PROPERTY
        grammar, formula = CSV_GRAMMAR, CSV_COLNO_PROPERTY
    elif which == "xml":
        from isla_formalizations import xml_lang as x
        grammar = x.XML_GRAMMAR_WITH_NAMESPACE_PREFIXES
        formula = x.XML_NAMESPACE_CONSTRAINT & x.XML_WELLFORMEDNESS_CONSTRAINT & x.XML_NO_ATTR_REDEF_CONSTRAINT
    elif which == "rest":
        from isla_formalizations import rest
        grammar = rest.REST_GRAMMAR
        formula = (rest.LENGTH_UNDERLINE & rest.DEF_LINK_TARGETS & rest.NO_LINK_TARGET_REDEF
                   & rest.LIST_NUMBERING_CONSECUTIVE)
    elif which == "tar":
        from isla_formalizations import simple_tar
        grammar, formula = simple_tar.SIMPLE_TAR_GRAMMAR, simple_tar.TAR_CONSTRAINTS
    else:
        raise ValueError(which)
    kw = dict(max_number_free_instantiations=job["free"], max_number_smt_instantiations=job["smt"],
              enforce_unique_trees_in_queue=bool(job["unique"]), global_fuzzer=bool(job.get("global_fuzzer")))
    cost = job.get("cost")
    if cost is not None:
        ckw = {}
        if cost.get("reset"):
            ckw["reset_coverage_after_n_round_with_no_coverage"] = int(cost["reset"])
        kw["cost_computer"] = GrammarBasedBlackboxCostComputer(
            CostSettings(CostWeightVector(*[float(v) for v in cost["vec"]]), k=int(cost["k"])),
            gg.GrammarGraph.from_grammar(grammar), **ckw)
    if job.get("fuzzer") == "gf30":
        kw["fuzzer_factory"] = functools.partial(GrammarFuzzer, min_nonterminals=0, max_nonterminals=30)
    return ISLaSolver(grammar, formula, **kw)


def main():
    from vlib import env
    env.setup()
    import random
    job = json.load(sys.stdin)
    # self-destruct: if the parent dies before it can kill us, do not keep a core busy for ever
    import signal
    signal.signal(signal.SIGALRM, signal.SIG_DFL)
    signal.alarm(int(job.get("budget") or 120) + 30)
    labels = SPAN_LABELS[job["which"]]
    random.seed(job["rseed"])
    n = 0
    end = "COUNT"
    try:
        solver = build(job)
        while n < job["max"]:
            tree = solver.solve()
            s, spans = spans_of(tree, labels)
            if s != str(tree):
                sys.stdout.write(json.dumps({"end": "HARNESS:span walk and str(tree) differ: %r vs %r" % (s[:200], str(tree)[:200]), "n": n}) + "\n")
                sys.stdout.flush()
                return
            sys.stdout.write(json.dumps({"s": s, "spans": spans}) + "\n")
            sys.stdout.flush()
            n += 1
    except StopIteration:
        end = "STOP"
    except TimeoutError:
        end = "TIMEOUT"
    except BaseException as e:  # reported, judged by the parent
        end = "EXC:%s:%s" % (type(e).__name__, str(e)[:300])
    sys.stdout.write(json.dumps({"end": end, "n": n}) + "\n")
    sys.stdout.flush()


if __name__ == "__main__":
    main()
