"""Process environment: make sure `isla` is imported from the working tree under test."""
import os
import sys
import warnings

VERIF = os.path.dirname(os.path.dirname(os.path.abspath(__file__)))
REPO = os.environ.get("VERIF_REPO", "/repo")
DEPS = os.path.join(VERIF, ".deps")
WHEELS = "/opt/veriftools/wheels"


def ensure_deps():
    """hypothesis must be importable; install offline into /verif/.deps if it is not."""
    if os.path.isdir(DEPS) and DEPS not in sys.path:
        sys.path.append(DEPS)
    try:
        import hypothesis  # noqa
        return
    except ImportError:
        pass
    import subprocess
    os.makedirs(DEPS, exist_ok=True)
    subprocess.run([sys.executable, "-m", "pip", "install", "--quiet", "--no-index", "--find-links", WHEELS,
                    "--target", DEPS, "hypothesis"], check=False,
                   stdout=subprocess.DEVNULL, stderr=subprocess.DEVNULL)
    if DEPS not in sys.path:
        sys.path.append(DEPS)
    try:
        import hypothesis  # noqa
    except ImportError:
        print("HARNESS-ERROR: hypothesis not importable and offline install failed", file=sys.stderr)
        sys.exit(2)


def setup():
    warnings.filterwarnings("ignore")
    os.environ.setdefault("PYTHONWARNINGS", "ignore")
    src = os.path.join(REPO, "src")
    if src in sys.path:
        sys.path.remove(src)
    sys.path.insert(0, src)
    ensure_deps()
    import logging
    logging.disable(logging.CRITICAL)
    import isla
    if not os.path.abspath(isla.__file__).startswith(os.path.abspath(src) + os.sep):
        print("HARNESS-ERROR: isla imported from %s, expected under %s" % (isla.__file__, src), file=sys.stderr)
        sys.exit(2)
    # import the heavy modules now: a watchdog alarm that interrupts the FIRST import (seconds, under load) leaves
    # half-initialised modules in sys.modules and every later case of that worker fails
    import isla.solver  # noqa: F401  (pulls in language, evaluator, parser, z3, antlr4, ...)
    import isla.cli  # noqa: F401
    import isla.mutator  # noqa: F401
    sys.setrecursionlimit(20000)
    # the harness builds trees with small explicit node ids (1..n); ISLa's own id counter starts at 0 in a fresh
    # process, so nodes it creates next to them (insert_tree, count, repair) could collide with harness ids and trip
    # its "ids are disjoint" assertions -- an artefact of the harness, not of the code under test
    from isla.derivation_tree import DerivationTree
    DerivationTree.next_id = max(DerivationTree.next_id, 10 ** 7)
