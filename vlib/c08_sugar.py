"""C08 helper: the harness' own AST for ISLa's *simplified syntax*, its printer, the desugarer that
follows the specification text (sphinx/islaspec.rst, "Simplified Syntax" and "Propositional
Combinators"), and the generator.  Shares no code with /repo/src.

References (anything that may stand "where a variable may occur"):
  ["v", name]                         a named variable (also the constant "start")
  ["nt", "<T>"]                       a nonterminal used as a variable (bound by a quantifier without
                                      name, or free = universally closed)
  ["xp", head, [[axis, "<T>", idx|None], ...]]   XPath expression; head = ["v", ..] | ["nt", ..];
                                      axis "." (child; idx 1-based, None = omitted "[1]") or ".." (descendant)
Sugared SMT terms:
  ["ref", R] ["str", s] ["int", n]    (n < 0 is written as the literal -n)
  ["app", style, op, t1, ...]         style "s" (op t1 t2) | "p" op(t1, t2) | "i" t1 op t2
Sugared formulas:
  ["forall"|"exists", "<T>", name|None, inref|None, mexpr|None, body]
        name None = omitted bound-variable name, inref None = omitted "in start"
  ["and", ..] ["or", ..] ["not", f] ["implies", f, g] ["iff", f, g] ["xor", f, g]
  ["flat", f]                         print f (not/and/or over atoms) without the redundant parentheses
  ["pred", name, arg, ...]            arg = ["r", R] | ["s", text] | ["i", int]
  ["count", R, "<T>", ["s", "3"]]
  ["smt", term]
The desugarer returns formulas of vlib/fml.py (core ISLa).
"""
import itertools

from . import rt, fml
from .rt import is_nt
from .gen import chance, pick

INFIX_OPS = {"=", ">=", "<=", ">", "<", "*", "div", "mod", "+", "-", "str.++"}
PREFIX_OPS = {"str.len", "str.to.int", "str.prefixof", "str.suffixof", "str.contains", "abs", "str.at", "str.substr"}
PREC = {"str.++": 4, "*": 3, "div": 3, "mod": 3, "+": 2, "-": 2, "=": 1, ">=": 1, "<=": 1, ">": 1, "<": 1}


def _written_names(f):
    """every variable name that occurs in a sugared formula (binders, match-expression binds, references)"""
    out = set()

    def walk(x):
        if isinstance(x, (list, tuple)):
            if len(x) >= 2 and x[0] == "v" and isinstance(x[1], str):
                out.add(x[1])
            if len(x) >= 3 and x[0] == "bind" and isinstance(x[2], str):
                out.add(x[2])
            if len(x) >= 6 and x[0] in ("forall", "exists") and isinstance(x[2], str):
                out.add(x[2])
            for y in x:
                walk(y)

    walk(f)
    return out


class NotPinned(Exception):
    """the specification does not determine a translation for this sugared formula"""


# ------------------------------------------------------------------ printing (sugared concrete syntax)

def ref_str(r):
    if r[0] == "v":
        return r[1]
    if r[0] == "nt":
        return r[1]
    if r[0] == "xp":
        out = ref_str(r[1])
        for axis, T, idx in r[2]:
            out += axis + T + ("" if idx is None else "[%d]" % idx)
        return out
    raise ValueError(r)


def sterm_str(t, ctx=0):
    """ctx: binding strength required by the context (infix operands)"""
    k = t[0]
    if k == "ref":
        return ref_str(t[1])
    if k == "str":
        return fml.lit(t[1])
    if k == "int":
        return str(t[1])
    if k == "app":
        _, style, op = t[:3]
        args = t[3:]
        if style == "s":
            return "(" + op + " " + " ".join(sterm_str(a) for a in args) + ")"
        if style == "p":
            return op + "(" + ", ".join(sterm_str(a) for a in args) + ")"
        if style == "i":
            p = PREC[op]
            # left operand may have the same strength (left-associative), right operand must bind tighter
            return sterm_str(args[0], p) + " " + op + " " + sterm_str(args[1], p + 1)
    raise ValueError(t)


def infix_ok(t, need=0, right=False):
    """can this term be printed without parentheses in a context that needs binding strength `need`?
    (ISLa's sexpr rule has no parenthesised sub-expression: '(' sexpr sexpr+ ')' is an application.)"""
    if t[0] != "app" or t[1] != "i":
        if t[0] == "app":
            return all(infix_ok(a) for a in t[3:])
        return True
    p = PREC[t[2]]
    if p < need:
        return False
    return infix_ok(t[3], p) and infix_ok(t[4], p + 1)


def xp_key(r):
    """identity of an XPath expression: `x.<a>` and `x.<a>[1]` are the same expression"""
    return (ref_str(r[1]), tuple((a, T, 1 if (i is None and a == ".") else i) for a, T, i in r[2]))


def sarg_str(a):
    if a[0] == "r":
        return ref_str(a[1])
    if a[0] == "s":
        return fml.lit(a[1])
    return str(a[1])


def _is_atom(f):
    return f[0] in ("smt", "pred", "count")


def _flat_str(f):
    """precedence-based printing for not/and/or over atoms: not > and > or"""
    k = f[0]
    if _is_atom(f):
        return pr_sugar(f)
    if k == "not":
        return "not " + (pr_sugar(f[1]) if _is_atom(f[1]) else "(" + _flat_str(f[1]) + ")")
    if k == "and":
        return " and ".join(_flat_str(x) if (x[0] == "not" or _is_atom(x)) else "(" + _flat_str(x) + ")" for x in f[1:])
    if k == "or":
        return " or ".join(_flat_str(x) if x[0] in ("not", "and") or _is_atom(x) else "(" + _flat_str(x) + ")" for x in f[1:])
    return "(" + pr_sugar(f) + ")"


def pr_sugar(f):
    k = f[0]
    if k in ("forall", "exists"):
        _, T, v, inr, mx, body = f
        s = k + " " + T
        if v is not None:
            s += " " + v
        if mx is not None:
            s += '="' + fml.mexpr_str(mx) + '"'
        if inr is not None:
            s += " in " + ref_str(inr)
        return s + ": (" + pr_sugar(body) + ")"
    if k in ("and", "or"):
        return "(" + (" %s " % k).join(pr_sugar(x) for x in f[1:]) + ")"
    if k in ("implies", "iff", "xor"):
        return "(%s %s %s)" % (pr_sugar(f[1]), k, pr_sugar(f[2]))
    if k == "not":
        return "not (%s)" % pr_sugar(f[1])
    if k == "flat":
        return "(" + _flat_str(f[1]) + ")"
    if k == "pred":
        return "%s(%s)" % (f[1], ", ".join(sarg_str(a) for a in f[2:]))
    if k == "count":
        return 'count(%s, "%s", %s)' % (ref_str(f[1]), f[2], sarg_str(f[3]))
    if k == "smt":
        return sterm_str(f[1])
    raise ValueError(k)


# ------------------------------------------------------------------ traversal helpers

def sub_formulas(f):
    yield f
    k = f[0]
    if k in ("forall", "exists"):
        yield from sub_formulas(f[5])
    elif k in ("and", "or", "not", "implies", "iff", "xor", "flat"):
        for x in f[1:]:
            yield from sub_formulas(x)


def term_refs(t, acc):
    if t[0] == "ref":
        acc.append(t[1])
    elif t[0] == "app":
        for a in t[3:]:
            term_refs(a, acc)
    return acc


def atom_refs(f):
    """references used by an atom"""
    if f[0] == "smt":
        return term_refs(f[1], [])
    if f[0] == "pred":
        return [a[1] for a in f[2:] if a[0] == "r"]
    if f[0] == "count":
        return [f[1]]
    return []


def all_refs(f):
    out = []
    for x in sub_formulas(f):
        if _is_atom(x):
            out.extend(atom_refs(x))
        elif x[0] in ("forall", "exists") and x[3] is not None:
            out.append(x[3])
    return out


def map_refs(f, fn):
    """rebuild f with every reference r replaced by fn(r)"""
    k = f[0]
    if k in ("forall", "exists"):
        return [k, f[1], f[2], None if f[3] is None else fn(f[3]), f[4], map_refs(f[5], fn)] + list(f[6:])
    if k in ("and", "or", "not", "implies", "iff", "xor", "flat"):
        return [k] + [map_refs(x, fn) for x in f[1:]]
    if k == "smt":
        return ["smt", map_term(f[1], fn)]
    if k == "pred":
        return ["pred", f[1]] + [["r", fn(a[1])] if a[0] == "r" else a for a in f[2:]]
    if k == "count":
        return ["count", fn(f[1]), f[2], f[3]]
    return f


def map_term(t, fn):
    if t[0] == "ref":
        return ["ref", fn(t[1])]
    if t[0] == "app":
        return t[:3] + [map_term(a, fn) for a in t[3:]]
    return t


def rename_const(F, cname):
    """the sugared formula with the constant `start` called `cname` (for `const cname: <start>; ...`)"""
    def fn(r):
        if r == ["v", "start"]:
            return ["v", cname]
        if r[0] == "xp":
            return ["xp", fn(r[1]), r[2]]
        return r
    return map_refs(F, fn)


def rename_core_var(f, old, new):
    """core formula (vlib/fml.py) with the free variable `old` renamed"""
    k = f[0]
    if k in ("forall", "exists"):
        return [k, f[1], f[2], new if f[3] == old else f[3], f[4], rename_core_var(f[5], old, new)]
    if k in ("and", "or", "not"):
        return [k] + [rename_core_var(x, old, new) for x in f[1:]]
    if k == "smt":
        def rt_(t):
            if t[0] == "var":
                return ["var", new if t[1] == old else t[1]]
            if t[0] in ("str", "int"):
                return t
            return [t[0]] + [rt_(a) for a in t[1:]]
        return ["smt", rt_(f[1])]
    if k == "pred":
        return ["pred", f[1]] + [["v", new] if a == ["v", old] else a for a in f[2:]]
    if k == "count":
        return ["count", new if f[1] == old else f[1], f[2], f[3]]
    return f


def plain_term(t):
    """sugared term -> fml term with every reference as an opaque variable named by its text"""
    if t[0] == "ref":
        return ["var", ref_str(t[1])]
    if t[0] == "app":
        return [t[2]] + [plain_term(a) for a in t[3:]]
    return t


def map_atoms(f, fn):
    k = f[0]
    if k in ("forall", "exists"):
        return f[:5] + [map_atoms(f[5], fn)] + list(f[6:])
    if k in ("and", "or", "not", "implies", "iff", "xor", "flat"):
        return [k] + [map_atoms(x, fn) for x in f[1:]]
    return fn(f)


# ------------------------------------------------------------------ desugaring (the specification's translation)

class Desugarer:
    """Translation of a sugared formula to core ISLa as the specification words it.

    1. omitted `in start`  -> `in start`                                  ("Omission of in start")
    2. `Q <T>: phi`        -> `Q <T> name in ..: phi'` with a fresh name, the occurrences of <T> in phi
                              replaced by name                           ("Omission of Bound Variable Names")
    3. unbound <T>         -> outermost `forall <T> name in start:`       ("Free Nonterminals")
    4. xor / implies / iff -> the three expansions of "Propositional Combinators"
    5. XPath: the child steps following a variable x become match expressions of x's own quantifier, a
       conjunction (forall) / disjunction (exists) over the expansion alternatives that contain the
       addressed children; every `..<T>` step becomes a universal quantifier over <T> "inside the already
       added one", i.e. directly inside the quantifier that binds the variable left of `..`, around that
       quantifier's whole body                                            ("X-Path Expressions")
    6. prefix / infix operator notation -> S-expressions; the literal -n -> (- n)

    `pushed`: the set of introduced universal quantifiers (by index) that are, instead of being left where
    the specification puts them, moved inwards across `and` (dropping conjuncts that do not mention the
    variable), across `or` with independent disjuncts and across `forall` -- which is what the implementation
    documents for itself (univ_close_over_var_push_in).  Only the first of these steps can change a verdict,
    and only if the quantifier's domain is empty; the check uses the variants to recognise such pairs.
    """

    def __init__(self, cg, max_alts=6):
        self.cg = cg
        self.max_alts = max_alts
        self.cnt = 0
        self.n_intro = 0
        self.unprintable = False

    def fresh(self, p):
        # invented names avoid every name written in the sugared formula (a match-expression variable may well be
        # called n1: nonterminals of random grammars are <n0>, <n1>, ...)
        while True:
            self.cnt += 1
            name = "%s%d" % (p, self.cnt)
            if name not in getattr(self, "taken", ()):
                return name

    # -- steps 1-3
    def resolve(self, f, env):
        k = f[0]
        if k in ("forall", "exists"):
            _, T, v, inr, mx, body = f
            inr2 = ["v", "start"] if inr is None else self.res_ref(inr, env)
            env2 = env
            if v is None:
                v = self.fresh("n")
                env2 = dict(env)
                env2[T] = v
            return [k, T, v, inr2, mx, self.resolve(body, env2)]
        if k == "flat":
            return self.resolve(f[1], env)
        if k in ("and", "or", "not", "implies", "iff", "xor"):
            return [k] + [self.resolve(x, env) for x in f[1:]]
        return map_refs(f, lambda r: self.res_ref(r, env))

    def res_ref(self, r, env):
        if r[0] == "v":
            return r
        if r[0] == "nt":
            T = r[1]
            if T in env:
                return ["v", env[T]]
            if T not in self.free:
                self.free[T] = self.fresh("n")
            return ["v", self.free[T]]
        if r[0] == "xp":
            return ["xp", self.res_ref(r[1], env), r[2]]
        raise ValueError(r)

    # -- step 4
    def connectives(self, f):
        k = f[0]
        if k in ("forall", "exists"):
            return f[:5] + [self.connectives(f[5])] + f[6:]
        if k in ("and", "or", "not"):
            return [k] + [self.connectives(x) for x in f[1:]]
        if k in ("implies", "iff", "xor"):
            A, B = self.connectives(f[1]), self.connectives(f[2])
            if k == "xor":      # (A and (not B)) or (B and (not A))
                return ["or", ["and", A, ["not", B]], ["and", B, ["not", A]]]
            if k == "implies":  # (not A) or B
                return ["or", ["not", A], B]
            return ["or", ["and", A, B], ["and", ["not", A], ["not", B]]]  # (A and B) or ((not A) and (not B))
        return f

    # -- step 5
    def expand(self, T, trie):
        """match expressions (element lists) for a <T> node whose addressed children are given by
        trie = {(label, idx): [var|None, subtrie]}; one per combination of expansion alternatives"""
        res = []
        for alt in self.cg[T]:
            if not all(sum(1 for s in alt if s == lab) >= idx for lab, idx in trie):
                continue
            per = []
            seen = {}
            for sym in alt:
                seen[sym] = seen.get(sym, 0) + 1
                key = (sym, seen[sym])
                if is_nt(sym) and key in trie:
                    var, kids = trie[key]
                    if kids:
                        if var is not None:
                            raise NotPinned("one XPath expression addresses a node below the node of another")
                        per.append(self.expand(sym, kids))
                    else:
                        per.append([[["bind", sym, var]]])
                elif is_nt(sym):
                    per.append([[["nt", sym]]])
                else:
                    if not set(sym) <= fml.SAFE_MEXPR_CHARS:
                        self.unprintable = True
                    per.append([[["text", sym]]])
            for combo in itertools.product(*per):
                elems = []
                for part in combo:
                    for e in part:
                        if e[0] == "text" and elems and elems[-1][0] == "text":
                            elems[-1] = ["text", elems[-1][1] + e[1]]
                        else:
                            elems.append(list(e))
                res.append(elems)
                if len(res) > self.max_alts:
                    raise NotPinned("too many expansion alternatives")
        return res

    @staticmethod
    def split_segments(steps):
        """[first-segment child steps], [(T, [child steps]), ...] for the `..` segments"""
        first, rest = [], []
        cur = first
        for axis, T, idx in steps:
            if axis == "..":
                cur = []
                rest.append((T, cur))
            else:
                cur.append((T, 1 if idx is None else idx))
        return first, rest

    def quantifier_with_paths(self, q, T, v, inv, paths, body, intro):
        """[q T v="mexpr_i" in inv: body] for every alternative, combined by and/or; paths: {path tuple: var}"""
        if not paths:
            node = [q, T, v, inv, None, body]
            if intro is not None:
                node.append(intro)
            return node
        trie = {}
        for path, var in paths.items():
            cur = trie
            for i, st in enumerate(path):
                ent = cur.setdefault(st, [None, {}])
                if i == len(path) - 1:
                    if ent[0] is not None or ent[1]:
                        raise NotPinned("two XPath expressions address the same or nested nodes")
                    ent[0] = var
                else:
                    if ent[0] is not None:
                        raise NotPinned("one XPath expression addresses a node below the node of another")
                    cur = ent[1]
        alts = self.expand(T, trie)
        if not alts:
            raise NotPinned("no expansion alternative contains the addressed children")
        nodes = []
        for mx in alts:
            node = [q, T, v, inv, mx, body]
            if intro is not None:
                node.append(intro)
            nodes.append(node)
        if len(nodes) == 1:
            return nodes[0]
        return [("and" if q == "forall" else "or")] + nodes

    def eliminate_at(self, heads, body):
        """handle all XPath expressions in `body` whose head is one of `heads` (the variables bound by one
        quantifier).  Returns (paths for the quantifier's own variable: {head: {path: var}}, new body)."""
        exprs = {}
        for r in all_refs(body):
            if r[0] == "xp" and r[1][0] == "v" and r[1][1] in heads:
                exprs.setdefault(xp_key(r), r)
        if not exprs:
            return {}, body
        head_paths = {}
        final = {}
        chains = []
        for e in exprs.values():
            h = e[1][1]
            first, rest = self.split_segments(e[2])
            cur = h
            if first:
                y = head_paths.setdefault(h, {}).get(tuple(first)) or self.fresh("x")
                head_paths[h][tuple(first)] = y
                cur = y
            if rest:
                chains.append((cur, rest, e))
            else:
                final[xp_key(e)] = cur
        # `..` segments: universal quantifiers directly inside the binding quantifier, around its whole body
        wrappers = []
        for cur, rest, e in chains:
            ws = []
            for (T, steps) in rest:
                z = self.fresh("d")
                paths = {}
                nxt = z
                if steps:
                    y = self.fresh("x")
                    paths[tuple(steps)] = y
                    nxt = y
                ws.append((T, z, cur, paths))
                cur = nxt
            final[xp_key(e)] = cur
            wrappers.append(ws)

        def subst(r):
            if r[0] == "xp" and r[1][0] == "v" and xp_key(r) in final:
                return ["v", final[xp_key(r)]]
            return r

        body = map_refs(body, subst)
        for ws in wrappers:
            for (T, z, inv, paths) in reversed(ws):
                self.n_intro += 1
                body = self.quantifier_with_paths("forall", T, z, ["v", inv], paths, body, ("intro", self.n_intro))
        return head_paths, body

    def xpaths(self, f):
        k = f[0]
        if k in ("forall", "exists"):
            T, v, inv, mx, body = f[1:6]
            intro = f[6] if len(f) > 6 else None
            body = self.xpaths(body)
            heads = [v] + ([x for x, _ in fml.mexpr_vars(mx)] if mx else [])
            head_paths, body = self.eliminate_at(heads, body)
            for h in head_paths:
                if h != v:
                    raise NotPinned("child step on a variable bound inside a match expression")
            paths = head_paths.get(v, {})
            if paths and mx is not None:
                raise NotPinned("child step on a variable whose quantifier already has a match expression")
            if not paths:
                return [k, T, v, inv, mx, body] + ([intro] if intro else [])
            return self.quantifier_with_paths(k, T, v, inv, paths, body, intro)
        if k in ("and", "or", "not"):
            return [k] + [self.xpaths(x) for x in f[1:]]
        return f

    # -- the `pushed` variants
    def push(self, node, pushed):
        k = node[0]
        if k in ("forall", "exists"):
            body = self.push(node[5], pushed)
            if len(node) > 6 and node[6][1] in pushed and k == "forall":
                return self.push_in(node[:5], body)
            return node[:5] + [body]
        if k in ("and", "or", "not"):
            return [k] + [self.push(x, pushed) for x in node[1:]]
        return node

    def push_in(self, q, f):
        """q = ["forall", T, v, inv, mx]; f already in final form"""
        bound = {q[2]} | ({x for x, _ in fml.mexpr_vars(q[4])} if q[4] else set())

        def dep(g):
            return bool(bound & fml.free_uses(g))

        if not dep(f):
            return f
        k = f[0]
        if k == "and":
            return ["and"] + [self.push_in(q, x) if dep(x) else x for x in f[1:]]
        if k == "or":
            deps = [x for x in f[1:] if dep(x)]
            if len(deps) == 1:
                return ["or"] + [self.push_in(q, x) if dep(x) else x for x in f[1:]]
            if len(deps) < len(f) - 1:
                return ["or"] + [x for x in f[1:] if not dep(x)] + [q + [["or"] + deps]]
            return q + [f]
        if k == "forall" and f[3] not in bound:
            return f[:5] + [self.push_in(q, f[5])]
        return q + [f]

    # -- step 6
    def core_term(self, t):
        k = t[0]
        if k == "ref":
            if t[1][0] != "v":
                raise NotPinned("unresolved reference %r" % (t[1],))
            return ["var", t[1][1]]
        if k in ("str", "int"):
            return t
        return [t[2]] + [self.core_term(a) for a in t[3:]]

    def core(self, f):
        k = f[0]
        if k in ("forall", "exists"):
            inv = f[3]
            if inv[0] != "v":
                raise NotPinned("XPath expression as container of a quantifier")
            return [k, f[1], f[2], inv[1], f[4], self.core(f[5])] + list(f[6:])
        if k in ("and", "or", "not"):
            return [k] + [self.core(x) for x in f[1:]]
        if k == "smt":
            return ["smt", self.core_term(f[1])]
        if k == "pred":
            out = ["pred", f[1]]
            for a in f[2:]:
                if a[0] == "r":
                    if a[1][0] != "v":
                        raise NotPinned("unresolved reference %r" % (a[1],))
                    out.append(["v", a[1][1]])
                else:
                    out.append(a)
            return out
        if k == "count":
            if f[1][0] != "v":
                raise NotPinned("unresolved reference")
            return ["count", f[1][1], f[2], f[3]]
        if k in ("true", "false"):
            return f
        raise ValueError(k)

    def propagate(self, f):
        """constant propagation through not/and/or (quantifiers are kept)"""
        k = f[0]
        if k in ("forall", "exists"):
            return f[:5] + [self.propagate(f[5])] + list(f[6:])
        if k == "not":
            x = self.propagate(f[1])
            if x[0] in ("true", "false"):
                return ["false"] if x[0] == "true" else ["true"]
            return ["not", x]
        if k in ("and", "or"):
            unit, zero = ("true", "false") if k == "and" else ("false", "true")
            xs = []
            for x in f[1:]:
                x = self.propagate(x)
                if x[0] == zero:
                    return [zero]
                if x[0] != unit and x not in xs:      # A and A = A
                    xs.append(x)
            for x in xs:                              # A and not A = false, A or not A = true
                if ["not", x] in xs:
                    return [zero]
            if not xs:
                return [unit]
            return xs[0] if len(xs) == 1 else [k] + xs
        return f

    def fold_atoms(self, f, mode, const_of, neg=False):
        """replace SMT atoms that fold to a constant.  const_of(term) -> (value if the atom itself simplifies to a
        constant, value if its negation does); mode "all": every such atom, mode "neg": only occurrences below an odd
        number of negations (the parser simplifies an atom only when it negates it)"""
        k = f[0]
        if k in ("forall", "exists"):
            return f[:5] + [self.fold_atoms(f[5], mode, const_of, neg)] + list(f[6:])
        if k == "not":
            return ["not", self.fold_atoms(f[1], mode, const_of, not neg)]
        if k in ("and", "or"):
            return [k] + [self.fold_atoms(x, mode, const_of, neg) for x in f[1:]]
        if k == "smt":
            pos, ng = const_of(f[1])
            val = (pos if pos is not None else ng) if mode == "all" else (ng if neg else None)
            if val is not None:
                return ["true"] if val else ["false"]
        return f

    def run(self, F, fold=None, const_of=None):
        """returns the annotated translation (introduced quantifiers carry a 7th element ("intro", i))"""
        self.free = {}
        self.taken = _written_names(F)
        f = self.resolve(F, {})
        for T in sorted(self.free, reverse=True):
            self.n_intro += 1
            f = ["forall", T, self.free[T], ["v", "start"], None, f, ("intro", self.n_intro)]
        f = self.connectives(f)
        if fold:
            f = self.propagate(self.fold_atoms(f, fold, const_of))
        f = self.xpaths(f)
        # XPath expressions on the constant: only `start..<T>` has a documented translation
        head_paths, f = self.eliminate_at(["start"], f)
        if head_paths:
            raise NotPinned("child step on the constant (there is no quantifier to carry the match expression)")
        return self.core(f)

    def nnf(self, f, neg=False):
        """negation normal form of a core formula (the parser normalises negations while reading, so the
        documented pushing-inwards acts on this form); annotations are kept"""
        k = f[0]
        if k == "not":
            return self.nnf(f[1], not neg)
        if k in ("and", "or"):
            kk = k if not neg else ("or" if k == "and" else "and")
            return [kk] + [self.nnf(x, neg) for x in f[1:]]
        if k in ("forall", "exists"):
            kk = k if not neg else ("exists" if k == "forall" else "forall")
            return [kk] + f[1:5] + [self.nnf(f[5], neg)] + list(f[6:])
        if k in ("true", "false"):
            return f if not neg else [("false" if k == "true" else "true")]
        return ["not", f] if neg else f

    def variant(self, annotated, pushed=()):
        if not pushed:
            return self.push(annotated, set())
        return self.push(self.nnf(annotated), set(pushed))


def desugar(cg, F, max_variants=8, fold=None, const_of=None):
    """returns dict: core (the specification's placement), variants (list of core ASTs with introduced
    quantifiers pushed inwards), n_intro, printable.  fold: propagate the constants true/false first (used for
    the reading in which constant atoms are folded away before the free nonterminals are closed)"""
    d = Desugarer(cg)
    ann = d.run(F, fold, const_of)
    n = d.n_intro
    core = d.variant(ann)
    subsets = []
    if n:
        subsets.append(tuple(range(1, n + 1)))
        if 1 < n <= max_variants:
            subsets.extend((i,) for i in range(1, n + 1))
    variants = []
    for s in subsets:
        v = d.variant(ann, s)
        if v != core and v not in variants:
            variants.append(v)
    return {"core": core, "variants": variants, "n_intro": n, "printable": not d.unprintable}


# ------------------------------------------------------------------ feature labels and failure diagnosis

def _base(T):
    return T[1:-1]


def features(F):
    """(labels, causes): the sugar features used (class labels), and the structural shapes that explain a
    rejection by the parser: cause -> set of variable base names the parser would report as unbound.

    Polarity matters for the diagnosis because the parser builds negation normal form while reading:
    a quantifier below a negation (or on the left of `implies`, or anywhere below iff/xor) is
    *effectively* of the other kind."""
    fs = set()
    causes = {}

    def cause(c, *names):
        causes.setdefault(c, set()).update(names)

    seen_free = set()
    plain_free = set()
    head_free = set()
    xp_by_head = {}
    free_heads_seen = set()
    dd_child = {}
    closed_unnamed_xp = {}  # type of an unnamed quantifier (scope over) with XPath expressions on it -> their variable names
    dup_omitted = set()   # types of unnamed quantifiers below iff/xor (duplicated and renamed by the parser)
    xp_final_types = set()
    bound_names = {}      # variable name -> number of quantifiers binding it
    xp_head_names = set()
    registered = set()    # nonterminals that currently have a variable in the parser's free-nonterminal table
    xp_named = set()      # nonterminals whose plain name was taken by the variable of an XPath expression
    xp_seen = set()

    def register_free(T):
        seen_free.add(T)
        if T not in registered:
            registered.add(T)
            if T in closed_unnamed_xp:
                # the new variable gets the invented name the unnamed quantifier's variable had
                fs.add("xp_head_name_reused")
                cause("xp_head_name_reused", _base(T), *closed_unnamed_xp[T])
            if T in xp_named:
                fs.add("free_after_xpath_same_type")
                cause("free_after_xpath_same_type", _base(T))

    def walk(f, env, binders, pol, blocked):
        k = f[0]
        if k in ("forall", "exists"):
            _, T, v, inr, mx, body = f
            if inr is None:
                fs.add("in_start_omitted")
            elif inr[0] == "nt":
                fs.add("in_nonterminal")
            if mx is not None:
                fs.add("user_mexpr")
            eff = k if pol == 1 else ({"forall": "exists", "exists": "forall"}[k] if pol == -1 else "both")
            info = {"kind": k, "eff": eff, "pol": pol, "blocked": blocked or eff != "forall"}
            env2, b2 = env, dict(binders)
            if v is None:
                fs.add("name_omitted")
                env2 = dict(env)
                env2[T] = info
                if T in free_heads_seen:
                    # XPath expressions headed by the (so far free) nonterminal are re-rooted at this quantifier's variable
                    fs.add("free_head_before_omitted")
                    cause("free_head_before_omitted", _base(T))
                if T in closed_unnamed_xp:
                    fs.add("xp_head_name_reused")
                    cause("xp_head_name_reused", _base(T), *closed_unnamed_xp[T])
                if T in seen_free:
                    fs.add("free_before_omitted")
                    cause("free_before_omitted", _base(T))
                if T == "<start>":
                    cause("start_omitted_name")
                if pol == 0:
                    dup_omitted.add(T)
                registered.add(T)
            else:
                b2[v] = info
                bound_names[v] = bound_names.get(v, 0) + 1
                if bound_names[v] > 1:
                    fs.add("name_reused")
            for x, _ in (fml.mexpr_vars(mx) if mx else []):
                b2[x] = info
            walk(body, env2, b2, pol, info["blocked"])
            if v is None:
                registered.discard(T)
                if info.get("xp_names"):
                    closed_unnamed_xp.setdefault(T, set()).update(info["xp_names"])
            # the parser looks at the container after the body
            if inr is not None:
                ref(inr, env, binders, pol, blocked, "in")
        elif k in ("and", "or", "flat"):
            if k == "flat":
                fs.add("precedence")
            for x in f[1:]:
                walk(x, env, binders, pol, blocked)
        elif k == "not":
            walk(f[1], env, binders, -pol, blocked)
        elif k == "implies":
            fs.add("conn:implies")
            walk(f[1], env, binders, -pol, blocked)
            walk(f[2], env, binders, pol, blocked)
        elif k in ("iff", "xor"):
            fs.add("conn:" + k)
            walk(f[1], env, binders, 0, blocked)
            walk(f[2], env, binders, 0, blocked)
        elif k == "smt":
            term(f[1])
            for r in term_refs(f[1], []):
                ref(r, env, binders, pol, blocked, "smt")
        elif k == "pred":
            for a in f[2:]:
                if a[0] == "r":
                    ref(a[1], env, binders, pol, blocked, "pred")
        elif k == "count":
            ref(f[1], env, binders, pol, blocked, "pred")

    def term(t):
        if t[0] == "int" and t[1] < 0:
            fs.add("neg_literal")
        if t[0] == "app":
            fs.add({"s": "sexpr", "p": "prefix", "i": "infix"}[t[1]])
            if t[1] == "i" and any(a[0] == "app" and a[1] == "i" for a in t[3:]):
                fs.add("infix_nested")
            for a in t[3:]:
                term(a)

    def ref(r, env, binders, pol, blocked, where):
        if r[0] == "nt":
            T = r[1]
            if T in env:
                fs.add("omitted_name_use")
            else:
                fs.add("free_nt")
                register_free(T)
                plain_free.add(T)
                if where == "pred":
                    fs.add("free_nt_in_pred")
                if blocked:
                    fs.add("free_nt_under_exists")
                if T == "<start>":
                    fs.add("free_start")
        elif r[0] == "xp":
            h = r[1]
            steps = r[2]
            first, rest = Desugarer.split_segments(steps)
            if where == "pred":
                fs.add("xp_in_pred")
            info = None
            names = []
            if h[0] == "nt":
                if h[1] in env:
                    info = env[h[1]]
                    fs.add("xp_head:omitted_" + info["kind"])
                    names = [_base(h[1])]
                    info.setdefault("xp_keys", set()).add(xp_key(r))
                    if len(info["xp_keys"]) >= 2:
                        fs.add("unnamed_binder_two_xpaths")
                    info.setdefault("xp_names", set()).update(
                        {_base(steps[-1][1])} | ({_base(first[-1][0])} if first else set()))
                else:
                    fs.add("xp_head:free")
                    fs.add("free_nt")
                    register_free(h[1])
                    head_free.add(h[1])
                    free_heads_seen.add(h[1])
                    if blocked:
                        fs.add("free_nt_under_exists")
                    if h[1] == "<start>":
                        fs.add("free_start")
                        if first:
                            cause("free_start_child", _base(first[-1][0]))
                hid = "nt:" + h[1]
            else:
                if h[1] == "start":
                    fs.add("xp_head:start")
                    cause("dd_on_start")
                else:
                    info = binders.get(h[1])
                    fs.add("xp_head:" + (info["kind"] if info else "?"))
                    names = [h[1]]
                    xp_head_names.add((h[1], _base(steps[-1][1]), _base(first[-1][0]) if first else h[1]))
                hid = "v:" + h[1]
            xp_by_head.setdefault(hid, set()).add(xp_key(r))
            xp_final_types.add(steps[-1][1])
            for j, st in enumerate(steps[:-1]):
                if st[0] == ".." and steps[j + 1][0] == ".":
                    dd_child.setdefault(st[1], set()).add(xp_key(r))
                    if len(dd_child[st[1]]) >= 2:
                        fs.add("two_dd_child_same_type")
            if xp_key(r) not in xp_seen:
                xp_seen.add(xp_key(r))
                if steps[-1][1] not in registered:
                    xp_named.add(steps[-1][1])
            if first:
                fs.add("xp_child")
                names = [_base(first[-1][0])]
                if info is not None and info["pol"] == 0:
                    fs.add("xp_binder_under_iff_xor")
                    cause("xp_binder_under_iff_xor", *names)
            if any(s[2] is not None for s in steps):
                fs.add("xp_index")
            if any(s[2] is not None and s[2] > 1 for s in steps):
                fs.add("xp_index>1")
            if len(first) >= 2:
                fs.add("xp_multistep")
            if rest:
                fs.add("xp_dd")
                if first:
                    fs.add("xp_child_then_dd")
                if len(rest) >= 2:
                    fs.add("xp_dd_dd")
                    cause("multi_segment")
                if any(st for _, st in rest):
                    fs.add("xp_child_after_dd")
                    cause("multi_segment")
                if info is not None:
                    if info["blocked"]:
                        fs.add("xp_dd_below_exists")
                        cause("dd_below_exists", *names)
                    elif info["pol"] != 1:
                        fs.add("xp_dd_negated_binder")
                        cause("dd_negated_binder")

    walk(F, {}, {}, 1, False)
    for hid, es in xp_by_head.items():
        if len(es) >= 2:
            fs.add("xp_two_on_var")
    for n, last, mid in xp_head_names:
        if bound_names.get(n, 0) > 1:
            fs.add("xp_head_name_reused")
            cause("xp_head_name_reused", last, mid, n)
    for T in dup_omitted & xp_final_types:
        # the renamed copy of the unnamed quantifier (<T> -> T_0) can capture the still free XPath variable T_0
        fs.add("dup_unnamed_binder_and_xpath_of_type")
        cause("dup_binder_captures_xpath_var", _base(T))
    for T in head_free & plain_free:
        fs.add("free_plain_and_head")
        cause("free_plain_and_head", _base(T))
    if len(seen_free) >= 2:
        fs.add("free_nt_several")
    return fs, causes


def merge_risk(cg, F):
    """some variable is head of two XPath expressions with different child paths, and not every step label occurs in
    exactly one expansion alternative of its parent: the two sets of match expressions do not pin the same expansions
    (the mergeability precondition of the implementation)"""
    types = {"start": "<start>"}
    for x in sub_formulas(F):
        if x[0] in ("forall", "exists"):
            if x[2] is not None:
                types[x[2]] = x[1]
            for v, t in (fml.mexpr_vars(x[4]) if x[4] else []):
                types[v] = t
    by = {}
    for r in all_refs(F):
        if r[0] != "xp":
            continue
        T = r[1][1] if r[1][0] == "nt" else types.get(r[1][1])
        first, _ = Desugarer.split_segments(r[2])
        if T is None or not first:
            continue
        by.setdefault((ref_str(r[1]), T), set()).add(tuple(first))
    for (_, T), paths in by.items():
        if len(paths) < 2:
            continue
        for path in paths:
            cur = T
            for lab, _ in path:
                if sum(1 for a in cg.get(cur, []) if lab in a) != 1:
                    return True
                cur = lab
    return False


RESERVED_NAMES = {"forall", "exists", "in", "int", "const", "and", "or", "not", "implies", "iff", "xor", "true", "false", "start", "div", "mod", "abs"}
SUGAR_FEATURES = ("in_start_omitted", "name_omitted", "free_nt", "xp_child", "xp_dd", "infix", "prefix", "neg_literal",
                  "conn:implies", "conn:iff", "conn:xor", "precedence", "in_nonterminal")


# ------------------------------------------------------------------ generator

class SGen:
    """random sugared formulas; every sugar feature is drawn independently of the others"""

    def __init__(self, rnd, cg, lits, opts=None, is_const=None):
        self.rnd, self.cg = rnd, cg
        self.is_const = is_const
        self.R = rt.reach(cg)
        o = dict(p_omit_in=0.6, p_omit_name=0.3, p_free=0.22, p_xp=0.4, p_dd=0.3, p_user_mexpr=0.08, p_multiseg=0.2, p_pair=0.09, p_pair_unnamed=0.4,
                 p_start_dd=0.03, p_conflict=0.08, p_in_nt=0.12, p_neg=0.25, p_flat=0.35, p_forall=0.55,
                 p_known_shape=0.12, p_free_start=0.04, p_reuse_name=0.5,
                 connectives=("and", "or", "not", "implies", "iff", "xor"))
        o.update(opts or {})
        self.o = o
        self.fg = fml.FGen(rnd, cg, lits, dict(count=True, preds=True, nth_level=True,
                                               smt_ops=("eq", "eq", "eqv", "len", "len", "toint", "arith", "arith", "prefix")))
        self.cnt = 0
        self.paths = {}       # head id -> committed [(steps, first_len, uniq)]
        self.free_plain = set()
        self.free_head = set()
        self.closed = []      # (name, type) of quantifiers whose scope is over

    def fresh(self):
        self.cnt += 1
        return "v%d" % self.cnt

    # ---- XPath construction
    def unique_alt(self, P, lab):
        return sum(1 for a in self.cg[P] if lab in a) == 1

    def child_step(self, cur):
        cands = [(a, i) for a in self.cg[cur] for i, s in enumerate(a) if is_nt(s)]
        if not cands:
            return None
        a, i = pick(self.rnd, cands)
        lab = a[i]
        idx = sum(1 for s in a[:i + 1] if s == lab)
        return lab, idx

    def mk_steps(self, T, allow_child=True, allow_dd=True):
        rnd, o = self.rnd, self.o
        steps = []
        cur = T
        uniq = True
        nchild = pick(rnd, [1, 1, 1, 2, 2, 3, 0]) if allow_child else 0
        for _ in range(nchild):
            st = self.child_step(cur)
            if st is None:
                break
            lab, idx = st
            uniq = uniq and self.unique_alt(cur, lab)
            steps.append([".", lab, None if idx == 1 and chance(rnd, 0.7) else idx])
            cur = lab
        first_len = len(steps)
        if allow_dd and (not steps or chance(rnd, o["p_dd"])) and self.R[cur]:
            D = pick(rnd, sorted(self.R[cur]))
            steps.append(["..", D, None])
            cur = D
            if chance(rnd, o["p_multiseg"]):
                st = self.child_step(cur)
                if chance(rnd, 0.5) and self.R[cur]:
                    D = pick(rnd, sorted(self.R[cur]))
                    steps.append(["..", D, None])
                    cur = D
                elif st is not None:
                    steps.append([".", st[0], None if st[1] == 1 else st[1]])
                    cur = st[0]
        if not steps:
            return None
        return steps, cur, uniq, first_len

    def feasible(self, T, paths):
        """is there an expansion of a <T> node that contains all addressed children?"""
        trie = {}
        for path in paths:
            cur = trie
            for lab, idx in path:
                cur = cur.setdefault((lab, idx), [None, {}])[1]
        def fill(tr):
            for k, ent in tr.items():
                if ent[1]:
                    fill(ent[1])
                else:
                    ent[0] = "_"
        fill(trie)
        try:
            return bool(Desugarer(self.cg, max_alts=24).expand(T, trie))
        except NotPinned:
            return False

    def compatible(self, hid, steps, uniq, first_len, tentative, T=None):
        """mergeability precondition for several XPath expressions on one variable"""
        key = tuple((s[0], s[1], s[2] or 1) for s in steps)
        mine = key[:first_len]
        if T is not None and mine:
            others = [o[:of] for (o, of, _) in self.paths.get(hid, []) + tentative.get(hid, []) if o[:of] and o != key]
            if others and not self.feasible(T, [tuple((x[1], x[2]) for x in q) for q in others + [mine]]):
                return False
        for (other, ofirst, ouniq) in self.paths.get(hid, []) + tentative.get(hid, []):
            if other == key:
                return True
            theirs = other[:ofirst]
            if not mine or not theirs:
                continue
            n = min(len(mine), len(theirs))
            if mine[:n] == theirs[:n]:
                return False
            if not (uniq and ouniq) and not chance(self.rnd, self.o["p_conflict"]):
                return False
        return True

    def try_xpath(self, href, T, hid, tentative, allow_child=True, allow_dd=True):
        m = self.mk_steps(T, allow_child, allow_dd)
        if not m:
            return None
        steps, final, uniq, first_len = m
        if not self.compatible(hid, steps, uniq, first_len, tentative, T):
            return None
        ent = (tuple((s[0], s[1], s[2] or 1) for s in steps), first_len, uniq)
        tentative.setdefault(hid, []).append(ent)
        return (["xp", href, steps], final, (hid, ent))

    # ---- references available at a point
    def candidates(self, scope, env, tentative):
        """list of (ref, type, commit) usable in an atom"""
        rnd, o = self.rnd, self.o
        out = []
        ents = [e for e in scope if e["ref"] != ["v", "start"]]
        n = pick(rnd, [1, 2, 2, 3])
        for _ in range(n):
            r = rnd.random()
            if r < o["p_free"]:
                nts = [T for T in self.cg if T not in env and (T != "<start>" or chance(rnd, o["p_free_start"]))]
                if nts:
                    T = pick(rnd, nts)
                    if chance(rnd, o["p_xp"]):
                        x = self.try_xpath(["nt", T], T, "free:" + T, tentative)
                        if x:
                            out.append(x + ("head", T))
                            continue
                    out.append((["nt", T], T, None, "plain", T))
                    continue
            if r < o["p_free"] + o["p_xp"] and ents:
                e = pick(rnd, ents)
                again = [x for x in ents if self.paths.get(x["hid"]) or tentative.get(x["hid"])]
                if again and chance(rnd, 0.4):
                    e = pick(rnd, again)   # a second XPath expression on the same variable
                # `..` on a variable whose binder is (effectively) existential is a known rejection: keep it rare
                dd_ok = (not e["blocked"] and e["pol"] == 1) or chance(rnd, o["p_known_shape"])
                x = self.try_xpath(e["ref"], e["T"], e["hid"], tentative, allow_child=not e.get("mexprvar"), allow_dd=dd_ok)
                if x:
                    out.append(x + (None, None))
                    continue
            if chance(rnd, o["p_start_dd"]):
                x = self.try_xpath(["v", "start"], "<start>", "v:start", tentative, allow_child=False)
                if x:
                    out.append(x + (None, None))
                    continue
            if ents:
                e = pick(rnd, ents)
                out.append((e["ref"], e["T"], None, None, None))
        if not out:
            e = pick(rnd, scope)
            out.append((e["ref"], e["T"], None, None, None))
        return out

    # ---- atoms
    def xpath_pair(self, scope, env):
        """two DIFFERENT XPath expressions on one head in one (compound) atom -- with preference for the heads whose
        translation needs bookkeeping per expression: the nonterminal of an unnamed quantifier, a free nonterminal --
        and, half of the time, two expressions `h..<T>.<U>` / `h..<T>.<U'>` that continue after the same `..<T>`"""
        rnd, o = self.rnd, self.o
        unnamed, named, free = [], [], []
        for e in scope:
            if e["ref"] == ["v", "start"] or e.get("mexprvar"):
                continue
            (unnamed if e["ref"][0] == "nt" else named).append(
                (e["ref"], e["T"], e["hid"], (not e["blocked"]) and e["pol"] == 1))
        for T in self.cg:
            if T not in env and T != "<start>":
                free.append((["nt", T], T, "free:" + T, True))
        for _ in range(8):
            heads = unnamed if unnamed and chance(rnd, 0.75) else named if named and chance(rnd, 0.6) else free or named or unnamed
            if not heads:
                return None
            href, T, hid, dd_ok = pick(rnd, heads)
            tentative = {}
            if dd_ok and chance(rnd, 0.5):
                # shared prefix, then `..<D>`, then two different continuations
                pre = []
                cur = T
                if False:
                    st = self.child_step(cur)
                    if st is not None:
                        pre.append([".", st[0], None if st[1] == 1 else st[1]])
                        cur = st[0]
                ds = [D for D in sorted(self.R[cur]) if sum(1 for a in self.cg[D] for x in a if is_nt(x)) >= 2]
                if not ds:
                    continue
                D = pick(rnd, ds)
                conts = []
                for _ in range(6):
                    st = self.child_step(D)
                    if st is None:
                        break
                    c = [[".", st[0], None if st[1] == 1 and chance(rnd, 0.7) else st[1]]]
                    if chance(rnd, 0.3):
                        st2 = self.child_step(st[0])
                        if st2 is not None:
                            c.append([".", st2[0], None if st2[1] == 1 else st2[1]])
                    key = tuple((x[1], x[2] or 1) for x in c)
                    if key not in [k for k, _ in conts]:
                        conts.append((key, c))
                    if len(conts) == 2:
                        break
                if len(conts) < 2:
                    continue
                if pre and not self.compatible(hid, pre, self.unique_alt(T, pre[0][1]), 1, tentative):
                    continue
                exprs = [(["xp", href, pre + [["..", D, None]] + c], c[-1][1]) for _, c in conts]
                commits = [(hid, (tuple((x[0], x[1], x[2] or 1) for x in e[0][2]), len(pre), True)) for e in exprs]
            else:
                got = []
                for _ in range(8):
                    x = self.try_xpath(href, T, hid, tentative, allow_dd=dd_ok and chance(rnd, 0.3))
                    if x and xp_key(x[0]) not in [xp_key(g[0]) for g in got]:
                        got.append(x)
                    if len(got) == 2:
                        break
                if len(got) < 2:
                    continue
                exprs = [(g[0], g[1]) for g in got]
                commits = [g[2] for g in got]
            for hid_, ent in commits:
                if ent not in self.paths.setdefault(hid_, []):
                    self.paths[hid_].append(ent)
            if href[0] == "nt" and href[1] not in env:
                self.free_head.add(href[1])
            (r1, t1), (r2, t2) = exprs

            def lit_atom(r, t):
                pool = self.fg.lits.get(t) or ["zz"]
                s_ = pick(rnd, pool) if chance(rnd, 0.85) else "zz"
                return ["smt", ["app", pick(rnd, ["i", "i", "s"]), "=", ["ref", r], ["str", s_]]]

            k = rnd.random()
            if k < 0.4:
                a = ["smt", ["app", pick(rnd, ["i", "i", "s"]), "=", ["ref", r1], ["ref", r2]]]
                return ["not", a] if chance(rnd, 0.3) else a
            if k < 0.55:
                return ["pred", pick(rnd, ["before", "inside", "different_position", "same_position"]), ["r", r1], ["r", r2]]
            return [pick(rnd, ["and", "or", "or"]), lit_atom(r1, t1), lit_atom(r2, t2)]
        return None

    def atom(self, scope, env):
        unnamed_in_scope = any(e["ref"][0] == "nt" for e in scope)
        if chance(self.rnd, self.o["p_pair_unnamed"] if unnamed_in_scope else self.o["p_pair"]):
            a = self.xpath_pair(scope, env)
            if a is not None:
                return a
        tentative = {}
        cands = self.candidates(scope, env, tentative)
        pseudo = [("@%d" % i, c[1]) for i, c in enumerate(cands)]
        a = self.fg.atom(pseudo)
        for _ in range(4):
            # atoms that are constant (x = x, str.len(x) >= 0, ..) make the formula independent of its variables
            if a[0] != "smt" or self.is_const is None or chance(self.rnd, 0.06):
                break
            a = ["smt", self.tidy_term(a[1], None)]
            if not self.is_const(a[1]):
                break
            a = self.fg.atom(pseudo)
        table = {"@%d" % i: c for i, c in enumerate(cands)}
        used = set()

        def r_of(name):
            if name in table:
                used.add(name)
                return table[name][0]
            return ["v", name]

        if a[0] == "smt":
            out = ["smt", self.sugar_term(self.tidy_term(a[1], None), r_of, None)]
            if self.is_const is not None and not self.is_const(a[1]) and self.is_const(plain_term(out[1])):
                out = ["smt", self.sugar_term(a[1], r_of, "no-neg")]
        elif a[0] == "pred":
            out = ["pred", a[1]] + [["r", r_of(x[1])] if x[0] == "v" else x for x in a[2:]]
        else:
            out = ["count", r_of(a[1]), a[2], a[3]]
        for name in sorted(used):
            c = table[name]
            if c[2] is not None:
                hid, ent = c[2]
                if ent not in self.paths.setdefault(hid, []):
                    self.paths[hid].append(ent)
            if c[3] == "plain":
                self.free_plain.add(c[4])
            elif c[3] == "head":
                self.free_head.add(c[4])
        return out

    def tidy_term(self, t, T_of):
        """keep atoms from being constant: `mod 1`, and prefix/suffix/contains with the empty literal"""
        rnd = self.rnd
        if t[0] in ("var", "str", "int"):
            return t
        t = [t[0]] + [self.tidy_term(a, T_of) for a in t[1:]]
        if t[0] == "mod" and t[2] == ["int", 1] and not chance(rnd, 0.1):
            t[2] = ["int", 2]
        if t[0] in ("str.prefixof", "str.suffixof", "str.contains"):
            i = 1 if t[0] != "str.contains" else 2
            if t[i] == ["str", ""] and not chance(rnd, 0.1):
                t[i] = ["str", pick(rnd, ["a", "1", "x", " "])]
        return t

    def sugar_term(self, t, r_of, parent):
        rnd = self.rnd
        k = t[0]
        if k == "var":
            return ["ref", r_of(t[1])]
        if k in ("str", "int"):
            return t
        if parent != "no-neg" and k in ("=", "<", "<=", ">", ">=") and t[2][0] == "int" and t[1][0] != "str" \
                and chance(rnd, self.o["p_neg"]):
            # negative literals, keeping the atom's meaning: lhs op n  ==  lhs + -k op n-k
            if t[1][0] == "str.to.int" and chance(rnd, 0.5):
                t = [k, t[1], ["int", -rnd.randint(1, 2)]]
            else:
                d = t[2][1] + rnd.randint(1, 3)
                t = [k, ["+", t[1], ["int", -d]], ["int", t[2][1] - d]]
        args = [self.sugar_term(a, r_of, "no-neg" if parent == "no-neg" else k) for a in t[1:]]
        styles = ["s"]
        if k in PREFIX_OPS:
            styles += ["p", "p"]
        if k in INFIX_OPS and len(args) == 2:
            if infix_ok(["app", "i", k] + args):
                styles += ["i", "i", "i"]
        return ["app", pick(rnd, styles), k] + args

    # ---- formulas
    def formula(self, scope, depth, env, pol=1, blocked=False):
        rnd, o = self.rnd, self.o
        kinds = ["q", "q", "q", "atom", "atom"] if len(scope) > 1 else ["q", "q", "atom", "atom"]
        if depth > 0:
            kinds = kinds + list(o["connectives"]) + ["q"]
        c = pick(rnd, kinds) if depth > 0 else "atom"
        if c == "q":
            return self.quantifier(scope, depth, env, pol, blocked)
        if c in ("and", "or"):
            n = 2 + (1 if chance(rnd, 0.25) else 0)
            f = [c] + [self.formula(scope, depth - 1, env, pol, blocked) for _ in range(n)]
            if chance(rnd, o["p_flat"]) and self.flat_ok(f):
                return ["flat", f]
            return f
        if c == "implies":
            return [c, self.formula(scope, depth - 1, env, -pol, blocked), self.formula(scope, depth - 1, env, pol, blocked)]
        if c in ("iff", "xor"):
            return [c, self.formula(scope, depth - 1, env, 0, blocked), self.formula(scope, depth - 1, env, 0, blocked)]
        if c == "not":
            return ["not", self.formula(scope, depth - 1, env, -pol, blocked)]
        return self.atom(scope, env)

    def flat_ok(self, f):
        if _is_atom(f):
            return True
        if f[0] == "not":
            return self.flat_ok(f[1])
        if f[0] in ("and", "or"):
            return all(self.flat_ok(x) for x in f[1:])
        return False

    def quantifier(self, scope, depth, env, pol, blocked):
        rnd, o = self.rnd, self.o
        conts = [e for e in scope]
        e = pick(rnd, conts)
        inref, it = e["ref"], e["T"]
        if chance(rnd, o["p_in_nt"]):
            nts = [T for T in self.cg if T != "<start>" and self.R[T]]
            if nts:
                it = pick(rnd, nts)
                inref = ["nt", it]
                if it not in env:
                    self.free_plain.add(it)
        cand = sorted(self.R[it] | {it}) if inref[0] != "nt" else sorted(self.R[it] - {it})
        if not cand:
            inref, it = ["v", "start"], "<start>"
            cand = sorted(self.R[it])
        if "<start>" in cand and len(cand) > 1 and not chance(rnd, o["p_free_start"]):
            cand.remove("<start>")
        T = pick(rnd, cand)
        same = sorted({t for n, t in self.closed if t in cand})
        if same and chance(rnd, 0.3):
            T = pick(rnd, same)   # makes re-using a variable name possible
        name = self.fresh()
        in_scope = {e["ref"][1] for e in scope if e["ref"][0] == "v"}
        # (only with the same type: re-using a name with another nonterminal silently keeps the first type --
        # a defect of the core parser's variable table, not of the sugar translation)
        again = sorted({n for n, t in self.closed if t == T and n not in in_scope})
        if again and chance(rnd, o["p_reuse_name"]):
            # the same name for another quantifier outside the first one's scope
            name = pick(rnd, again)
        omit = chance(rnd, o["p_omit_name"]) and T not in env and not (inref[0] == "nt" and inref[1] == T)
        q = "forall" if chance(rnd, o["p_forall"]) else "exists"
        eff_forall = (q == "forall" and pol == 1) or (q == "exists" and pol == -1)
        blocked2 = blocked or not eff_forall
        mx, extra = None, []
        if chance(rnd, o["p_user_mexpr"]):
            mx, extra = self.fg.mexpr_for(T)
            extra = [("m" + x[1:], t) for x, t in extra]
            if mx:
                mx = [[el[0], el[1], "m" + el[2][1:]] if el[0] == "bind" else el for el in mx]
                if extra and chance(rnd, 0.5):
                    # a match-expression variable that carries the name the parser would invent first for a free
                    # nonterminal of its type (<var> -> var): the invented name has to avoid it
                    x, t = pick(rnd, extra)
                    bare = t[1:-1]
                    taken = {n for n, _ in self.closed} | in_scope | {y for y, _ in extra} | {"start", name}
                    if bare.isidentifier() and bare not in taken and bare not in RESERVED_NAMES:
                        extra = [(bare if y == x else y, tt) for y, tt in extra]
                        mx = [[el[0], el[1], bare] if el[0] == "bind" and el[2] == x else el for el in mx]
        env2 = env
        if omit:
            ref = ["nt", T]
            env2 = dict(env)
            env2[T] = name
            hid = "omitted:%s:%s" % (T, name)
        else:
            ref = ["v", name]
            hid = "v:" + name
        new = [{"ref": ref, "T": T, "hid": hid, "blocked": blocked2, "pol": pol}]
        if mx is not None:
            # a child step on a variable whose quantifier carries a match expression has no documented translation
            new[0]["mexprvar"] = True
        for x, t in extra:
            new.append({"ref": ["v", x], "T": t, "hid": "v:" + x, "blocked": blocked2, "pol": pol, "mexprvar": True})
        body = self.formula(scope + new, depth - 1, env2, pol, blocked2)
        mine = {ref_str(n["ref"]) for n in new}
        used = {ref_str(r if r[0] != "xp" else r[1]) for r in all_refs(body)}
        if not (mine & used):
            atom = self.atom(new, env2)
            conn = pick(rnd, ["and", "or"])
            body = [conn, atom, body] if chance(rnd, 0.5) else [conn, body, atom]
        if not omit:
            self.closed.append((name, T))
        inref_out = inref
        if inref == ["v", "start"] and chance(rnd, o["p_omit_in"]):
            inref_out = None
        return [q, T, None if omit else name, inref_out, mx, body]


def start_scope():
    return [{"ref": ["v", "start"], "T": "<start>", "hid": "v:start", "blocked": False, "pol": 1}]
