"""C13 helpers: the call into ISLa (shared by the in-process judge and the `python -O` child) and
the independent oracle over reference trees (nested lists ``[label, children|None, id]``).

Run as a script (``python -O c13_insert.py`` with the case as JSON on stdin) it performs the call with
assertions disabled and prints ``{"results": [...]}`` or ``{"exc": ...}`` as JSON on stdout.
"""
import os
import sys
import json

ID_FLOOR = 10 ** 6   # ids handed out by ISLa during a case start here; case ids are far below


_NOASSERT = {}


def noassert_module():
    """a second copy of isla.existential_helpers compiled like `python -O` compiles it (optimize=1: assert
    statements are dropped, __debug__ is False); everything it imports is the normal isla."""
    import types
    import isla.existential_helpers as eh
    fn = eh.__file__
    if fn not in _NOASSERT:
        with open(fn, encoding="utf-8") as f:
            code = compile(f.read(), fn, "exec", optimize=1)
        m = types.ModuleType("isla_existential_helpers_noassert")
        m.__file__ = fn
        exec(code, m.__dict__)
        _NOASSERT[fn] = m
    return _NOASSERT[fn]


def call_insert(case, noassert=False):
    """build ISLa objects from the case and call insert_tree; returns list of reference trees.
    Exceptions propagate."""
    from vlib import rt
    from isla.derivation_tree import DerivationTree
    if noassert:
        insert_tree = noassert_module().insert_tree
    else:
        from isla.existential_helpers import insert_tree
    from isla.helpers import canonical
    from grammar_graph import gg
    g = case["grammar"]
    # every caller gets its ids from the global counter; make sure ISLa's fresh ids cannot collide
    # with the explicit ids of the case (and make the call a pure function of the case)
    DerivationTree.next_id = ID_FLOOR
    host = rt.to_dt(case["host"])
    ins = rt.to_dt(case["insert"])
    kw = {}
    if case.get("graph_given", True):
        kw["graph"] = gg.GrammarGraph.from_grammar(g)
    if "max_num_solutions" in case:
        kw["max_num_solutions"] = case["max_num_solutions"]
    res = insert_tree(canonical(g), ins, host, methods=case["methods"], **kw)
    return [rt.from_dt(r) for r in res]


# ------------------------------------------------------------------ oracle

def id_map(t):
    """id -> list of (path, node)"""
    from vlib import rt
    m = {}
    for p, n in rt.nodes(t):
        m.setdefault(n[2], []).append((p, n))
    return m


def _all(t):
    yield t
    for c in t[1] or []:
        yield from _all(c)


def contains_at(big, small, host_ids=()):
    """`small` (the inserted tree) occurs at the root of `big`: same labels and same child counts wherever
    `small` is expanded (an open leaf of `small` may have been expanded in `big`), and every node of `small`
    is found with its id at the same relative path.  Returns None or (kind, reason) for the first
    difference in pre-order; structural differences are looked for first."""
    todo = [((), big, small)]
    order = []
    while todo:
        p, b, s = todo.pop()
        order.append((p, b, s))
        if b[0] != s[0]:
            return ("inserted_node_replaced", "label %r instead of %r at relative path %r" % (b[0], s[0], p))
        if s[1] is None:
            continue
        if b[1] is None or len(b[1]) != len(s[1]) or [c[0] for c in b[1]] != [c[0] for c in s[1]]:
            if b[2] != s[2]:
                kind = "inserted_node_replaced" + ("_by_host_node" if b[2] in host_ids else "")
            else:
                below = set(n[2] for c in (b[1] or []) for n in _all(c))
                kind = "inserted_node_reexpanded" + ("_around_host_subtree" if below & set(host_ids) else "")
            return (kind, "node %r id %r of the inserted tree at relative path %r has children %r, in the result "
                          "(id %r) %r" % (s[0], s[2], p, [c[0] for c in s[1]], b[2],
                                          None if b[1] is None else [c[0] for c in b[1]]))
        for i in reversed(range(len(s[1]))):
            todo.append((p + (i,), b[1][i], s[1][i]))
    for p, b, s in order:
        if b[2] != s[2]:
            if s[1] is None:
                kind = "inserted_open_leaf_taken_by_host_node" if b[2] in host_ids else "inserted_open_leaf_id_changed"
            else:
                kind = "inserted_inner_id_changed" + ("_to_host_id" if b[2] in host_ids else "")
            return (kind, "node %r id %r of the inserted tree at relative path %r has id %r in the result"
                    % (s[0], s[2], p, b[2]))
    return None


def check_result(cg, host, ins, r):
    """all problems of one result tree `r`: list of (sig, detail)"""
    from vlib import rt
    out = []
    if not (isinstance(r, list) and len(r) == 3):
        return [("result_not_a_tree", repr(r)[:200])]
    why = rt.why_invalid(cg, r, root=host[0], allow_open=True)
    if why is not None:
        out.append(("invalid_root" if r[0] != host[0] else "invalid_tree", why))
    rm = id_map(r)
    dup = sorted(str(i) for i, l in rm.items() if len(l) > 1)
    if dup:
        out.append(("duplicate_ids", "ids %s occur more than once" % ",".join(dup[:5])))
    for p, n in rt.nodes(host):
        occ = rm.get(n[2])
        if not occ:
            out.append(("host_node_lost", "host node %r id %r (path %r) is not in the result" % (n[0], n[2], p)))
            break
        if all(o[1][0] != n[0] for o in occ):
            out.append(("host_node_relabelled", "host node %r id %r (path %r) is labelled %r in the result"
                        % (n[0], n[2], p, occ[0][1][0])))
            break
    occ = rm.get(ins[2])
    if not occ:
        out.append(("inserted_root_missing", "no node with id %r" % (ins[2],)))
    else:
        host_ids = set(n[2] for _, n in rt.nodes(host))
        whys = [contains_at(o[1], ins, host_ids) for o in occ]
        if all(w is not None for w in whys):
            out.append(whys[0])
    return out


if __name__ == "__main__":
    here = os.path.dirname(os.path.dirname(os.path.abspath(__file__)))
    sys.path.insert(0, here)
    from vlib import env
    env.setup()
    case = json.load(sys.stdin)
    import signal
    signal.alarm(int(case.get("_budget", 60)))
    try:
        out = {"results": call_insert(case), "optimized": not __debug__}
    except BaseException as e:  # noqa
        import traceback
        tb = traceback.extract_tb(e.__traceback__)
        out = {"exc": type(e).__name__, "where": "%s:%d" % (tb[-1].name, tb[-1].lineno), "msg": str(e)[:300],
               "optimized": not __debug__}
    sys.stdout.write("\n@@C13@@" + json.dumps(out) + "\n")
