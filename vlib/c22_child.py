"""C22 child: one fresh interpreter = one observation of `random.seed(r); ISLaSolver(...); solve(); solve(); ...`.

Reads one JSON job from stdin:
  {"grammar": {...}, "constraint": str|null, "settings": {...}, "rseed": int, "n": int, "budget": seconds}
and prints
  S <repr(str(tree))>        one line per solution, in order
  E <end marker>             n | stop | timeout | budget | exc:<Type>
  T <json trailer>           flags that are NOT part of the compared sequence (flake detection, statistics)

Nothing here alters what ISLa computes: the wrappers below are pass-through observers.
  * z3.Solver.check is wrapped to record every `unknown` verdict together with Z3's reason
    (ISLa calls Z3 with 300/500 ms timeouts and, on `unknown`, re-seeds and retries - z3_solve -
    which consumes Python's random stream: a timeout in one run but not the other changes the
    sequence of solutions without any defect).
  * random.choice/shuffle/randint/randrange are wrapped to count calls per calling function
    (class labels "randomness consumers touched").
`settings` are ISLaSolver keyword arguments; two keys are decoded here because their values are
objects: "fuzzer" ("coverage" | "plain") and "cost" ([w1..w5, k]).
"""
import os
import sys
import json


def main():
    repo = os.environ.get("VERIF_REPO", "/repo")
    src = os.path.join(repo, "src")
    sys.path.insert(0, src)
    import warnings
    warnings.filterwarnings("ignore")
    import signal
    import random
    import hashlib
    import logging

    job = json.load(sys.stdin)
    trailer = {"hashseed": os.environ.get("PYTHONHASHSEED"), "unknown": 0, "unknown_reasons": {}, "z3_checks": 0,
               "undecided_warnings": 0, "consumers": {}, "phase": "import"}
    sols = []
    end = [None]

    def finish():
        out = sys.stdout
        for s in sols:
            out.write("S " + repr(s) + "\n")
        out.write("E " + str(end[0]) + "\n")
        out.write("T " + json.dumps(trailer, sort_keys=True) + "\n")
        out.flush()

    class Budget(BaseException):
        pass

    def on_alarm(*_a):
        raise Budget()

    signal.signal(signal.SIGALRM, on_alarm)
    signal.setitimer(signal.ITIMER_REAL, float(job.get("budget", 60)))
    try:
        # last resort against an orphan spinning in native code after the parent was killed (CPU seconds)
        import resource
        lim = int(float(job.get("budget", 60)) * 2 + 30)
        resource.setrlimit(resource.RLIMIT_CPU, (lim, lim + 5))
    except Exception:
        pass
    try:
        import isla
        if not os.path.abspath(isla.__file__).startswith(os.path.abspath(src) + os.sep):
            end[0] = "harness:isla_from_" + isla.__file__
            finish()
            return 3
        import z3
        from isla.solver import ISLaSolver, GrammarBasedBlackboxCostComputer, CostSettings, CostWeightVector
        from isla.fuzzer import GrammarFuzzer, GrammarCoverageFuzzer
        from grammar_graph import gg

        # ---- observers -----------------------------------------------------------------------------
        class H(logging.Handler):
            def emit(self, rec):
                try:
                    if "could not be decided" in rec.getMessage():
                        trailer["undecided_warnings"] += 1
                except Exception:
                    pass

        zl = logging.getLogger("z3_solve")
        zl.addHandler(H())
        zl.propagate = False

        orig_check = z3.Solver.check

        def check(self, *a):
            r = orig_check(self, *a)
            trailer["z3_checks"] += 1
            if r == z3.unknown:
                trailer["unknown"] += 1
                try:
                    why = str(self.reason_unknown())[:60]
                except Exception:
                    why = "?"
                trailer["unknown_reasons"][why] = trailer["unknown_reasons"].get(why, 0) + 1
            return r

        z3.Solver.check = check

        def observe(name):
            orig = getattr(random, name)

            def f(*a, **k):
                try:
                    fr = sys._getframe(1)
                    who = "%s:%s" % (os.path.basename(fr.f_code.co_filename)[:-3], fr.f_code.co_name)
                except Exception:
                    who = "?"
                trailer["consumers"][who] = trailer["consumers"].get(who, 0) + 1
                return orig(*a, **k)

            setattr(random, name, f)

        for nm in ("choice", "shuffle", "randint", "randrange"):
            observe(nm)

        if job.get("probe") == "z3_unknown":
            # harness self-test only: a query Z3 cannot decide within 1 ms must be seen by the observer
            x, y, zz = z3.Ints("x y z")
            ps = z3.Solver()
            ps.set("timeout", 1)
            cubes = x * x * x + y * y * y + zz * zz * zz  # (isla patches ExprRef.__eq__ to structural equality: no `==` here)
            ps.add(cubes >= 114, cubes <= 114, x > 1000, y < -1000)
            ps.check()

        # ---- the observed behaviour ----------------------------------------------------------------
        settings = dict(job.get("settings") or {})
        grammar = job["grammar"]
        fz = settings.pop("fuzzer", None)
        if fz == "plain":
            settings["fuzzer_factory"] = lambda g: GrammarFuzzer(g)
        elif fz == "coverage":
            settings["fuzzer_factory"] = lambda g: GrammarCoverageFuzzer(g)
        cost = settings.pop("cost", None)
        trailer["phase"] = "construct"
        random.seed(job["rseed"])
        if cost is not None:
            settings["cost_computer"] = GrammarBasedBlackboxCostComputer(
                CostSettings(CostWeightVector(*cost[:5]), k=int(cost[5])), gg.GrammarGraph.from_grammar(grammar))
        try:
            solver = ISLaSolver(grammar, job.get("constraint"), **settings)
        except Budget:
            raise
        except Exception as e:
            end[0] = "ctor_exc:" + type(e).__name__
            trailer["error"] = str(e)[:300]
            solver = None
        if solver is not None:
            trailer["phase"] = "solve"
            try:
                for _ in range(int(job["n"])):
                    sols.append(str(solver.solve()))
                end[0] = "n"
            except StopIteration:
                end[0] = "stop"
            except TimeoutError:
                end[0] = "timeout"
            except Budget:
                raise
            except Exception as e:
                end[0] = "exc:" + type(e).__name__
                trailer["error"] = str(e)[:300]
            trailer["steps"] = getattr(solver, "step_cnt", None)
        signal.setitimer(signal.ITIMER_REAL, 0)
        trailer["phase"] = "done"
        trailer["rng_after"] = hashlib.sha1(repr(random.getstate()).encode()).hexdigest()[:12]
    except Budget:
        end[0] = "budget"
    finish()
    return 0


if __name__ == "__main__":
    sys.exit(main())
