"""C21 validators: independent validity checks for outputs of the four shipped formalisations.

None of these functions imports isla.  Input is the solution *string* and, where a check needs to know
which substring was meant to be what (a section title, a label, ...), the list of labelled spans
`[label, start, end]` that vlib/c21_child.py computed by walking the returned tree.

Every validator returns a dict
  {"problems": [{"sig": "<fmt>:<root cause>", "detail": ...}, ...],   # empty = valid
   "nontrivial": bool, "labels": [...], "stats": {...}}
"""
import io
import re


# ================================================================================================ CSV

def csv_split(s):
    """State-machine splitter for the shipped dialect: ';' separates fields, '\\n' ends a record, a field that
    starts with '"' runs to the closing '"' and may contain ';' and newlines ('""' inside is the RFC 4180
    escaped quote).  Returns (records, error); records = list of lists of raw field texts."""
    START, SIMPLE, QUOTED, AFTERQ = 0, 1, 2, 3
    recs, fields, cur = [], [], []
    st = START
    for i, c in enumerate(s):
        if st == START:
            if c == '"':
                cur.append(c)
                st = QUOTED
            elif c == ";":
                fields.append("")
            elif c == "\n":
                fields.append("")
                recs.append(fields)
                fields = []
            else:
                cur.append(c)
                st = SIMPLE
        elif st == SIMPLE:
            if c == ";":
                fields.append("".join(cur))
                cur = []
                st = START
            elif c == "\n":
                fields.append("".join(cur))
                cur = []
                recs.append(fields)
                fields = []
                st = START
            elif c == '"':
                return None, "quote inside unquoted field at %d" % i
            else:
                cur.append(c)
        elif st == QUOTED:
            cur.append(c)
            if c == '"':
                st = AFTERQ
        else:  # AFTERQ
            if c == '"':
                cur.append(c)
                st = QUOTED
            elif c == ";":
                fields.append("".join(cur))
                cur = []
                st = START
            elif c == "\n":
                fields.append("".join(cur))
                cur = []
                recs.append(fields)
                fields = []
                st = START
            else:
                return None, "text after closing quote at %d" % i
    if st == QUOTED:
        return None, "unterminated quoted field"
    if st in (SIMPLE, AFTERQ):
        fields.append("".join(cur))
        recs.append(fields)
    elif fields:  # input ended right after a ';'
        fields.append("")
        recs.append(fields)
    return recs, None


def csv_counts_pycsv(s):
    """second opinion: Python's csv module; returns list of field counts or None if it refuses the text"""
    import csv
    try:
        rows = list(csv.reader(io.StringIO(s, newline=""), delimiter=";", quotechar='"', doublequote=True, strict=True))
    except csv.Error:
        return None
    return [max(1, len(r)) for r in rows]


def check_csv(s, spans=None):
    res = {"problems": [], "nontrivial": False, "labels": [], "stats": {}}
    recs, err = csv_split(s)
    py = csv_counts_pycsv(s)
    if err:
        res["problems"].append({"sig": "csv:malformed", "detail": err})
        if py is not None and len(set(py)) == 1 and "\r" not in s:
            res["oracle_disagreement"] = "splitter: %s, csv module: %r" % (err, py)
        return res
    counts = [len(r) for r in recs]
    # the csv module treats a bare '\r' as a line end; the shipped dialect only has it inside quoted fields, where
    # both agree.  Compare the two readings wherever the module gives one.
    if py is not None and py != counts:
        res["oracle_disagreement"] = "splitter %r, csv module %r" % (counts, py)
    if not recs:
        res["problems"].append({"sig": "csv:no_records", "detail": ""})
        return res
    if len(set(counts)) != 1:
        res["problems"].append({"sig": "csv:column_counts_differ", "detail": counts})
    if s and not s.endswith("\n"):
        res["problems"].append({"sig": "csv:no_final_newline", "detail": ""})
    res["stats"] = {"records": len(recs), "columns": counts[0]}
    res["nontrivial"] = len(recs) >= 2
    if counts[0] >= 2:
        res["labels"].append("csv_multicol")
    if len(recs) >= 2 and counts[0] >= 2:
        res["labels"].append("csv_multirec_multicol")
    q = [f for r in recs for f in r if f.startswith('"')]
    if q:
        res["labels"].append("csv_quoted")
    if any(";" in f or "\n" in f for f in q):
        res["labels"].append("csv_quoted_sep_inside")
    if spans:
        nrec = sum(1 for l, _a, _b in spans if l == "<csv-record>")
        # only when the tree's record spans came along (every real tree has at least one)
        if nrec and nrec != len(recs):
            # the string read as CSV does not have the records the tree says it has: some field swallowed a
            # separator or a quote opened where the tree has none
            res["problems"].append({"sig": "csv:record_count_vs_tree", "detail": [len(recs), nrec]})
    return res


# ================================================================================================ XML

_XML_POS = re.compile(r":? ?line \d+, column \d+")


def check_xml(s, spans=None):
    import xml.etree.ElementTree as ET
    res = {"problems": [], "nontrivial": False, "labels": [], "stats": {}}
    try:
        root = ET.fromstring(s)
    except ET.ParseError as e:
        msg = _XML_POS.sub("", str(e)).strip().rstrip(":")
        res["problems"].append({"sig": "xml:" + msg.replace(" ", "_"), "detail": str(e)})
        return res
    elems = list(root.iter())
    nattr = sum(len(e.attrib) for e in elems)
    res["stats"] = {"elements": len(elems), "attributes_non_xmlns": nattr}
    # string-level class labels (ElementTree hides namespace declarations)
    has_decl = "xmlns:" in s
    if len(elems) >= 2:
        res["labels"].append("xml_nested")
    if nattr or has_decl:
        res["labels"].append("xml_attributed")
    if has_decl:
        res["labels"].append("xml_ns_declared")
    if any(e.tag.startswith("{") for e in elems):
        res["labels"].append("xml_prefixed_element")
    if any(k.startswith("{") for e in elems for k in e.attrib):
        res["labels"].append("xml_prefixed_attribute")
    if any(len(e.attrib) >= 2 for e in elems):
        res["labels"].append("xml_multi_attr")
    res["nontrivial"] = len(elems) >= 2 or bool(nattr) or has_decl
    return res


# ================================================================================================ reST

_QUOTED = re.compile(r'"[^"]*"')


def _rest_sig(text):
    """stable class of a docutils message: drop position, level number, quoted names"""
    first = text.strip().splitlines()[0] if text.strip() else ""
    m = re.match(r"^(?:<string>|[^:]*):?(\d+)?:? ?\((\w+)/(\d)\) ?(.*)$", first)
    body = m.group(4) if m else first
    body = _QUOTED.sub("N", body)
    body = re.sub(r"\d+", "#", body)
    body = re.sub(r"[^A-Za-z#N]+", "_", body).strip("_")
    return body[:60]


def rest_render(s):
    """docutils reading of the text: (messages level>=2 [(level, text)], titles, enumerated lists, exception text)"""
    from docutils.core import publish_doctree
    from docutils import nodes
    err = io.StringIO()
    try:
        doc = publish_doctree(s, settings_overrides={"input_encoding": "unicode", "warning_stream": err,
                                                     "report_level": 2, "halt_level": 5,
                                                     "file_insertion_enabled": False, "raw_enabled": False})
    except Exception as e:  # docutils itself failed
        return None, 0, 0, "%s: %s" % (type(e).__name__, e)
    msgs = [(int(m["level"]), m.astext()) for m in doc.findall(nodes.system_message) if int(m["level"]) >= 2]
    seen = set(t for _l, t in msgs)
    for line in err.getvalue().splitlines():
        m = re.match(r"^[^ ]*:\d*:? ?\((\w+)/(\d)\) (.*)$", line)
        if m and int(m.group(2)) >= 2 and not any(m.group(3) in t for t in seen):
            msgs.append((int(m.group(2)), line))
            seen.add(line)

    def in_sysmsg_section(n):
        p = n.parent
        while p is not None:
            if isinstance(p, nodes.section) and "system-messages" in p.get("classes", []):
                return True
            if isinstance(p, nodes.system_message):
                return True
            p = p.parent
        return False
    titles = [n for n in list(doc.findall(nodes.title)) + list(doc.findall(nodes.subtitle)) if not in_sysmsg_section(n)]
    enums = [n for n in doc.findall(nodes.enumerated_list) if not in_sysmsg_section(n)]
    return msgs, len(titles), len(enums), None


def _inside(spans, label, a, b):
    return [(x, y) for l, x, y in spans if l == label and a <= x and y <= b]


def check_rest(s, spans):
    res = {"problems": [], "nontrivial": False, "labels": [], "stats": {}}
    P = res["problems"]
    msgs, ntitles, nenums, exc = rest_render(s)
    if exc is not None:
        P.append({"sig": "rest:docutils_exception", "detail": exc})
        msgs = []
    for lvl, text in msgs:
        P.append({"sig": "rest:docutils:" + _rest_sig(text), "detail": text[:300], "level": lvl})
    sect = [(a, b) for l, a, b in spans if l == "<section-title>"]
    enum = [(a, b) for l, a, b in spans if l == "<enumeration>"]
    labels_ = [(a, b) for l, a, b in spans if l == "<label>"]
    refs = [(a, b) for l, a, b in spans if l in ("<internal_reference>", "<internal_reference_nospace>")]
    if exc is None and not msgs:
        if ntitles < len(sect):
            P.append({"sig": "rest:titles_not_rendered", "detail": {"spans": len(sect), "rendered": ntitles}})
        elif ntitles > len(sect):
            res["labels"].append("rest_extra_titles_rendered")
        if nenums < len(enum):
            P.append({"sig": "rest:enumerations_not_rendered", "detail": {"spans": len(enum), "rendered": nenums}})
    # ---- rules read off the string through the labelled spans
    for a, b in sect:
        tt = _inside(spans, "<title-text>", a, b)
        ul = _inside(spans, "<underline>", a, b)
        if len(tt) != 1 or len(ul) != 1:
            P.append({"sig": "rest:span_structure", "detail": "section-title without title-text/underline"})
            continue
        # reST measures the title line without trailing whitespace (the shipped constraint pads titles with blanks)
        title, under = s[tt[0][0]:tt[0][1]].rstrip(), s[ul[0][0]:ul[0][1]]
        if len(under) < len(title):
            P.append({"sig": "rest:underline_shorter_than_title", "detail": {"title": title, "underline": under}})
        if not under or len(set(under)) != 1:
            P.append({"sig": "rest:underline_not_uniform", "detail": under})
    defined = []
    for a, b in labels_:
        ids = _inside(spans, "<id>", a, b)
        if len(ids) != 1:
            P.append({"sig": "rest:span_structure", "detail": "label without id"})
            continue
        ident = s[ids[0][0]:ids[0][1]]
        if s[a:b] != ".. _%s:" % ident:
            P.append({"sig": "rest:span_structure", "detail": "label text %r" % s[a:b]})
        defined.append(ident)
    dup = sorted(set(i for i in defined if defined.count(i) > 1))
    if dup:
        P.append({"sig": "rest:label_defined_twice", "detail": dup})
    used = []
    for a, b in refs:
        ids = _inside(spans, "<id>", a, b)
        if len(ids) != 1:
            P.append({"sig": "rest:span_structure", "detail": "reference without id"})
            continue
        ident = s[ids[0][0]:ids[0][1]]
        if s[ids[0][1]:ids[0][1] + 1] != "_":
            P.append({"sig": "rest:span_structure", "detail": "reference id not followed by underscore"})
        used.append(ident)
    missing = sorted(set(u for u in used if u not in defined))
    if missing:
        P.append({"sig": "rest:reference_without_label", "detail": missing})
    multi_enum = False
    for a, b in enum:
        nums = []
        for x, y in _inside(spans, "<enumeration_item>", a, b):
            n = _inside(spans, "<number>", x, y)
            if len(n) != 1 or not s[n[0][0]:n[0][1]].isdigit() or n[0][0] != x:
                P.append({"sig": "rest:span_structure", "detail": "enumeration item without leading number"})
                nums = None
                break
            nums.append(int(s[n[0][0]:n[0][1]]))
        if not nums:
            continue
        if len(nums) >= 2:
            multi_enum = True
        for p, q in zip(nums, nums[1:]):
            if q != p + 1 or p <= 0:
                P.append({"sig": "rest:numbering_not_consecutive", "detail": nums})
                break
    res["stats"] = {"titles": len(sect), "labels": len(labels_), "references": len(refs), "enumerations": len(enum)}
    res["nontrivial"] = bool(sect or refs or enum)
    if sect:
        res["labels"].append("rest_title")
    if any(len(s[x:y]) >= 2 for a, b in sect for x, y in _inside(spans, "<title-text>", a, b)):
        res["labels"].append("rest_title_len>=2")
    if refs:
        res["labels"].append("rest_reference")
    if labels_:
        res["labels"].append("rest_label")
    if len(set(defined)) >= 2:
        res["labels"].append("rest_two_labels")
    if enum:
        res["labels"].append("rest_enumeration")
    if multi_enum:
        res["labels"].append("rest_enumeration_multi_item")
    return res


# ================================================================================================ simple TAR

_OCT = re.compile(rb"[0-7]{6}\x00 ")
_NAME = re.compile(rb"[^\x00]+\x00*")
_LINK = re.compile(rb"[^\x00]*\x00*")
ENTRY = 216
HEADER = 209


def check_tar(s, spans=None):
    res = {"problems": [], "nontrivial": False, "labels": [], "stats": {}}
    P = res["problems"]
    try:
        b = s.encode("latin-1")
    except UnicodeEncodeError:
        P.append({"sig": "tar:non_byte_character", "detail": ""})
        return res
    if not b or len(b) % ENTRY:
        P.append({"sig": "tar:length_not_multiple_of_entry", "detail": len(b)})
        return res
    entries = []
    for k in range(len(b) // ENTRY):
        e = b[k * ENTRY:(k + 1) * ENTRY]
        h = e[:HEADER]
        name, chk, flag, link, content = h[:100], h[100:108], h[108:109], h[109:209], e[209:]
        if content != b"CONTENT":
            P.append({"sig": "tar:content_misplaced", "entry": k, "detail": repr(content)})
            continue
        if not _NAME.fullmatch(name):
            P.append({"sig": "tar:name_field_encoding", "entry": k, "detail": repr(name[:20])})
        if not _LINK.fullmatch(link):
            P.append({"sig": "tar:linkname_field_encoding", "entry": k, "detail": repr(link[:20])})
        if flag not in (b"0", b"2"):
            P.append({"sig": "tar:typeflag", "entry": k, "detail": repr(flag)})
        if not _OCT.fullmatch(chk):
            P.append({"sig": "tar:checksum_field_encoding", "entry": k, "detail": repr(chk)})
        else:
            expect = sum(h[:100]) + 8 * 0x20 + sum(h[108:])
            if int(chk[:6], 8) != expect:
                P.append({"sig": "tar:checksum_wrong", "entry": k,
                          "detail": {"field": chk[:6].decode(), "expected": "%06o" % expect}})
        entries.append((name.rstrip(b"\x00"), flag, link.rstrip(b"\x00")))
    links = [(k, e) for k, e in enumerate(entries) if e[1] == b"2"]
    named = [(k, e) for k, e in links if e[2]]
    resolved = [k for k, e in named if any(j != k and o[0] == e[2] for j, o in enumerate(entries))]
    res["stats"] = {"entries": len(entries), "links": len(links), "links_named": len(named),
                    "links_resolved": len(resolved)}
    res["nontrivial"] = bool(links)
    if len(entries) >= 2:
        res["labels"].append("tar_multi_entry")
    if links:
        res["labels"].append("tar_link_entry")
    if named:
        res["labels"].append("tar_link_named")
    if resolved:
        res["labels"].append("tar_link_resolved")
    if len(named) > len(resolved):
        res["labels"].append("tar_link_dangling(stat_only)")
    return res


CHECK = {"csv": check_csv, "xml": check_xml, "rest": check_rest, "tar": check_tar}


# ================================================================================================ self-test

def _tar_entry(name, flag, link, chk=None, content=b"CONTENT"):
    n = name.ljust(100, b"\x00")
    l = link.ljust(100, b"\x00")
    if chk is None:
        chk = b"%06o\x00 " % (sum(n) + 8 * 32 + sum(flag) + sum(l))
    return (n + chk + flag + l + content).decode("latin-1")


def selftest():
    import random
    sigs = lambda r: sorted(p["sig"] for p in r["problems"])
    # ---- CSV: good and bad texts
    assert csv_split('a;b\n"x;y\nz";c\n') == ([["a", "b"], ['"x;y\nz"', "c"]], None)
    assert csv_split('a;"b""c"\n')[0] == [["a", '"b""c"']]
    good = ["a\n", "a;b\nc;d\n", '"x;y";1\n 2 ;"\n"\n', ' a ;b\n"";c\n', "a;b;c\n" * 3]
    bad = {"a;b\nc\n": "csv:column_counts_differ", 'a;b\n"c;d"\n': "csv:column_counts_differ",
           'a;"b\n': "csv:malformed", 'a"b;c\n': "csv:malformed", '"a"b;c\n': "csv:malformed", "": "csv:no_records",
           "a;b\nc;d;e\nf;g\n": "csv:column_counts_differ", 'a;b\n"c\n;d";e;f\n': "csv:column_counts_differ"}
    for g in good:
        r = check_csv(g)
        assert not r["problems"] and not r.get("oracle_disagreement"), (g, r)
    for t, sg in bad.items():
        r = check_csv(t)
        assert sg in sigs(r), (t, r)
    assert check_csv("a;b\nc;d\n", [["<csv-record>", 0, 4]])["problems"][0]["sig"] == "csv:record_count_vs_tree"
    # splitter vs Python's csv module on random texts of the dialect (and slightly outside it)
    rnd = random.Random(2021)
    agree = 0
    for _ in range(3000):
        recs = []
        for _r in range(rnd.randint(1, 4)):
            fs = []
            for _f in range(rnd.randint(1, 4)):
                if rnd.random() < 0.4:
                    fs.append('"' + "".join(rnd.choice('ab;\n ,x') for _ in range(rnd.randint(0, 4))) + '"')
                else:
                    fs.append(" " * rnd.randint(0, 2) + "".join(rnd.choice("abc1,.'") for _ in range(rnd.randint(1, 4))))
            recs.append(";".join(fs) + "\n")
        t = "".join(recs)
        mine, err = csv_split(t)
        assert err is None, (t, err)
        assert [len(r) for r in mine] == csv_counts_pycsv(t), (t, mine, csv_counts_pycsv(t))
        assert len(mine) == len(recs) and [len(r) for r in mine] == [x.count(";") - sum(f.count(";") for f in re.findall(r'"[^"]*"', x)) + 1 for x in recs]
        agree += 1
    assert agree == 3000
    # ---- XML
    good = ["<a/>", "<a>x</a>", '<a b="1" c="2"><d/>t</a>', '<p:a xmlns:p="u"><p:b p:c="1"/></p:a>',
            '<a xmlns:q=" "><q:b/></a>', "<a>&quot;&#x27;&amp;</a>", '<c.7- xmlns:h=" "/>']
    bad = {"<a></b>": "xml:mismatched_tag", "<p:a/>": "xml:unbound_prefix", '<a p:b="1"/>': "xml:unbound_prefix",
           '<a b="1" b="2"/>': "xml:duplicate_attribute", "<a><b></a></b>": "xml:mismatched_tag",
           '<a><p:b xmlns:q="u"/></a>': "xml:unbound_prefix", "<a>": "xml:no_element_found",
           '<p:a xmlns:p="u"></q:a>': "xml:mismatched_tag", '<a xmlns:p="u"/><p:b/>': "xml:junk_after_document_element",
           '<a><b xmlns:p="u"/><p:c/></a>': "xml:unbound_prefix",
           '<a xmlns:p="u" xmlns:q="u" p:x="1" q:x="2"/>': "xml:duplicate_attribute"}
    for g in good:
        assert not check_xml(g)["problems"], (g, check_xml(g))
    for t, sg in bad.items():
        assert sigs(check_xml(t)) == [sg], (t, check_xml(t))
    assert not check_xml("<a/>")["nontrivial"] and check_xml("<a><b/></a>")["nontrivial"] and check_xml('<a b="1"/>')["nontrivial"]
    # ---- reST: (text, spans) built by a tiny tagger so that offsets are right
    def doc(*parts):
        """parts: plain strings or (label, [parts]) -> (text, spans)"""
        out, spans = [], []

        def go(ps):
            for p in ps:
                if isinstance(p, str):
                    out.append(p)
                else:
                    start = sum(len(x) for x in out)
                    idx = len(spans)
                    spans.append([p[0], start, None])
                    go(p[1])
                    spans[idx][2] = sum(len(x) for x in out)
        go(parts)
        return "".join(out), spans

    def title(t, u):
        return ("<section-title>", [("<title-text>", [t]), "\n", ("<underline>", [u])])

    def label(i):
        return ("<label>", [".. _", ("<id>", [i]), ":"])

    def ref(i, pre=" ", post=" "):
        return ("<internal_reference>", [pre, ("<id>", [i]), "_", post])

    def enum(*items):
        ps = []
        for k, (n, t) in enumerate(items):
            if k:
                ps.append("\n")
            ps.append(("<enumeration_item>", [("<number>", [str(n)]), ". " + t]))
        return ("<enumeration>", ps + ["\n"])
    good = [doc(title("Title", "====="), "\n\n", "text\n"),
            doc(title("T", "--------"), "\n\n", title("Other", "====="), "\n"),
            doc(title("ab  ", "=="), "\n\n", "text\n"),
            doc(label("a"), "\n\npara", ref("a"), "x\n"),
            doc(label("a"), "\n\nfoo\n\n", label("b"), "\n\nbar", ref("b", ",", "."), ref("a", "(", ")"), "\n"),
            doc(enum((1, "x"), (2, "y"), (3, "z")), "\n"),
            doc(enum((7, "x"), (8, "y")), "\nplain\n"),
            doc(enum((0, "only")), "\n"),
            doc("just text\n")]
    for t, sp in good:
        r = check_rest(t, sp)
        assert not r["problems"], (t, r)
    assert not check_rest(*good[-1])["nontrivial"] and check_rest(*good[0])["nontrivial"]
    bad = [(doc(title("Title", "===="), "\n\n", "text\n"), ["rest:docutils:Title_underline_too_short", "rest:underline_shorter_than_title"]),
           (doc(title("abc", "=="), "\n\n", "text\n"), ["rest:titles_not_rendered", "rest:underline_shorter_than_title"]),
           (doc("para", ref("a"), "x\n"), ["rest:docutils:Unknown_target_name_N", "rest:reference_without_label"]),
           (doc(label("a"), "\n\nfoo\n\n", label("a"), "\n\nbar\n"), ["rest:docutils:Duplicate_explicit_target_name_N", "rest:label_defined_twice"]),
           (doc(enum((1, "x"), (3, "y")), "\n"), ["rest:enumerations_not_rendered", "rest:numbering_not_consecutive"]),
           (doc(enum((2, "x"), (2, "y")), "\n"), ["rest:numbering_not_consecutive"]),
           (doc(enum((0, "x"), (1, "y")), "\n"), ["rest:numbering_not_consecutive"]),
           (doc("- a\nb\n"), ["rest:docutils:Bullet_list_ends_without_a_blank_line_unexpected_unindent"])]
    for (t, sp), want in bad:
        got = sigs(check_rest(t, sp))
        for w in want:
            assert w in got, (t, got, w)
    # ---- TAR
    e1 = _tar_entry(b"file.txt", b"0", b"")
    e2 = _tar_entry(b"lnk", b"2", b"file.txt")
    e3 = _tar_entry(b"lnk2", b"2", b"")
    for g in (e1, e1 + e2, e2 + e1, e3, _tar_entry(b"x" * 100, b"0", b"y" * 100)):
        assert not check_tar(g)["problems"], check_tar(g)
    assert not check_tar(e1)["nontrivial"] and check_tar(e1 + e2)["nontrivial"]
    assert check_tar(e1 + e2)["stats"]["links_resolved"] == 1 and check_tar(e2)["stats"]["links_resolved"] == 0
    n = b"file.txt".ljust(100, b"\x00")
    l = b"".ljust(100, b"\x00")
    incl = sum(n) + sum(b"0") + sum(l)  # checksum field not blanked but zero-filled
    fix = None
    # a checksum computed over the header *including* a previous checksum value
    prev = b"%06o\x00 " % (sum(n) + 256 + 48)
    wrong = b"%06o\x00 " % (sum(n) + sum(prev) + 48)
    bad = {_tar_entry(b"file.txt", b"0", b"", chk=wrong): "tar:checksum_wrong",
           _tar_entry(b"file.txt", b"0", b"", chk=b"%06o\x00 " % incl): "tar:checksum_wrong",
           _tar_entry(b"file.txt", b"0", b"", chk=b"%07o " % (sum(n) + 256 + 48)): "tar:checksum_field_encoding",
           _tar_entry(b"file.txt", b"0", b"", chk=b"%6o\x00 " % (sum(n) + 256 + 48)): "tar:checksum_field_encoding",
           _tar_entry(b"file.txt", b"1", b""): "tar:typeflag",
           _tar_entry(b"a\x00b", b"0", b""): "tar:name_field_encoding",
           _tar_entry(b"", b"0", b""): "tar:name_field_encoding",
           _tar_entry(b"a", b"2", b"x\x00y"): "tar:linkname_field_encoding",
           e1[:-1]: "tar:length_not_multiple_of_entry",
           e1[:50] + e1[51:] + "X": "tar:content_misplaced",
           "": "tar:length_not_multiple_of_entry"}
    for t, sg in bad.items():
        assert sg in sigs(check_tar(t)), (sg, check_tar(t))
    # checksum agrees with Python's tarfile on a real ustar header (field blanked with spaces, unsigned byte sum)
    import tarfile
    ti = tarfile.TarInfo("file.txt")
    buf = ti.tobuf(format=tarfile.USTAR_FORMAT)
    stored = int(buf[148:154], 8)
    assert stored == sum(buf[:148]) + 256 + sum(buf[156:512])
