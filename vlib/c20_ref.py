"""C20 helpers: reference tree builder (text -> derivation tree, for *generating* inputs) and the
string-level meaning of the bundled semantic predicates.  Shares no code with /repo/src."""
from . import rt
from .rt import is_nt


def parse_ref(cg, A, s):
    """some derivation tree [label, children] of s from A, or None.  Built top-down from the span
    table of the fixpoint recogniser; first alternative / shortest split wins."""
    T = rt.spans(cg, s)
    busy = set()

    def sym_tree(sym, i, j):
        if not is_nt(sym):
            return [sym, []] if s[i:j] == sym else None
        if (i, j) not in T[sym] or (sym, i, j) in busy:
            return None
        busy.add((sym, i, j))
        try:
            for alt in cg[sym]:
                r = seq(alt, 0, i, j)
                if r is not None:
                    return [sym, r]
            return None
        finally:
            busy.discard((sym, i, j))

    def seq(alt, k, i, j):
        if k == len(alt):
            return [] if i == j else None
        sym = alt[k]
        if not is_nt(sym):
            ends = [i + len(sym)] if s[i:i + len(sym)] == sym and i + len(sym) <= j else []
        else:
            ends = sorted(m for (a, m) in T[sym] if a == i and m <= j)
        if k == len(alt) - 1:
            ends = [m for m in ends if m == j]
        for m in ends:
            rest = seq(alt, k + 1, m, j)
            if rest is None:
                continue
            t = sym_tree(sym, i, m)
            if t is not None:
                return [t] + rest
        return None

    return sym_tree(A, 0, len(s))


def digits_tree(text):
    """grammar-independent closed multi-node numeral tree (as produced by a digit-list grammar)"""
    def go(k):
        d = ["<digit>", [[text[k], []]]]
        if k == len(text) - 1:
            return ["<num>", [d]]
        return ["<num>", [d, go(k + 1)]]
    return go(0)


# ------------------------------------------------------------------ meaning of the predicates

JUST = ("ljust", "rjust", "ljust_crop", "rjust_crop", "extend_crop")


def just_target(pred, text, w, fill):
    """The text a proposed replacement must spell when len(text) != w; None when no text of
    width w stands in the predicate's relation to `text` (non-crop variants on too long texts).

    ljust/rjust: Python's str.ljust/str.rjust (original kept, fill characters appended/prepended);
    *_crop on too long texts: the justified side is kept (ljust: prefix, rjust: suffix);
    extend_crop: the argument is one repeated character; that character repeated w times."""
    n = len(text)
    assert n != w
    if pred == "extend_crop":
        return text[0] * w
    left = pred.startswith("ljust")
    if n < w:
        pad = fill * (w - n)
        return text + pad if left else pad + text
    if not pred.endswith("_crop"):
        return None
    return text[:w] if left else text[n - w:]


def octal_holds(otext, dtext):
    """octal digit string denotes the decimal number (positional notation, base 8 / base 10)"""
    v = 0
    for ch in otext:
        assert ch in "01234567"
        v = v * 8 + "01234567".index(ch)
    d = 0
    for ch in dtext:
        assert ch in "0123456789"
        d = d * 10 + "0123456789".index(ch)
    return v == d


def octal_value(otext):
    v = 0
    for ch in otext:
        v = v * 8 + "01234567".index(ch)
    return v


def decimal_value(dtext):
    d = 0
    for ch in dtext:
        d = d * 10 + "0123456789".index(ch)
    return d


def to_octal(n):
    if n == 0:
        return "0"
    out = ""
    while n:
        out = "01234567"[n % 8] + out
        n //= 8
    return out


def count_label(t, needle):
    return sum(1 for _, n in rt.nodes(t) if n[0] == needle)
