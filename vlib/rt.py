"""Reference layer, part 1: grammars, trees, recogniser.

Written from textbook definitions; shares no code with /repo/src.  Trees are nested
lists/tuples ``[label, children | None, id]`` (JSON friendly); ``children is None`` marks an
open (unexpanded) nonterminal leaf, ``children == []`` on a nonterminal is an epsilon
expansion, terminal nodes always have ``children == []``.
"""
import re
import itertools

NT_RE = re.compile(r"(<[^<> ]*>)")


def is_nt(s):
    return bool(NT_RE.fullmatch(s))


def split_alt(alt):
    return [t for t in NT_RE.split(alt) if t]


def canon(g):
    """dict grammar (alternatives as strings) -> {nt: [[symbol,...],...]}; "" -> []"""
    return {k: [split_alt(a) for a in alts] for k, alts in g.items()}


def join_alt(symbols):
    return "".join(symbols)


# ---------------------------------------------------------------- grammar facts

def reach(cg):
    """R[A] = set of nonterminals reachable from A in >= 1 step."""
    r = {k: set() for k in cg}
    ch = True
    while ch:
        ch = False
        for k, alts in cg.items():
            for a in alts:
                for s in a:
                    if is_nt(s):
                        new = {s} | r.get(s, set())
                        if not new <= r[k]:
                            r[k] |= new
                            ch = True
    return r


def min_depths(cg):
    d = {k: 10 ** 6 for k in cg}
    ch = True
    while ch:
        ch = False
        for k, alts in cg.items():
            for a in alts:
                c = 1 + max([d[s] for s in a if is_nt(s)] + [0])
                if c < d[k]:
                    d[k] = c
                    ch = True
    return d


def nullable(cg):
    nul = set()
    ch = True
    while ch:
        ch = False
        for k, alts in cg.items():
            if k not in nul and any(all(is_nt(s) and s in nul for s in a) for a in alts):
                nul.add(k)
                ch = True
    return nul


def has_unit_cycle(cg):
    """A =>+ A (infinitely ambiguous grammar)."""
    nul = nullable(cg)
    edges = {k: set() for k in cg}
    for k, alts in cg.items():
        for a in alts:
            for i, s in enumerate(a):
                if is_nt(s) and all(is_nt(x) and x in nul for j, x in enumerate(a) if j != i):
                    edges[k].add(s)

    def reachable(a):
        seen = set()
        st = list(edges[a])
        while st:
            x = st.pop()
            if x in seen:
                continue
            seen.add(x)
            st.extend(edges[x])
        return seen

    return any(k in reachable(k) for k in cg)


def min_len(cg):
    """minimal yield length per nonterminal"""
    d = {k: 10 ** 9 for k in cg}
    ch = True
    while ch:
        ch = False
        for k, alts in cg.items():
            for a in alts:
                c = sum(d[s] if is_nt(s) else len(s) for s in a)
                if c < d[k]:
                    d[k] = c
                    ch = True
    return d


# ---------------------------------------------------------------- trees

def L(t):
    return t[0]


def C(t):
    return t[1]


def nodes(t, p=()):
    """pre-order (path, node)"""
    yield p, t
    if t[1]:
        for i, c in enumerate(t[1]):
            yield from nodes(c, p + (i,))


def sub(t, p):
    for i in p:
        t = t[1][i]
    return t


def tyield(t):
    if t[1] is None:
        return ""
    if not t[1]:
        return "" if is_nt(t[0]) else t[0]
    return "".join(tyield(c) for c in t[1])


def is_open(t):
    if t[1] is None:
        return True
    return any(is_open(c) for c in t[1])


def size(t):
    return sum(1 for _ in nodes(t))


def max_branch(t):
    return max((len(n[1]) for _, n in nodes(t) if n[1]), default=0)


def assign_ids(t, start=1):
    """returns (tree with fresh pre-order ids, next id)"""
    cnt = [start]

    def go(n):
        i = cnt[0]
        cnt[0] += 1
        return [n[0], None if n[1] is None else [go(c) for c in n[1]], i]

    return go(t), cnt[0]


def strip_ids(t):
    return (t[0], None if t[1] is None else tuple(strip_ids(c) for c in t[1]))


def replace(t, p, s):
    if not p:
        return s
    ch = list(t[1])
    ch[p[0]] = replace(ch[p[0]], p[1:], s)
    return [t[0], ch] + list(t[2:])


def valid(cg, t, root=None, allow_open=False):
    """t is a derivation tree of cg (rooted in `root` if given).

    An epsilon alternative may show up as no children or as a single "" terminal child.
    """
    if root is not None and t[0] != root:
        return False

    def ok(n):
        if not is_nt(n[0]):
            return n[1] is not None and len(n[1]) == 0
        if n[0] not in cg:
            return False
        if n[1] is None:
            return allow_open
        labs = [c[0] for c in n[1]]
        if labs == [""]:
            labs_ok = [] in cg[n[0]]
        else:
            labs_ok = labs in cg[n[0]]
        if not labs_ok:
            return False
        return all(ok(c) for c in n[1])

    return ok(t)


def why_invalid(cg, t, root=None, allow_open=False):
    if root is not None and t[0] != root:
        return "root %r != %r" % (t[0], root)
    for p, n in nodes(t):
        if not is_nt(n[0]):
            if n[1] is None or len(n[1]) != 0:
                return "terminal with children at %r" % (p,)
            continue
        if n[0] not in cg:
            return "unknown nonterminal %r at %r" % (n[0], p)
        if n[1] is None:
            if not allow_open:
                return "open leaf %r at %r" % (n[0], p)
            continue
        labs = [c[0] for c in n[1]]
        if labs == [""]:
            if [] not in cg[n[0]]:
                return "no epsilon alternative for %r at %r" % (n[0], p)
        elif labs not in cg[n[0]]:
            return "children %r of %r at %r match no alternative" % (labs, n[0], p)
    return None


def from_dt(dt):
    """isla DerivationTree -> ref tree (reads only .value/.children/.id)"""
    ch = dt.children
    return [dt.value, None if ch is None else [from_dt(c) for c in ch], dt.id]


def to_dt(t, with_ids=True):
    from isla.derivation_tree import DerivationTree
    kw = {}
    if with_ids and len(t) > 2 and t[2] is not None:
        kw["id"] = t[2]
    return DerivationTree(t[0], None if t[1] is None else [to_dt(c, with_ids) for c in t[1]], **kw)


def from_parse_tree(pt):
    return [pt[0], None if pt[1] is None else [from_parse_tree(c) for c in pt[1]], None]


# ---------------------------------------------------------------- recogniser

def spans(cg, s):
    """least fixpoint: T[A] = {(i,j) : A =>* s[i:j]}"""
    n = len(s)
    T = {k: set() for k in cg}
    tcache = {}

    def term_spans(t):
        if t not in tcache:
            tcache[t] = {(i, i + len(t)) for i in range(n - len(t) + 1) if s[i:i + len(t)] == t}
        return tcache[t]

    changed = True
    while changed:
        changed = False
        for k, alts in cg.items():
            for alt in alts:
                cur = {(i, i) for i in range(n + 1)}
                for sym in alt:
                    sp = T.get(sym, set()) if is_nt(sym) else term_spans(sym)
                    by_start = {}
                    for (c, d) in sp:
                        by_start.setdefault(c, []).append(d)
                    nxt = set()
                    for (a, b) in cur:
                        for d in by_start.get(b, ()):
                            nxt.add((a, d))
                    cur = nxt
                    if not cur:
                        break
                new = cur - T[k]
                if new:
                    T[k] |= new
                    changed = True
    return T


def member(cg, A, s):
    return (0, len(s)) in spans(cg, s)[A]


def count_trees(cg, A, s, cap=3):
    """number of derivation trees of s from A, capped; assumes no unit/nullable cycles."""
    T = spans(cg, s)
    memo = {}

    def cnt_sym(sym, i, j):
        if not is_nt(sym):
            return 1 if s[i:j] == sym else 0
        if (i, j) not in T[sym]:
            return 0
        key = (sym, i, j)
        if key in memo:
            return memo[key]
        memo[key] = 0  # cycle guard
        tot = 0
        for alt in cg[sym]:
            tot += cnt_seq(alt, 0, i, j)
            if tot >= cap:
                break
        memo[key] = min(tot, cap)
        return memo[key]

    def cnt_seq(alt, k, i, j):
        if k == len(alt):
            return 1 if i == j else 0
        if k == len(alt) - 1:
            return cnt_sym(alt[k], i, j)
        tot = 0
        for m in range(i, j + 1):
            a = cnt_sym(alt[k], i, m)
            if a:
                tot += a * cnt_seq(alt, k + 1, m, j)
                if tot >= cap:
                    return cap
        return tot

    return cnt_sym(A, 0, len(s))


def enumerate_strings(cg, A, max_len, cap=4000):
    """all strings of length <= max_len derivable from A (bounded fixpoint)."""
    lang = {k: set() for k in cg}
    changed = True
    while changed:
        changed = False
        for k, alts in cg.items():
            for alt in alts:
                cur = {""}
                for sym in alt:
                    opts = lang[sym] if is_nt(sym) else {sym}
                    cur = {x + y for x in cur for y in opts if len(x) + len(y) <= max_len}
                    if not cur:
                        break
                    if len(cur) > cap:
                        cur = set(itertools.islice(sorted(cur), cap))
                new = cur - lang[k]
                if new and len(lang[k]) < cap:
                    lang[k] |= new
                    changed = True
    return lang[A]


# ---------------------------------------------------------------- document order helpers

def pre_index(root):
    """idx[path] = pre-order number, last[path] = number of the last node in the subtree"""
    idx = {}
    last = {}
    order = [p for p, _ in nodes(root)]
    for i, p in enumerate(order):
        idx[p] = i
    # last via reverse pass
    for p in reversed(order):
        if p not in last:
            last[p] = idx[p]
        if p:
            par = p[:-1]
            last[par] = max(last.get(par, idx[par]), last[p])
    return idx, last
