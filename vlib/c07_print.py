"""C07 helper: the harness' *sugared* ISLa syntax tree and its printers.

vlib/fml.py prints core syntax only.  The round-trip property quantifies over every surface form
parse_isla accepts, so this module has a richer AST (JSON lists) and a printer that picks among the
concrete notations at random.  Written from IslaLanguage.g4 / MexprLexer.g4 and sphinx/islaspec.rst.

Formulas
  ["forall"|"exists", T, name|None, inref|None, mexpr|None, body]
        name None   = omitted bound-variable name (the nonterminal T addresses the variable)
        inref None  = omitted "in start";  ["v", x] = "in x";  ["nt", T2] = "in <T2>"
        mexpr       = fml.py element list: ["text", s] | ["nt", T] | ["bind", T, v] | ["opt", [...]]
  ["forallint"|"existsint", n, body]
  ["and"|"or", f, g, ...]  ["implies"|"iff"|"xor", f, g]  ["not", f]  ["par", f]
  ["pred", name, arg, ...]      arg = ref | ["s", raw text between the quotes] | ["i", int]
  ["smt", term]
References (wherever a variable may stand)
  ["v", name] | ["nt", "<T>"] | ["xp", head-ref, [[".", "<T>", idx|None] | ["..", "<T>"], ...]]
Terms
  ["ref", ref] | ["str", s, style] | ["int", n] | ["bool", b]
  ["app", op, [args]]                       op as written in SMT-LIB
  ["iapp", "re.loop"|"re.^", [i, ...], [args]]    indexed operator ((_ re.loop 1 3) r)
"""
from .gen import chance, pick

# ---- lexer facts (IslaLanguage.g4)
SMT_NONBINARY_OP = {
    "abs", "re.+", "re.*", "str.len", "str.in_re", "str.to_re", "re.none", "re.all", "re.allchar", "str.at",
    "str.substr", "str.prefixof", "str.suffixof", "str.contains", "str.indexof", "str.replace", "str.replace_all",
    "str.replace_re", "str.replace_re_all", "re.union", "re.inter", "re.comp", "re.diff", "re.opt", "re.range",
    "re.loop", "str.is_digit", "str.to_code", "str.from_code", "str.to.int", "str.from_int"}
# binding strength of the infix alternatives of rule `sexpr` (earlier alternative = tighter)
INFIX_LEVEL = {"re.++": 4, "str.++": 4, "str.<=": 4, "*": 3, "div": 3, "mod": 3, "+": 2, "-": 2,
               "=": 1, ">=": 1, "<=": 1, ">": 1, "<": 1}
KEYWORDS = {"forall", "exists", "int", "in", "not", "and", "or", "xor", "implies", "iff", "true", "false", "const",
            "div", "mod", "abs"}
CONN_LEVEL = {"not": 6, "and": 5, "or": 4, "xor": 3, "implies": 2, "iff": 1}


def printable(ch):
    return 32 <= ord(ch) < 127


def needs_escape(s):
    return any(ch in '"\\' or not printable(ch) for ch in s)


def lit(s, style="esc"):
    """SMT string literal in ISLa concrete syntax.
    esc : everything outside printable ASCII, '"' and '\\' as \\u{hex}
    q   : like esc, but '"' as \\"  (ISLa's own escape)
    raw : '"' as \\", backslash as \\u{5c}, NUL as \\u{0}, every other character as itself
          (raw control characters and raw non-ASCII)
    u4  : like q, but characters below U+10000 in the four-digit form \\udddd
    bs  : like raw, but a backslash that is followed by a letter other than 'u' is written as
          itself ("\\n" in ISLa text is backslash + n, not a newline: only \\u{..} and \\" are escapes)"""
    out = []
    for i, ch in enumerate(s):
        o = ord(ch)
        if ch == '"':
            out.append("\\u{22}" if style == "esc" else '\\"')
        elif ch == "\\":
            nxt = s[i + 1] if i + 1 < len(s) else ""
            if style == "bs" and nxt.isalpha() and nxt.isascii() and nxt != "u":
                out.append("\\")
            else:
                out.append("\\u{5c}")
        elif printable(ch):
            out.append(ch)
        elif style in ("raw", "bs") and o != 0:
            out.append(ch)
        elif style == "u4" and o < 0x10000:
            out.append("\\u%04x" % o)
        else:
            out.append("\\u{%x}" % o)
    return '"' + "".join(out) + '"'


def mexpr_text(s, rnd=None):
    """plain text of a match expression: '"' must be written \\" (the text sits inside an ISLa
    string token), a backslash \\\\; newline/tab either raw or as \\n / \\t (instantiate_escaped_symbols)"""
    out = []
    for ch in s:
        if ch == '"':
            out.append('\\"')
        elif ch == "\\":
            out.append("\\\\")
        elif ch == "\n" and rnd is not None and chance(rnd, 0.5):
            out.append("\\n")
        elif ch == "\t" and rnd is not None and chance(rnd, 0.5):
            out.append("\\t")
        else:
            out.append(ch)
    return "".join(out)


def mexpr_str(mx, rnd=None):
    out = []
    for e in mx:
        if e[0] == "text":
            out.append(mexpr_text(e[1], rnd))
        elif e[0] == "nt":
            out.append(e[1])
        elif e[0] == "bind":
            out.append("{" + e[1] + " " + e[2] + "}")
        elif e[0] == "opt":
            out.append("[" + mexpr_str(e[1], rnd) + "]")
    return "".join(out)


def ref_str(r):
    if r[0] == "v":
        return r[1]
    if r[0] == "nt":
        return r[1]
    if r[0] == "xp":
        s = ref_str(r[1])
        for seg in r[2]:
            if seg[0] == ".":
                s += "." + seg[1] + ("" if seg[2] is None else "[%d]" % seg[2])
            else:
                s += ".." + seg[1]
        return s
    raise ValueError(r)


class Printer:
    """prints a sugared AST; all notation choices come from `rnd`.  `forms` restricts the SMT
    notations ("sexpr", "prefix", "infix"); `feats` collects what was actually used."""

    def __init__(self, rnd, forms=("sexpr", "prefix", "infix"), layout=True):
        self.rnd = rnd
        self.forms = forms
        self.layout = layout
        self.feats = set()

    # ------------------------------------------------------------ terms
    def term(self, t, min_level=0):
        k = t[0]
        if k == "ref":
            r = t[1]
            if r[0] == "nt":
                self.feats.add("free_or_unnamed_nt")
            elif r[0] == "xp":
                self.feats.add("xpath")
                if any(s[0] == ".." for s in r[2]):
                    self.feats.add("xpath_descendant")
                if any(s[0] == "." and s[2] is not None for s in r[2]):
                    self.feats.add("xpath_index")
            return ref_str(r)
        if k == "str":
            if needs_escape(t[1]):
                self.feats.add("lit_escape")
                self.feats.add("lit_style:" + t[2])
            return lit(t[1], t[2])
        if k == "int":
            if t[1] < 0:
                self.feats.add("neg_literal")
                if chance(self.rnd, 0.3):
                    return "(- %d)" % -t[1]
            return str(t[1])
        if k == "bool":
            return "true" if t[1] else "false"
        if k == "iapp":
            head = "(_ %s %s)" % (t[1], " ".join(str(i) for i in t[2]))
            self.feats.add("smt_indexed_op")
            return "(" + head + " " + " ".join(self.term(a, 99) for a in t[3]) + ")"
        assert k == "app", t
        op, args = t[1], t[2]
        self.feats.add("op:" + op)
        if not args:
            if op in SMT_NONBINARY_OP and "prefix" in self.forms and chance(self.rnd, 0.5):
                self.feats.add("smt_prefix")
                return op + "()"
            return op
        cands = ["sexpr"]
        if op in SMT_NONBINARY_OP:
            cands += ["prefix", "prefix"]
        if op in INFIX_LEVEL and len(args) == 2 and INFIX_LEVEL[op] >= min_level:
            cands += ["infix", "infix"]
        cands = [c for c in cands if c in self.forms] or ["sexpr"]
        form = pick(self.rnd, cands)
        if form == "prefix":
            self.feats.add("smt_prefix")
            return op + "(" + ", ".join(self.term(a, 0) for a in args) + ")"
        if form == "infix":
            self.feats.add("smt_infix")
            lv = INFIX_LEVEL[op]
            # left-associative alternatives: the left operand may be of the same level
            return self.term(args[0], lv) + " " + op + " " + self.term(args[1], lv + 1)
        if op in SMT_NONBINARY_OP or op in INFIX_LEVEL:
            self.feats.add("smt_sexpr")
        return "(" + op + " " + " ".join(self.term(a, 99) for a in args) + ")"

    # ------------------------------------------------------------ formulas
    def sp(self, depth):
        if not self.layout:
            return " "
        r = self.rnd.random()
        if r < 0.6:
            return " "
        if r < 0.85:
            return "\n" + "  " * depth
        if r < 0.95:
            return "  "
        self.feats.add("comment")
        return " # " + pick(self.rnd, ["c", "forall x", "\"", "(", "äö"]) + "\n" + " " * depth

    def arg(self, a):
        if a[0] == "s":
            self.feats.add("pred_str_arg")
            return '"' + a[1] + '"'
        if a[0] == "i":
            self.feats.add("pred_int_arg")
            return str(a[1])
        return self.term(["ref", a])

    def formula(self, f, depth=0):
        k = f[0]
        rnd = self.rnd
        if k in ("forall", "exists"):
            _, T, name, inref, mx, body = f
            s = k + " " + T
            if name is None:
                self.feats.add("omitted_name")
            else:
                s += " " + name
            if mx is not None:
                self.feats.add("mexpr")
                if any(e[0] == "opt" for e in mx):
                    self.feats.add("mexpr_optional")
                txt = "".join(e[1] for e in mx if e[0] == "text") + "".join(
                    x[1] for e in mx if e[0] == "opt" for x in e[1] if x[0] == "text")
                if any(ch in '"\\\n\t' or not printable(ch) for ch in txt):
                    self.feats.add("mexpr_escaped_char")
                if "<" in txt or ">" in txt:
                    self.feats.add("mexpr_angle_text")
                s += ("=" if chance(rnd, 0.7) else " = ") + '"' + mexpr_str(mx, rnd) + '"'
            if inref is None:
                self.feats.add("omitted_in")
            else:
                if inref[0] == "nt":
                    self.feats.add("in_nonterminal")
                s += " in " + ref_str(inref)
            s += ":"
            b = self.formula(body, depth + 1)
            if body[0] in ("and", "or", "implies", "iff", "xor"):
                b = "(" + b + ")"
            return s + self.sp(depth + 1) + b
        if k in ("forallint", "existsint"):
            self.feats.add("numq")
            b = self.formula(f[2], depth + 1)
            if f[2][0] in ("and", "or", "implies", "iff", "xor"):
                b = "(" + b + ")"
            return ("forall" if k == "forallint" else "exists") + " int " + f[1] + ":" + self.sp(depth + 1) + b
        if k in ("and", "or", "implies", "iff", "xor"):
            if k in ("implies", "iff", "xor"):
                self.feats.add("conn:" + k)
            parts = []
            for i, x in enumerate(f[1:]):
                s = self.formula(x, depth + 1)
                xk = x[0]
                if xk in CONN_LEVEL and xk != "not":
                    # parentheses may be dropped where the grammar's precedence gives the same grouping
                    tighter = CONN_LEVEL[xk] > CONN_LEVEL[k] or (CONN_LEVEL[xk] == CONN_LEVEL[k] and i == 0)
                    if not (tighter and chance(rnd, 0.3)):
                        s = "(" + s + ")"
                elif xk in ("forall", "exists", "forallint", "existsint"):
                    if chance(rnd, 0.6):
                        s = "(" + s + ")"
                parts.append(s)
            return (self.sp(depth) + k + " ").join(parts)
        if k == "not":
            x = f[1]
            s = self.formula(x, depth + 1)
            if x[0] in ("and", "or", "implies", "iff", "xor") or chance(rnd, 0.5):
                return "not (" + s + ")"
            return "not " + s
        if k == "par":
            return "(" + self.formula(f[1], depth) + ")"
        if k == "pred":
            self.feats.add("pred:" + f[1])
            return f[1] + "(" + ", ".join(self.arg(a) for a in f[2:]) + ")"
        if k == "smt":
            return self.term(f[1], 0)
        raise ValueError(k)

    def constraint(self, f, const=None):
        s = self.formula(f)
        if const is not None:
            self.feats.add("const_decl")
            s = "const %s: %s;%s%s" % (const[0], const[1], self.sp(0), s)
        return s
