"""C14 helpers: numeric-grammar generator, achievable-length sets, numeral reading, needle facts.
Independent of /repo/src (only vlib.rt and the standard library)."""
import re
from . import rt, gen
from .gen import chance, pick

DIGITS = list("0123456789")
LEAD = list("123456789")
NUMERAL = re.compile(r"[+-]?[0-9]+")


def numeral_value(s):
    """sign-aware integer value of a numeral `[+-]?[0-9]+`, None for anything else"""
    if not NUMERAL.fullmatch(s):
        return None
    sign = -1 if s[0] == "-" else 1
    digits = s.lstrip("+-")
    v = 0
    for ch in digits:
        v = v * 10 + (ord(ch) - 48)
    return sign * v


def length_set(cg, upto):
    """S[A] = { n <= upto : A derives a string of length n }  (least fixpoint)"""
    S = {k: set() for k in cg}
    changed = True
    while changed:
        changed = False
        for k, alts in cg.items():
            for alt in alts:
                cur = {0}
                for sym in alt:
                    opts = S[sym] if rt.is_nt(sym) else {len(sym)}
                    cur = {a + b for a in cur for b in opts if a + b <= upto}
                    if not cur:
                        break
                new = cur - S[k]
                if new:
                    S[k] |= new
                    changed = True
    return S


def numeric_grammar(rnd):
    """A grammar with an integer-like nonterminal <int>.  Returns (grammar, type).
    Shapes follow the number formats named in ISLaSolver.extract_model_value's docstring
    (optional '+', '-', zero padding) plus near misses (suffix, fixed width, no zero)."""
    g = {}
    signs = pick(rnd, [None, ["", "-"], ["-", "+"], ["", "+", "-"], ["-", ""], ["+"], ["-"], ["", "+"], ["+", "-", ""],
                       ["", "-"]])
    pad = pick(rnd, ["", "0", "00", "<zeros>", "00", "0", "<zeros>", ""])
    body = pick(rnd, ["<lead><digits>", "<lead><digits>", "<digit><digits>", "<digits1>", "<digit>", "<digit><digit>",
                      "<lead><digit>", "<digit><digit><digit>", "<digit><digit><digit><digit>", "<digit><digit><digit>"])
    suffix = "x" if chance(rnd, 0.08) else ""
    alt = ("<sign>" if signs is not None else "") + pad + body + suffix
    alts = [alt]
    if "<lead>" in body and chance(rnd, 0.5):
        alts.append(("<sign>" if signs is not None and chance(rnd, 0.5) else "") + "0")
    if chance(rnd, 0.1):
        alts.append("<int>,<digit>" if chance(rnd, 0.5) else "(<int>)")
    if chance(rnd, 0.3):
        alts.reverse()
    g["<int>"] = alts
    if signs is not None:
        g["<sign>"] = signs
    if pad == "<zeros>":
        g["<zeros>"] = ["", "0<zeros>"] if chance(rnd, 0.5) else ["0<zeros>", ""]
    if "<digits>" in body:
        g["<digits>"] = ["", "<digit><digits>"] if chance(rnd, 0.6) else ["<digit><digits>", ""]
    if "<digits1>" in body:
        g["<digits1>"] = ["<digit><digits1>", "<digit>"] if chance(rnd, 0.5) else ["<digit>", "<digits1><digit>"]
    g["<digit>"] = list(DIGITS)
    if "<lead>" in body:
        g["<lead>"] = list(LEAD)
    wrap = rnd.randint(0, 3)
    if wrap == 0:
        top = {"<start>": ["<int>"]}
    elif wrap == 1:
        top = {"<start>": ["<ints>"], "<ints>": ["<int> <ints>", "<int>"]}
    elif wrap == 2:
        top = {"<start>": ["<rec>"], "<rec>": ["<key>=<int>"], "<key>": ["k", "l"]}
    else:
        top = {"<start>": ["<e>"], "<e>": ["<int>", "<int>+<e>"]}
    top.update(g)
    return top, "<int>"


def int_value(rnd):
    """integer targets: zero, small, negative, multi-digit, beyond 64 bit"""
    k = rnd.randint(0, 9)
    if k == 0:
        v = 0
    elif k <= 3:
        v = rnd.randint(1, 9)
    elif k <= 5:
        v = rnd.randint(10, 999)
    elif k == 6:
        v = rnd.randint(1000, 10 ** 9)
    elif k == 7:
        v = pick(rnd, [2 ** 31 - 1, 2 ** 31, 2 ** 63 - 1, 2 ** 63, 2 ** 64, 10 ** 18, 10 ** 19])
    elif k == 8:
        v = rnd.randint(10 ** 19, 10 ** 30)
    else:
        v = pick(rnd, [10, 100, 1000, 90, 99, 101, 1001])
    if rnd.randint(0, 9) < 4:     # (not `chance`: Hypothesis draws floats near 0 far too often)
        v = -v
    return v


def count_label(t, needle):
    return sum(1 for _, n in rt.nodes(t) if n[0] == needle)


def open_leaves_reaching(cg_reach, t, needle):
    """open leaves whose expansion can still produce a `needle` node (>= 1 derivation step)"""
    return [(p, n[0]) for p, n in rt.nodes(t) if n[1] is None and needle in cg_reach.get(n[0], ())]
