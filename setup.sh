#!/bin/sh
# offline dependency check: hypothesis must be importable by /venv/bin/python (it is pre-installed
# there; if not, install from the local wheelhouse into /verif/.deps, which vlib/env.py puts on sys.path)
cd "$(dirname "$0")"
/venv/bin/python -c "import hypothesis" 2>/dev/null && exit 0
mkdir -p .deps
/venv/bin/pip install --quiet --no-index --find-links /opt/veriftools/wheels --target .deps hypothesis
PYTHONPATH=.deps /venv/bin/python -c "import hypothesis"
