#!/bin/sh
# offline dependency check: hypothesis must be importable by /venv/bin/python (it is pre-installed
# there; if not, install from the local wheelhouse into /verif/.deps, which vlib/env.py puts on sys.path).
# atheris (coverage-guided campaign of the C10 thorough tier) is installed into /verif/.deps best-effort.
cd "$(dirname "$0")"
mkdir -p .deps
PYTHONPATH=.deps /venv/bin/python -c "import atheris" 2>/dev/null || \
  /venv/bin/pip install --quiet --no-index --find-links /opt/veriftools/wheels --target .deps atheris >/dev/null 2>&1 || true
/venv/bin/python -c "import hypothesis" 2>/dev/null && exit 0
/venv/bin/pip install --quiet --no-index --find-links /opt/veriftools/wheels --target .deps hypothesis
PYTHONPATH=.deps /venv/bin/python -c "import hypothesis"
