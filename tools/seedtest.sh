#!/bin/bash
# tools/seedtest.sh <seed-dir> <N> <check-id> [more check ids]   (sensitivity helper, not used by registered checks)
# seed-dir contains changeN.diff demoN.py ; makes a scratch copy of /repo/src with the change, confirms the demo
# fails with it and passes without, then runs the given quick checks against the copy (VERIF_REPO).
set -u
sd=$1; n=$2; shift 2
name=seed_$(basename $(dirname $sd))_$(basename $sd)_$n
d=/var/tmp/isla-mut/$name
rm -rf $d; mkdir -p $d && cp -r /repo/src $d/src
( cd $d && patch -p1 -s < $sd/change$n.diff ) || { echo "PATCH FAILED"; exit 3; }
echo "--- demo on unchanged tree:"; PYTHONPATH=/repo/src timeout 600 /venv/bin/python $sd/demo$n.py 2>&1 | grep -v -i "warn\|pkg_resources" | tail -3; echo "rc=${PIPESTATUS[0]}"
echo "--- demo with change:"; PYTHONPATH=$d/src timeout 600 /venv/bin/python $sd/demo$n.py 2>&1 | grep -v -i "warn\|pkg_resources" | tail -3; echo "rc=${PIPESTATUS[0]}"
for c in "$@"; do
  echo "--- check $c with change:"
  ( cd /verif && VERIF_REPO=$d VERIF_EVIDENCE_DIR=/var/tmp/isla-mut/evidence VERIF_WORKERS=${VERIF_WORKERS:-8} ./check $c --tier quick 2>&1 | grep -E "^violation signature|^VIOLATION|cases=|HARNESS" | sort | uniq | head -8 )
done
rm -rf $d
