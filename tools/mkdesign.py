#!/usr/bin/env python3
"""tools/mkdesign.py -- regenerate the tables of DESIGN.md section 3 (findings, from known_findings.json) and
section 3a (seeded changes, from seeded/*/meta*.json) in place.  Only table rows and the counts in the lead-in
sentences are rewritten; prose stays."""
import json, os, re, glob, subprocess
V = os.path.dirname(os.path.dirname(os.path.abspath(__file__)))
D = os.path.join(V, "DESIGN.md")

def clip(s, n):
    s = " ".join(str(s).split()).replace("|", "\\|")
    return s if len(s) <= n else s[:n - 1] + "…"

def main():
    F = json.load(open(os.path.join(V, "known_findings.json")))["findings"]
    for p in sorted(glob.glob(os.path.join(V, "known_findings.d", "*.json"))):
        x = json.load(open(p)); F += x["findings"] if isinstance(x, dict) else x
    fixed = sorted((f for f in F if f["status"] == "fixed"), key=lambda f: (f["property"], f.get("commit", ""), f["id"]))
    opn = sorted((f for f in F if f["status"] == "open"), key=lambda f: (f["property"], f["id"]))
    t_fixed = ["| property | commit | defect |", "|---|---|---|"] + \
              ["| %s | %s | %s |" % (f["property"], f.get("commit", "")[:7], clip(f["what"], 170)) for f in fixed]
    t_open = ["| property | id | defect |", "|---|---|---|"] + \
             ["| %s | `%s` | %s |" % (f["property"], f["id"], clip(f["what"], 230)) for f in opn]
    seeds = []
    for m in sorted(glob.glob(os.path.join(V, "seeded", "*", "meta*.json"))):
        j = json.load(open(m)); pid = os.path.basename(os.path.dirname(m)); n = re.search(r"meta(\d+)", m).group(1)
        seeds.append((pid, int(n), j))
    t_seed = ["| property | # | change | detected by |", "|---|---|---|---|"] + \
             ["| %s | %d | %s | %s |" % (p, n, clip(j.get("summary", ""), 200), clip(j.get("detected_by", ""), 160)) for p, n, j in seeds]
    ncommits = len([l for l in subprocess.run(["git", "-C", os.environ.get("VERIF_REPO", "/repo"), "log", "--format=%s"],
                                              capture_output=True, text=True).stdout.splitlines() if l.startswith("fix:")])
    L = open(D).read().split("\n")
    out, i, tables = [], 0, iter([t_fixed, t_open, t_seed])
    in3 = False
    while i < len(L):
        l = L[i]
        if l.startswith("## 3. "): in3 = True
        if l.startswith("## 4. "): in3 = False
        if in3 and l.startswith("| property |"):
            out += next(tables)
            while i < len(L) and L[i].startswith("|"): i += 1
            continue
        if in3:
            l = re.sub(r"\*\*Repaired \(\d+ findings\)", "**Repaired (%d findings)" % len(fixed), l)
            l = re.sub(r"\*\*Open \(\d+ findings", "**Open (%d findings" % len(opn), l)
            l = re.sub(r"^\(\d+ commits\)", "(%d commits)" % ncommits, l)
            l = re.sub(r"\d+ changes so far; all are detected", "%d changes so far; all are detected" % len(seeds), l)
        out.append(l); i += 1
    open(D, "w").write("\n".join(out))
    print("fixed", len(fixed), "open", len(opn), "seeds", len(seeds), "fix commits", ncommits)
main()
