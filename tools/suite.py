#!/usr/bin/env python3
"""tools/suite.py [repo_dir] -- run the repository's pinned suite (xdist, 14 workers) and compare with
/root/.vp/BASELINE.json: prints baseline-passing tests that now fail, and baseline failures that now pass.
Helper for 'fix:' commits; not used by registered checks."""
import json, os, subprocess, sys, tempfile, xml.etree.ElementTree as ET
repo = sys.argv[1] if len(sys.argv) > 1 else "/repo"
base = json.load(open("/root/.vp/BASELINE.json"))
out = tempfile.mktemp(suffix=".xml", dir="/var/tmp")
env = dict(os.environ, PYTHONPATH=os.path.join(repo, "src"))
subprocess.run(["/venv/bin/python", "-m", "pytest", "-q", "-p", "no:cacheprovider", "-p", "no:randomly", "--timeout=900",
                "--continue-on-collection-errors", "-n", "14", "--junitxml=" + out], cwd=repo, env=env,
               stdout=subprocess.DEVNULL, stderr=subprocess.DEVNULL)
passed, failed = set(), set()
for tc in ET.parse(out).getroot().iter("testcase"):
    tid = "%s::%s" % (tc.get("classname"), tc.get("name"))
    if any(c.tag in ("failure", "error") for c in tc):
        failed.add(tid)
    elif not any(c.tag == "skipped" for c in tc):
        passed.add(tid)
os.unlink(out)
sp = set(base["stable_pass"])
print("passed", len(passed), "failed", len(failed))
# tests that carry Z3 timeouts fail under machine load: re-run apparent regressions one by one
for tid in sorted(sp - passed):
    cls, name = tid.split("::")
    mod = cls.rsplit(".", 1)[0].replace(".", "/") + ".py"
    r = subprocess.run(["/venv/bin/python", "-m", "pytest", "-q", "-p", "no:cacheprovider", "-p", "no:randomly", "--timeout=900",
                        "%s::%s::%s" % (mod, cls.rsplit(".", 1)[1], name)], cwd=repo, env=env, stdout=subprocess.PIPE, stderr=subprocess.STDOUT)
    if r.returncode == 0:
        print("  (passes when run alone: %s)" % tid)
        passed.add(tid)
print("REGRESSIONS (baseline pass, now not passing):", sorted(sp - passed))
print("newly passing:", sorted(passed - sp))
sys.exit(1 if sp - passed else 0)
