#!/venv/bin/python
"""Coverage-guided byte-level campaign for C10 (atheris / libFuzzer), used by the thorough tier.

usage: fuzz_c10.py <corpus_dir> <out_json> [libFuzzer flags, e.g. -runs=50000 -seed=1]

The bytes are decoded by a data provider into (grammar index, start nonterminal, string over the
grammar's terminal characters); the semantic oracle of props/c10_parser.py (independent fixpoint
recogniser + tree validator) runs inside the target.  A violation is written to <out_json> and the
process exits non-zero (libFuzzer additionally saves the crashing input).  ISLa keeps no state
between parses that matters here; the grammar objects are rebuilt per iteration.
"""
import json
import os
import sys

HERE = os.path.dirname(os.path.dirname(os.path.abspath(__file__)))
sys.path.insert(0, HERE)
from vlib import env  # noqa: E402

env.setup()
import atheris  # noqa: E402

with atheris.instrument_imports(include=["isla.parser"]):
    import isla.parser  # noqa: F401
from props import c10_parser  # noqa: E402
from vlib import rt  # noqa: E402

GRAMMARS = [
    {"<start>": ["<a>"], "<a>": ["<a>b", "", "c<a>"]},
    {"<start>": ["<e>"], "<e>": ["<e>+<e>", "(<e>)", "1", "<n><n>"], "<n>": ["", "1"]},
    {"<start>": ["<s>"], "<s>": ["<x><y><x>"], "<x>": ["a", "", "ab"], "<y>": ["b", "<x>b", ""]},
    {"<start>": ["<l>"], "<l>": ["<i>,<l>", "<i>"], "<i>": ["<d><i>", "<d>", "(<l>)"], "<d>": ["0", "1"]},
    {"<start>": ["<p>"], "<p>": ["<p><q>", "<q>", ""], "<q>": ["ab", "a", "b<q>"]},
    {"<start>": ["<stmt>"], "<stmt>": ["<assgn> ; <stmt>", "<assgn>"], "<assgn>": ["<var> := <rhs>"], "<rhs>": ["<var>", "<digit>"],
     "<var>": ["a", "b"], "<digit>": ["0", "1"]},
]
for _g in GRAMMARS:
    assert not rt.has_unit_cycle(rt.canon(_g)), _g  # the property excludes infinitely ambiguous grammars
OUT = None
STATS = {"runs": 0, "member": 0, "nonmember": 0}


def one(data):
    fdp = atheris.FuzzedDataProvider(data)
    g = GRAMMARS[fdp.ConsumeIntInRange(0, len(GRAMMARS) - 1)]
    cg = rt.canon(g)
    nts = list(g.keys())
    A = "<start>" if fdp.ConsumeBool() else nts[fdp.ConsumeIntInRange(0, len(nts) - 1)]
    chars = sorted({ch for alts in cg.values() for a in alts for s in a if not rt.is_nt(s) for ch in s}) or ["a"]
    n = fdp.ConsumeIntInRange(0, 10)
    s = "".join(chars[fdp.ConsumeIntInRange(0, len(chars) - 1)] for _ in range(n))
    case = {"grammar": g, "nt": A, "s": s}
    res = c10_parser.judge(case)
    STATS["runs"] += 1
    STATS["member" if "member" in res["labels"] else "nonmember"] += 1
    if res["violations"]:
        with open(OUT, "w") as f:
            json.dump({"property": "C10", "case": case, "violation": res["violations"][0], "stats": STATS}, f, indent=1, default=str)
        raise RuntimeError("C10 violation: %s" % res["violations"][0]["sig"])


def main():
    global OUT
    corpus, OUT = sys.argv[1], sys.argv[2]
    argv = [sys.argv[0], corpus] + sys.argv[3:]
    import atexit  # noqa: F401  (atexit does not run under libFuzzer: stats are written by the target)
    atheris.Setup(argv, one)
    try:
        atheris.Fuzz()
    finally:
        pass


if __name__ == "__main__":
    main()
