#!/usr/bin/env python3
"""tools/keepseed.py <PROP> <seed-out-dir> <N> <caught_by_text> -- store a confirmed seeded change under /verif/seeded/<PROP>/"""
import sys, os, json, shutil
prop, sd, n, caught = sys.argv[1:5]
d = "/verif/seeded/%s" % prop
os.makedirs(d, exist_ok=True)
k = len([f for f in os.listdir(d) if f.startswith("patch")]) + 1
shutil.copy(os.path.join(sd, "change%s.diff" % n), os.path.join(d, "patch%d.diff" % k))
shutil.copy(os.path.join(sd, "demo%s.py" % n), os.path.join(d, "demo%d.py" % k))
meta = json.load(open(os.path.join(sd, "meta%s.json" % n)))
meta["breaks_property"] = prop
meta["confirmed_by_lead"] = ("tools/seedtest.sh: patch applied to a scratch copy of /repo/src; demo exits 0 on the unchanged tree and 1 with the "
                             "change; quick checks run against the copy via VERIF_REPO")
meta["detected_by"] = caught
json.dump(meta, open(os.path.join(d, "meta%d.json" % k), "w"), indent=1)
print("stored", d, k)
