#!/usr/bin/env python3
"""Regenerates /verif/MANIFEST.json from the table below (kept in one place so it stays valid)."""
import json, os
HERE = os.path.dirname(os.path.dirname(os.path.abspath(__file__)))
CHECKS = json.load(open(os.path.join(HERE, "tools", "checks.json")))
NOT_YET = {}
props = [json.loads(l) for l in open(os.path.join(HERE, "properties.jsonl"))]
checks = []
na = []
for p in props:
    pid = p["id"]
    if pid in CHECKS:
        c = CHECKS[pid]
        checks.append({
            "property_id": pid,
            "quick_cmd": "./check %s --tier quick" % pid,
            "thorough_cmd": "./check %s --tier thorough" % pid,
            "evidence_file": "/verif/evidence/%s.json" % pid,
            "replay_cmd_template": "./check %s --replay {path}" % pid,
            "engine": "hypothesis-runner",
            "level_claimed": {"category": "exploration", "text": c["text"], "design_ref": c["ref"]},
            "level_note": c["note"],
            "technique": c["tech"],
        })
    else:
        na.append({"property_id": pid, "reason": NOT_YET.get(pid, "check not built yet in this session (planned in DESIGN.md); nothing is claimed for it")})
m = {
 "version": 1,
 "setup_cmd": "./setup.sh",
 "hooks": {"guard": "RINDPHI_ISLA_VERIF", "enable": "no hooks are needed: every observation point is a public return value, exception or process output; checks import /repo/src directly (vlib/env.py)",
           "baseline_off_cmd": "cd /repo && /venv/bin/python -m pytest -ra -q -p no:cacheprovider --timeout=900 --continue-on-collection-errors",
           "source_commits": [], "add_only": True},
 "engines": [{"name": "hypothesis-runner", "path": "/verif/vlib/runner.py", "serves_properties": [c["property_id"] for c in checks],
              "kind_free_text": "16-way sharded Hypothesis search (seeded from VERIF_SEED) over JSON-able cases with per-property reference oracles, cooperative+hard watchdogs, known-findings exclusion, JSON replay files"}],
 "checks": checks,
 "not_applicable": na,
 "notes": "See DESIGN.md. known_findings.json lists open/fixed defects; corpus/<ID>/ holds regression inputs replayed first by every run.",
}
json.dump(m, open(os.path.join(HERE, "MANIFEST.json"), "w"), indent=1)
print("checks:", len(checks), "not_applicable:", len(na))
