#!/usr/bin/env python3
"""Regenerates /verif/MANIFEST.json from the table below (kept in one place so it stays valid)."""
import json, os
HERE = os.path.dirname(os.path.dirname(os.path.abspath(__file__)))
CHECKS = {
 "C10": dict(tech="Hypothesis-generated (grammar, string) cases, differential against an independent fixpoint chart recogniser and tree validator",
             text="Generated-input search: random acyclic grammars (epsilon, ambiguity, left/right recursion, multi-char terminals) and strings (yields, single-edit mutants, random) are parsed by EarleyParser and ISLaSolver.parse/check and compared with an independent recogniser and tree validator. Held on everything generated; no proof of absence.",
             note="Trusts the harness' naive span-fixpoint recogniser (self-tested against brute-force enumeration at start-up); strings up to length 10; grammars up to 6 nonterminals.",
             ref="DESIGN.md section 2, C10"),
}
CHECKS["C04"] = dict(
 tech="Hypothesis-generated trees; per tree exhaustive enumeration of all ordered node pairs, nth indices and level operators; oracle = pre-order interval arithmetic",
 text="Generated-input search over trees (random grammars incl. wide alternatives up to 40 children, zoo grammars); for every tree ALL ordered node pairs are judged for all nine standard structural predicates through the registered predicate objects and (sampled) end-to-end through evaluate(). Held on everything generated except the listed known finding; no proof of absence.",
 note="Trusts the interval oracle (self-tested against the specification's recursive isBefore). consecutive/nth/level are judged strictly only on the sub-domain where the documentation is unambiguous; implications on the rest.",
 ref="DESIGN.md section 2, C04")
CHECKS["C11"] = dict(
 tech="Hypothesis-generated grammars with arbitrary terminal strings; round trip unparse_grammar/parse_bnf compared by identity and by bounded language equality with the harness' own enumerator/recogniser",
 text="Generated-input search over dictionary grammars whose terminals contain control characters, quotes, backslashes, escape look-alikes, non-ASCII, '<' and '>' and empty alternatives: parse_bnf(unparse_grammar(g)) must not raise, must equal g when no terminal contains '<', and must have the same language (all strings up to length 6, both directions) from every nonterminal of g. Held on everything generated; no proof of absence.",
 note="Language equality is bounded (length <= 6, capped enumeration); nonterminal names restricted to those both lexers accept.",
 ref="DESIGN.md section 2, C11")
NOT_YET = {}
props = [json.loads(l) for l in open(os.path.join(HERE, "properties.jsonl"))]
checks = []
na = []
for p in props:
    pid = p["id"]
    if pid in CHECKS:
        c = CHECKS[pid]
        checks.append({
            "property_id": pid,
            "quick_cmd": "./check %s --tier quick" % pid,
            "thorough_cmd": "./check %s --tier thorough" % pid,
            "evidence_file": "/verif/evidence/%s.json" % pid,
            "replay_cmd_template": "./check %s --replay {path}" % pid,
            "engine": "hypothesis-runner",
            "level_claimed": {"category": "exploration", "text": c["text"], "design_ref": c["ref"]},
            "level_note": c["note"],
            "technique": c["tech"],
        })
    else:
        na.append({"property_id": pid, "reason": NOT_YET.get(pid, "check not built yet in this session (planned in DESIGN.md); nothing is claimed for it")})
m = {
 "version": 1,
 "setup_cmd": "./setup.sh",
 "hooks": {"guard": "RINDPHI_ISLA_VERIF", "enable": "no hooks are needed: every observation point is a public return value, exception or process output; checks import /repo/src directly (vlib/env.py)",
           "baseline_off_cmd": "cd /repo && /venv/bin/python -m pytest -ra -q -p no:cacheprovider --timeout=900 --continue-on-collection-errors",
           "source_commits": [], "add_only": True},
 "engines": [{"name": "hypothesis-runner", "path": "/verif/vlib/runner.py", "serves_properties": [c["property_id"] for c in checks],
              "kind_free_text": "16-way sharded Hypothesis search (seeded from VERIF_SEED) over JSON-able cases with per-property reference oracles, cooperative+hard watchdogs, known-findings exclusion, JSON replay files"}],
 "checks": checks,
 "not_applicable": na,
 "notes": "See DESIGN.md. known_findings.json lists open/fixed defects; corpus/<ID>/ holds regression inputs replayed first by every run.",
}
json.dump(m, open(os.path.join(HERE, "MANIFEST.json"), "w"), indent=1)
print("checks:", len(checks), "not_applicable:", len(na))
