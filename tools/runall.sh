#!/bin/bash
# tools/runall.sh [tier] -- run every registered check once, print one status line each (helper, not registered)
cd /verif
tier=${1:-quick}
for id in $(python3 -c "import json;print(' '.join(c['property_id'] for c in json.load(open('MANIFEST.json'))['checks']))"); do
  s=$(date +%s)
  out=$(./check $id --tier $tier 2>&1); rc=$?
  e=$(date +%s)
  echo "$id rc=$rc $((e-s))s $(echo "$out" | grep -E "^$id (quick|thorough)" | cut -c1-230)"
  echo "$out" | grep -E "^VIOLATION|HARNESS-ERROR" | head -3
done
