#!/usr/bin/env python3
"""tools/mut.py NAME FILE OLD NEW -- make a scratch copy of /repo/src under /var/tmp/isla-mut/NAME
with one textual replacement (first occurrence) in src/isla/FILE; prints the VERIF_REPO to use.
tools/mut.py --rm NAME removes it.  Sensitivity-testing helper, not used by registered checks."""
import sys, os, shutil
base = "/var/tmp/isla-mut"
if sys.argv[1] == "--rm":
    shutil.rmtree(os.path.join(base, sys.argv[2]), ignore_errors=True); sys.exit(0)
name, fn, old, new = sys.argv[1:5]
d = os.path.join(base, name)
if not os.path.exists(d):
    os.makedirs(d)
    shutil.copytree("/repo/src", os.path.join(d, "src"), ignore=shutil.ignore_patterns("__pycache__"))
p = os.path.join(d, "src", fn if "/" in fn else "isla/" + fn)
s = open(p).read()
assert s.count(old) >= 1, "pattern not found"
open(p, "w").write(s.replace(old, new, 1))
print(d)
