"""C04 -- structural predicates for every ordered pair of nodes of a tree."""
from vlib import rt, gen
from vlib.gen import chance, pick

ID = "C04"
CASES = {"quick": 640, "thorough": 40000}
SOFT = 60
HARD = 240
RULE = ("case = random grammar (recursive, epsilon, wide alternatives up to 40 symbols) + a closed derivation tree "
        "(<= ~60 nodes); per tree ALL ordered node pairs (incl. identical and ancestor/descendant) are judged for "
        "before/after/inside/direct_child/same_position/different_position/consecutive, nth for every index "
        "0..occurrences+1 (int and numeric string), level for all 5 operators and every nonterminal labelling a node; "
        "predicate objects from STANDARD_STRUCTURAL_PREDICATES for all pairs, plus sampled pairs end-to-end through "
        "evaluate() on a StructuralPredicateFormula; oracle = pre-order interval arithmetic (not path comparison); "
        "non-trivial = tree with >= 3 nodes (pairs of distinct nodes exist); distinct by tree hash. "
        "coverage.pair_evaluations counts single predicate evaluations")
ASSUMPTIONS = ["consecutive is judged strictly on leaf pairs only (documentation says 'leaves'); on other pairs only consecutive => before",
               "nth is judged strictly when the two nodes carry different labels (documentation leaves the other corner open); level is judged strictly on every pair on which three readings of the informal description coincide (they differ only where an argument or the root is itself labelled with the level nonterminal); convention-independent consequences are checked on all pairs"]


def selftest():
    # isBefore of the specification (recursive on paths) vs interval formulation on a small tree
    t = ["<a>", [["<b>", [["x", []], ["<c>", [["y", []]]]]], ["<c>", [["z", []]]], ["w", []]]]
    idx, last = rt.pre_index(t)

    def is_before_spec(p1, p2):
        if not p1 or not p2:
            return False
        if p1[0] < p2[0]:
            return True
        if p1[0] > p2[0]:
            return False
        return is_before_spec(p1[1:], p2[1:])

    ps = [p for p, _ in rt.nodes(t)]
    for a in ps:
        for b in ps:
            assert (last[a] < idx[b]) == is_before_spec(a, b), (a, b)


def generate(rnd, tier):
    zoo = chance(rnd, 0.35)
    if zoo:
        name = pick(rnd, ["blk", "lang", "xml", "eps"])
        g = gen.ZOO[name]
    else:
        g = gen.grammar(rnd, max_nts=5, wide=True, alphabet=["a", "b", "c", "x", "y", "(", ")", ";"])
    cg = rt.canon(g)
    # the largest of three draws that stays at a size where all-pairs enumeration is cheap
    t = None
    for _ in range(3):
        d = rnd.randint(3, 8)
        c = gen.tree(rnd, cg, "<start>", d, bias=0.9)
        while rt.size(c) > 80 and d > 1:
            d -= 1
            c = gen.tree(rnd, cg, "<start>", d, bias=0.5)
        if t is None or rt.size(t) < rt.size(c) <= 80:
            t = c
    return {"grammar": g, "tree": t, "rseed": rnd.randint(0, 10 ** 6)}


def _lcp(a, b):
    k = 0
    while k < min(len(a), len(b)) and a[k] == b[k]:
        k += 1
    return k


def judge(case):
    import random as pyrandom
    from isla import isla_predicates as P
    from isla import language
    from isla.evaluator import evaluate
    g, t = case["grammar"], case["tree"]
    t = rt.assign_ids(t)[0]
    if rt.size(t) > 90:
        return {"labels": ["too_big"], "nontrivial": False, "violations": [], "inconclusive": "too_big"}
    dt = rt.to_dt(t)
    ns = list(rt.nodes(t))
    order = [p for p, _ in ns]
    pre, last = rt.pre_index(t)
    lab = {p: n[0] for p, n in ns}
    leaves = [p for p, n in ns if not n[1]]
    leafidx = {p: i for i, p in enumerate(leaves)}
    nts_in_tree = sorted({l for l in lab.values() if rt.is_nt(l)})
    preds = {p.name: p for p in P.STANDARD_STRUCTURAL_PREDICATES}
    viol = {}
    stats = {"pairs": 0, "evals": 0}
    labels = set()
    if rt.max_branch(t) > 28:
        labels.add("branch>28")

    def bad(sig, **kw):
        if sig not in viol:
            viol[sig] = dict(sig=sig, **kw)

    def call(name, *args):
        stats["evals"] += 1
        try:
            return bool(preds[name].evaluate(dt, *args))
        except Exception as e:
            return "raises:" + type(e).__name__

    def anc(p, T):
        return frozenset(p[:k] for k in range(len(p)) if lab[p[:k]] == T)

    level_nts = nts_in_tree[:4]
    for a in order:
        for b in order:
            stats["pairs"] += 1
            inside = pre[b] <= pre[a] <= last[b]
            if a == b:
                rel = "identical"
            elif inside or (pre[a] <= pre[b] <= last[a]):
                rel = "ancestor_descendant"
            elif _lcp(a, b) == 0:
                rel = "disjoint_root_prefix"
            else:
                rel = "disjoint_deep_prefix"
            labels.add(rel)
            exp = {"before": last[a] < pre[b], "after": last[b] < pre[a], "inside": inside,
                   "direct_child": len(a) == len(b) + 1 and a[:-1] == b,
                   "same_position": a == b, "different_position": a != b}
            for k, e in exp.items():
                got = call(k, a, b)
                if got != e:
                    bad("%s:%s" % (k, rel if not isinstance(got, str) else got), pred=k, a=a, b=b, expected=e, observed=got)
            # consecutive
            got = call("consecutive", a, b)
            if isinstance(got, str):
                bad("consecutive:" + got, a=a, b=b)
            elif a in leafidx and b in leafidx:
                e = leafidx[b] == leafidx[a] + 1
                if got != e:
                    bad("consecutive:leaves:%s:%s" % ("root_prefix" if _lcp(a, b) == 0 else "nonroot_prefix",
                                                      "holds_with_leaves_between" if got else "fails_on_adjacent_leaves"),
                        a=a, b=b, expected=e, observed=got)
            elif got and not exp["before"]:
                bad("consecutive:holds_but_not_before", a=a, b=b)
            # nth
            if rt.is_nt(lab[a]):
                occ = [q for q in order if pre[b] <= pre[q] <= last[b] and lab[q] == lab[a]]
                holds = []
                for N in range(0, len(occ) + 2):  # 0: no node is a "0-th occurrence" (counting starts at 1)
                    for Narg in (N, str(N)):
                        got = call("nth", Narg, a, b)
                        if isinstance(got, str):
                            bad("nth:" + got, N=Narg, a=a, b=b)
                            continue
                        if got and Narg == N:
                            holds.append(N)
                        if lab[a] != lab[b]:
                            e = inside and 1 <= N <= len(occ) and occ[N - 1] == a
                            if got != e:
                                bad("nth:strict", N=Narg, a=a, b=b, expected=e, observed=got)
                if len(holds) > 1:
                    bad("nth:not_unique", a=a, b=b, holds=holds)
                if holds and not inside:
                    bad("nth:holds_outside", a=a, b=b, holds=holds)
            # level
            for T in level_nts:
                res = {}
                for op in ("EQ", "GE", "LE", "GT", "LT"):
                    res[op] = call("level", op, T, a, b)
                    if isinstance(res[op], str):
                        bad("level:" + res[op], op=op, T=T, a=a, b=b)
                if any(isinstance(v, str) for v in res.values()):
                    continue
                # Three readings of the informal description: S = set formulation over proper ancestors labelled T;
                # C0/C1 = the definition documented in isla_predicates.level_check ("there has to be a common prefix
                # of both paths pointing to a T node [or the empty prefix] such that the remaining path fragments ..."),
                # with the argument node itself excluded from / included in its "remaining fragment".  They coincide
                # unless an argument (or the root) is itself labelled T; a pair is judged strictly only where all
                # three agree, so no reading is forced on the code.
                A, B = anc(a, T), anc(b, T)
                readings = [{"EQ": A == B, "GE": A <= B, "LE": B <= A, "GT": A < B, "LT": B < A}]
                k = 0
                while k < min(len(a), len(b)) and a[k] == b[k]:
                    k += 1
                prefixes = [()] + [a[:m] for m in range(1, k + 1) if lab[a[:m]] == T]
                for incl in (0, 1):
                    r = {op: False for op in ("EQ", "GE", "LE", "GT", "LT")}
                    for pfx in prefixes:
                        o1 = [a[:m] for m in range(len(pfx) + 1, len(a) + incl) if lab[a[:m]] == T]
                        o2 = [b[:m] for m in range(len(pfx) + 1, len(b) + incl) if lab[b[:m]] == T]
                        r["EQ"] |= (not o1 and not o2)
                        r["GE"] |= (not o1)
                        r["LE"] |= (not o2)
                        r["GT"] |= (not o1 and bool(o2))
                        r["LT"] |= (not o2 and bool(o1))
                    readings.append(r)
                for op in ("EQ", "GE", "LE", "GT", "LT"):
                    vals = {rd[op] for rd in readings}
                    if len(vals) == 1:
                        e_op = vals.pop()
                        if res[op] != e_op:
                            bad("level:strict:" + op, T=T, a=a, b=b, expected=e_op, observed=res[op])
                    else:
                        labels.add("level_readings_differ")
                if res["EQ"] and not (res["GE"] and res["LE"]):
                    bad("level:EQ_without_GE_LE", T=T, a=a, b=b, observed=res)
                if res["GT"] and not res["GE"]:
                    bad("level:GT_without_GE", T=T, a=a, b=b, observed=res)
                if res["LT"] and not res["LE"]:
                    bad("level:LT_without_LE", T=T, a=a, b=b, observed=res)
    # end-to-end through evaluate() on sampled pairs
    rng = pyrandom.Random(case.get("rseed", 0))
    try:
        from grammar_graph import gg
        graph = gg.GrammarGraph.from_grammar(g)
    except Exception:
        graph = None
    if graph is not None:
        for _ in range(12):
            a = rng.choice(order)
            b = rng.choice(order)
            sa, sb = dt.get_subtree(a), dt.get_subtree(b)
            inside = pre[b] <= pre[a] <= last[b]
            exp = {"before": last[a] < pre[b], "after": last[b] < pre[a], "inside": inside,
                   "direct_child": len(a) == len(b) + 1 and a[:-1] == b,
                   "same_position": a == b, "different_position": a != b}
            for k, e in exp.items():
                stats["evals"] += 1
                try:
                    f = language.StructuralPredicateFormula(preds[k], sa, sb)
                    r = evaluate(f, dt, g, graph=graph)
                    got = True if r.is_true() else False if r.is_false() else "UNKNOWN"
                except Exception as ex:
                    got = "raises:" + type(ex).__name__
                if got != e:
                    bad("evaluate:%s" % k, a=a, b=b, expected=e, observed=got)
    labels.add("nodes>=20" if len(order) >= 20 else "nodes<20")
    return {"labels": sorted(labels), "nontrivial": len(order) >= 3, "violations": list(viol.values()),
            "inconclusive": None, "counters": {"pair_evaluations": stats["evals"], "pairs": stats["pairs"]},
            "sample": {"tree": rt.tyield(t)[:80], "nodes": len(order), "pair_evals": stats["evals"], "tree_struct": _brief(t)}}


def _brief(t, depth=0):
    if t[1] is None:
        return t[0] + "?"
    if not t[1]:
        return t[0]
    if depth > 3:
        return t[0] + "(...)"
    return t[0] + "(" + " ".join(_brief(c, depth + 1) for c in t[1]) + ")"
