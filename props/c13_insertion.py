"""C13 -- tree insertion (existential_helpers.insert_tree) yields valid trees that keep every node of
the host and contain the inserted tree."""
import os
import sys
import hashlib
import signal
import json
import subprocess
import traceback

from vlib import rt, gen
from vlib import c13_insert as ci
from vlib.gen import chance, pick

ID = "C13"
CASES = {"quick": 6000, "thorough": 120000}
SOFT = 12
HARD = 90
RULE = ("case = grammar (random: recursive/epsilon/multi-char terminals, with or without unit cycles; or zoo) + host "
        "derivation tree (closed, partly open, or a single open nonterminal; rooted in <start> or in another "
        "nonterminal; explicit unique ids) + tree to insert (single open nonterminal / prefix tree with open leaves / "
        "small closed tree; disjoint ids; its label mostly one for which some method can succeed) + methods bitmask "
        "1..7 + max_num_solutions in {None,1,2,5,10,50,default} + graph passed or not; oracle per returned tree: harness "
        "validity (child-label sequence of every inner node is an alternative; open leaves allowed) with the host's "
        "root label, all ids unique, every host node id present with its label, a node with the inserted root's id "
        "whose subtree contains the inserted tree (labels and child-label sequences wherever the inserted tree is "
        "expanded, and the id of every inserted node at its relative path); when insert_tree trips one of its own "
        "assertions the same call is repeated with the assertions of existential_helpers compiled away (as python -O "
        "does; a real `python -O` child if an assertion elsewhere fires) and what is then returned is judged; "
        "non-trivial = >= 1 result and host with >= 3 nodes; distinct by case hash")
ASSUMPTIONS = ["ids of the case's trees are below the id counter of DerivationTree (as for every tree ISLa creates itself); "
               "the counter is set to 10^6 at the start of each case",
               "an internal AssertionError that returns no tree is not a violation of the property (it is about results); "
               "the same call is repeated with assertions disabled and the returned trees are judged",
               "exceptions other than AssertionError are recorded as class crash:* and bounded by a health floor "
               "(3 % of cases -> exit 2), not judged",
               "'contains the inserted tree' is read as: the inserted tree is a prefix of the subtree at the inserted "
               "root's id, node identities included (the solver substitutes match-expression variables by these nodes and "
               "asserts that they are found in the result)"]

MAXSOL = [None, 1, 2, 5, 10, 50]


def selftest():
    cg = rt.canon(gen.ZOO["lang"])
    host = rt.assign_ids(["<start>", [["<stmt>", None]]])[0]                      # ids 1,2
    ins = ["<assgn>", [["<var>", None, 101], [" := ", [], 102], ["<rhs>", None, 103]], 100]
    good = ["<start>", [["<stmt>", [ins], 2]], 1]
    assert ci.check_result(cg, host, ins, good) == [], ci.check_result(cg, host, ins, good)

    def sigs(r):
        return sorted(s for s, _ in ci.check_result(cg, host, ins, r))

    assert sigs(["<start>", [["<stmt>", [ins], 7]], 1]) == ["host_node_lost"]
    assert sigs(["<start>", [["<stmt>", [ins], 1]], 1]) == ["duplicate_ids", "host_node_lost"]
    assert sigs(["<stmt>", [ins], 2]) == ["host_node_lost", "invalid_root"]
    assert sigs(["<start>", [["<stmt>", [["<assgn>", None, 100]], 2]], 1]) == ["inserted_node_reexpanded"]
    other = ["<assgn>", [["<var>", None, 101], [" := ", [], 102], ["<rhs>", [["<var>", None, 104]], 103]], 100]
    assert sigs(["<start>", [["<stmt>", [other], 2]], 1]) == []
    ins2 = ["<assgn>", [["<var>", None, 101], [" := ", [], 102], ["<rhs>", [["<digit>", None, 104]], 103]], 100]
    assert sorted(s for s, _ in ci.check_result(cg, host, ins2, ["<start>", [["<stmt>", [other], 2]], 1])) == ["inserted_node_reexpanded"]
    other[1][2][2] = 77
    assert sorted(s for s, _ in ci.check_result(cg, host, ins2, ["<start>", [["<stmt>", [other], 2]], 1])) == ["inserted_node_replaced"]
    assert sigs(["<start>", [["<stmt>", [["<assgn>", None, 5]], 2]], 1]) == ["inserted_root_missing"]
    bad_inner = ["<assgn>", [["<var>", None, 101], [" := ", [], 102], ["<rhs>", None, 9]], 100]
    assert sigs(["<start>", [["<stmt>", [bad_inner], 2]], 1]) == ["inserted_open_leaf_id_changed"]
    by_host = ["<assgn>", [["<var>", None, 101], [" := ", [], 102], ["<rhs>", None, 2]], 100]
    assert "inserted_open_leaf_taken_by_host_node" in sigs(["<start>", [["<stmt>", [by_host], 7]], 1])
    inner = ["<start>", [["<stmt>", [["<assgn>", [["<var>", None, 101], [" := ", [], 9], ["<rhs>", None, 103]], 100]], 2]], 1]
    assert sigs(inner) == ["inserted_inner_id_changed"]
    assert sigs(["<start>", [["<stmt>", [ins, ins], 2]], 1])[:2] == ["duplicate_ids", "invalid_tree"]
    relabel = ["<start>", [["<assgn>", [["<var>", None, 101], [" := ", [], 102], ["<rhs>", None, 103]], 2]], 1]
    assert "host_node_relabelled" in sigs(relabel)
    # an expanded open leaf of the inserted tree is still "contained"
    grown = ["<assgn>", [["<var>", [["a", [], 50]], 101], [" := ", [], 102], ["<rhs>", None, 103]], 100]
    assert sigs(["<start>", [["<stmt>", [grown], 2]], 1]) == []
    # the assertion-free copy of the module under test really has no assertions, the normal one has
    from isla import existential_helpers as eh
    from isla.derivation_tree import DerivationTree
    na = ci.noassert_module()
    two = DerivationTree("<a>", [DerivationTree("x", [], id=5)], id=5)
    try:
        eh.insert_trees([], two, {}, None, 1)
        raise RuntimeError("insert_trees accepted duplicate ids with assertions on")
    except AssertionError:
        pass
    assert na.insert_trees([], two, {}, None, 1) == [] and na.insert_tree is not eh.insert_tree


# ------------------------------------------------------------------ generator

def _grammar(rnd):
    r = rnd.random()
    if r > 0.65:
        name = pick(rnd, ["lang", "blk", "xml", "eps", "csv", "rec", "int", "pairs", "pairs", "amb"])
        return name, gen.ZOO[name]
    if r > 0.55:
        return "random_raw", gen.grammar(rnd, max_nts=6)
    return "random", gen.acyclic_grammar(rnd, max_nts=6)


def _eps_child(t):
    if t[1] is None:
        return t
    if not t[1]:
        return [t[0], [["", []]]] if rt.is_nt(t[0]) else t
    return [t[0], [_eps_child(c) for c in t[1]]]


def generate(rnd, tier):
    # Hypothesis' own draws are strongly biased towards minimal values (a third of the cases came out as
    # "methods=1, host of < 5 nodes"); most cases therefore expand one Hypothesis draw into a uniform stream.
    # The rest keep the native (shrinkable, small-biased) draws.
    genmode = "native"
    bits = rnd.getrandbits(48)
    # 31 of 32 first draws switch to the derived stream; Hypothesis re-uses the prefixes of the native ones for
    # its mutations, which brings them to 15-20 % of the cases
    if bits != 0 and hashlib.sha256(str(bits).encode()).digest()[0] >= 8:
        import random as _random
        rnd = _random.Random(bits)
        genmode = "derived"
    gname, g = _grammar(rnd)
    cg = rt.canon(g)
    md = rt.min_depths(cg)
    nts = list(cg.keys())
    methods = rnd.randint(1, 7)
    # host
    root = "<start>" if not chance(rnd, 0.3) else pick(rnd, nts)
    shape = rnd.random()
    if shape > 0.93:
        host = [root, None]
    else:
        # direct embedding alone can only use open leaves: closed hosts are kept rare for it
        p_open = pick(rnd, [0.0, 0.15, 0.15, 0.3, 0.3, 0.5] if methods == 1 else [0.0, 0.0, 0.15, 0.15, 0.3, 0.5])
        host = gen.tree(rnd, cg, root, rnd.randint(1, 5), md, p_open=p_open)
        if rt.size(host) > 60:
            host = gen.tree(rnd, cg, root, 2, md, p_open=p_open, bias=0.3)
    # an epsilon expansion is written <A>() by ISLa's parser and <A>("") by its fuzzers; both occur
    eps_style = "empty_terminal_child" if chance(rnd, 0.3) else "no_children"
    if eps_style == "empty_terminal_child":
        host = _eps_child(host)
    host = rt.assign_ids(host, 1)[0]
    # inserted type: mostly a label occurring in the host (context addition, self embedding) or something
    # reachable from a host node (direct embedding); sometimes anything
    reach = rt.reach(cg)
    labs = sorted(set(n[0] for _, n in rt.nodes(host) if rt.is_nt(n[0])))
    inhost = [l for l in labs if l != "<start>"]
    below = sorted(set(x for l in labs for x in reach.get(l, ())))
    others = [k for k in nts if k != "<start>"]
    # labels for which some method can succeed at all: reachable from an open leaf (direct embedding), or
    # reachable from / equal to a recursive nonterminal labelling a host node (self embedding, context addition)
    useful = set()
    for _, n in rt.nodes(host):
        if rt.is_nt(n[0]):
            r = reach.get(n[0], set())
            if n[1] is None:
                useful |= r
            if n[0] in r:
                useful |= r | {n[0]}
    useful = sorted(useful - {"<start>"})
    w = rnd.random()
    if w < 0.7 and useful:
        T = pick(rnd, useful)
    elif w < 0.8 and inhost:
        T = pick(rnd, inhost)
    elif w < 0.9 and below:
        T = pick(rnd, below)
    else:
        T = pick(rnd, others)
    kind = rnd.random()
    if kind < 0.35:
        ins = [T, None]
    elif kind < 0.8:
        ins = gen.tree(rnd, cg, T, rnd.randint(0, 3), md, p_open=0.5)
    else:
        ins = gen.tree(rnd, cg, T, rnd.randint(0, 2), md)
    if rt.size(ins) > 40:
        ins = [T, None]
    if eps_style == "empty_terminal_child":
        ins = _eps_child(ins)
    ins = rt.assign_ids(ins, 1000)[0]
    case = {"grammar": g, "gname": gname, "genmode": genmode, "host": host, "insert": ins, "methods": methods,
            "graph_given": not chance(rnd, 0.15)}
    ms = pick(rnd, MAXSOL + [50])
    if not (ms == 50 and chance(rnd, 0.5)):
        case["max_num_solutions"] = ms       # otherwise: the default of the signature (50)
    return case


# ------------------------------------------------------------------ judge

def _rerun_optimized(case):
    """the same call in a child interpreter with assertions disabled"""
    here = os.path.dirname(os.path.dirname(os.path.abspath(__file__)))
    c = dict(case)
    c["_budget"] = SOFT
    env = dict(os.environ)
    env["PYTHONHASHSEED"] = "0"
    p = subprocess.run([sys.executable, "-O", os.path.join(here, "vlib", "c13_insert.py")], input=json.dumps(c),
                       capture_output=True, text=True, timeout=SOFT + 5, env=env)
    for line in p.stdout.splitlines():
        if line.startswith("@@C13@@"):
            return json.loads(line[len("@@C13@@"):])
    return {"exc": "child_failed", "where": "rc=%s" % p.returncode, "msg": (p.stderr or "")[-300:]}


def _norm(t):
    """JSON may have been through tuples; make it lists with 3 fields"""
    return [t[0], None if t[1] is None else [_norm(c) for c in t[1]], t[2] if len(t) > 2 else None]


def judge(case):
    # the runner's watchdog is a one-shot timer; an alarm that happens to be delivered inside a __del__ or a gc
    # callback is swallowed by the interpreter and the case would then run until the hard kill (seen once in
    # 8 000 cases).  Make the armed timer repeat.
    rem, interval = signal.getitimer(signal.ITIMER_REAL)
    if rem > 0 and interval == 0:
        signal.setitimer(signal.ITIMER_REAL, rem, 2.0)
    case = dict(case)
    case["host"] = _norm(case["host"])
    case["insert"] = _norm(case["insert"])
    g = case["grammar"]
    cg = rt.canon(g)
    host, ins = case["host"], case["insert"]
    methods = case["methods"]
    labels = ["methods=%d" % methods, "host_open" if rt.is_open(host) else "host_closed",
              "host_root_start" if host[0] == "<start>" else "host_root_other",
              "grammar=" + ("zoo" if case.get("gname") in gen.ZOO else str(case.get("gname", "?"))),
              "insert=" + ("open_nonterminal" if ins[1] is None else "prefix_tree" if rt.is_open(ins) else "closed_tree"),
              "maxsol=" + str(case.get("max_num_solutions", "default")), "gen=" + str(case.get("genmode", "?"))]
    if host[1] is None:
        labels.append("host_single_open_node")
    if rt.has_unit_cycle(cg):
        labels.append("unit_cycle_grammar")
    if any(n[0] == "" for _, n in list(rt.nodes(host)) + list(rt.nodes(ins))):
        labels.append("epsilon_as_empty_terminal")
    if any(rt.is_nt(n[0]) and n[1] == [] for _, n in list(rt.nodes(host)) + list(rt.nodes(ins))):
        labels.append("epsilon_as_no_children")
    reach = rt.reach(cg)
    if any(rt.is_nt(n[0]) and (ins[0] in reach.get(n[0], ()) or n[0] == ins[0]) for _, n in rt.nodes(host)):
        labels.append("type_reachable_from_host")
    else:
        labels.append("type_unreachable")
    viol = {}
    counters = {}

    def bad(sig, **kw):
        viol.setdefault(sig, dict(sig=sig, **kw))

    # precondition of the harness itself
    hid = [n[2] for _, n in rt.nodes(host)]
    iid = [n[2] for _, n in rt.nodes(ins)]
    assert len(set(hid + iid)) == len(hid) + len(iid) and max(hid + iid) < ci.ID_FLOOR, "harness: ids not disjoint"
    assert rt.valid(cg, host, allow_open=True) and rt.valid(cg, ins, allow_open=True), "harness: invalid input tree"

    mode = "normal"
    try:
        results = ci.call_insert(case)
    except AssertionError as e:
        tb = traceback.extract_tb(e.__traceback__)
        where = "%s:%d" % (tb[-1].name, tb[-1].lineno)
        labels.append("internal_assertion")
        labels.append("internal_assertion@" + tb[-1].name)
        counters["internal_assertions"] = 1
        # same call with the assertions of existential_helpers compiled away (what `python -O` does to that
        # module), in-process; if an assertion of another module fires then, a real `python -O` child decides
        try:
            out = {"results": ci.call_insert(case, noassert=True), "optimized": True}
        except AssertionError:
            labels.append("optimized_rerun_in_child")
            out = _rerun_optimized(case)
        except Exception as e2:
            out = {"exc": type(e2).__name__, "msg": str(e2)[:200]}
        if "results" not in out:
            labels.append("optimized_rerun_" + ("timeout" if out.get("exc") in ("child_failed",) else "crash"))
            return {"labels": labels, "nontrivial": False, "violations": [], "inconclusive": "assertion_then_no_result",
                    "counters": counters, "sample": {"assertion": where, "rerun": out}}
        if not out.get("optimized"):
            raise RuntimeError("harness: child interpreter did not run with -O")
        results = out["results"]
        mode = "optimized"
        labels.append("judged_after_optimized_rerun")
    except Exception as e:
        tb = traceback.extract_tb(e.__traceback__)
        # an exception raised while an `assert` of existential_helpers evaluates its condition (assert
        # graph.tree_is_valid(t) raises SyntaxError for an invalid tree) is an internal assertion in disguise: with the
        # assertions compiled away (python -O) the call returns trees, and those are judged
        results = None
        if any(fr.filename.endswith("existential_helpers.py") and (fr.line or "").lstrip().startswith("assert ") for fr in tb):
            try:
                results = ci.call_insert(case, noassert=True)
            except Exception:
                results = None
        if results is None:
            labels.append("crash")
            labels.append("crash:%s@%s" % (type(e).__name__, tb[-1].name))
            counters["crashes"] = 1
            return {"labels": labels, "nontrivial": False, "violations": [], "inconclusive": None, "counters": counters,
                    "sample": {"crash": "%s@%s:%d %s" % (type(e).__name__, tb[-1].name, tb[-1].lineno, str(e)[:200])}}
        mode = "optimized"
        labels.append("exception_inside_assertion")
        labels.append("judged_after_optimized_rerun")

    nres = len(results)
    labels.append("results=0" if nres == 0 else "results=1" if nres == 1 else "results=2-9" if nres < 10 else "results>=10")
    counters["results"] = nres
    for idx, r in enumerate(results):
        for sig, detail in ci.check_result(cg, host, ins, r):
            # signature = kind of damage : "ctx" when context addition took part, else the method mask : mode
            bad("%s:%s:%s" % (sig, "ctx" if methods & 4 else "methods=%d" % methods, mode), detail=detail,
                result_index=idx, result=r, n_results=nres)
    hsize = rt.size(host)
    labels.append("host_nodes>=10" if hsize >= 10 else "host_nodes>=3" if hsize >= 3 else "host_nodes<3")
    return {"labels": labels, "nontrivial": nres >= 1 and hsize >= 3, "violations": list(viol.values()),
            "inconclusive": None, "counters": counters,
            "sample": {"grammar": case.get("gname"), "host": _brief(host), "insert": _brief(ins), "methods": methods,
                       "n_results": nres, "first_result": _brief(results[0]) if results else None}}


def _brief(t, depth=0):
    if t[1] is None:
        return t[0] + "?"
    if not t[1]:
        return repr(t[0]) if not rt.is_nt(t[0]) else t[0] + "()"
    if depth > 4:
        return t[0] + "(...)"
    return t[0] + "(" + " ".join(_brief(c, depth + 1) for c in t[1]) + ")"


def health(stats, tier):
    n = max(1, stats["evaluations"])
    cl = stats["classes"]
    if cl.get("crash", 0) > 0.03 * n:
        return "insert_tree raised a non-assertion exception in %d of %d cases (floor 3%%): %s" % (
            cl.get("crash", 0), n, {k: v for k, v in cl.items() if k.startswith("crash:")})
    if stats["distinct_nontrivial"] < 0.18 * n:
        return "only %d of %d cases non-trivial" % (stats["distinct_nontrivial"], n)
    for m in range(1, 8):
        if cl.get("methods=%d" % m, 0) == 0 and n >= 200:
            return "method mask %d never drawn" % m
    if n >= 200 and (cl.get("host_open", 0) == 0 or cl.get("host_closed", 0) == 0):
        return "open or closed hosts missing"
    return None
