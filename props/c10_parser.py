"""C10 -- the parser accepts exactly the grammar's language and returns faithful trees."""
import itertools
from vlib import rt, gen
from vlib.gen import chance, pick

ID = "C10"
CASES = {"quick": 10000, "thorough": 400000}
SOFT = 6
HARD = 120
# thorough tier: additionally a coverage-guided byte-level campaign (atheris) over six fixed grammars with
# the same oracle inside the target; 8 processes, fresh empty corpora
FUZZ = {"script": "tools/fuzz_c10.py", "runs": 400000, "procs": 8, "max_len": 64, "budget_s": 3000}
RULE = ("case = (random acyclic grammar with epsilon rules / ambiguity / left+right recursion / multi-char "
        "terminals, start nonterminal, string of length <= 10 that is a yield, a single-edit mutant of a yield or "
        "a random string over the grammar's characters); oracle = naive fixpoint chart recogniser + own tree "
        "validator; non-trivial = string non-empty, or empty with a nullable start; distinct by (grammar, "
        "nonterminal, string) hash")
ASSUMPTIONS = ["grammars without unit/nullable cycles (property excludes infinitely ambiguous grammars)",
               "the reference recogniser (least fixpoint over spans) is correct; self-tested against brute-force enumeration"]


def selftest():
    g = {"<start>": ["<a>"], "<a>": ["<a>b", "", "c<a>"]}
    cg = rt.canon(g)
    lang = rt.enumerate_strings(cg, "<start>", 4)
    import itertools as it
    for n in range(5):
        for tup in it.product("bc", repeat=n):
            s = "".join(tup)
            assert rt.member(cg, "<start>", s) == (s in lang), s
    # c* b* language
    assert rt.member(cg, "<start>", "ccbb") and not rt.member(cg, "<start>", "bc")
    assert rt.valid(cg, ["<start>", [["<a>", [["<a>", []], ["b", []]]]]], "<start>")
    assert not rt.valid(cg, ["<start>", [["<a>", [["b", []]]]]], "<start>")
    assert rt.count_trees(cg, "<start>", "") == 1
    g2 = {"<start>": ["<e>"], "<e>": ["<e>+<e>", "1"]}
    assert rt.count_trees(rt.canon(g2), "<start>", "1+1+1", cap=5) == 2


def nullable_grammar(rnd):
    """grammars whose nullability is *transitive* and passes through alternatives that repeat a nullable
    nonterminal (<A> ::= <B><B>), with such nonterminals used several times in a row (x<A><A>y): the shapes on
    which nullable-set computation and the nullable advance in predict/complete go wrong"""
    k = rnd.randint(3, 5)
    nts = ["<n%d>" % i for i in range(k)]
    g = {"<start>": ["<n0>"]}
    terms = ["a", "b", "x", "y"]
    for i in reversed(range(k)):
        later = nts[i + 1:]
        alts = []
        if not later:
            alts = ["", pick(rnd, terms)] + ([pick(rnd, terms) + pick(rnd, terms)] if chance(rnd, 0.4) else [])
        else:
            for _ in range(rnd.randint(1, 3)):
                n = rnd.randint(1, 3)
                syms = []
                for _j in range(n):
                    x = pick(rnd, later)
                    syms.append(x)
                    if chance(rnd, 0.55):
                        syms.append(x)  # immediate repetition of the same nonterminal
                if i == 0 or chance(rnd, 0.35):
                    # terminals around / between the nullable run
                    pos = rnd.randint(0, len(syms))
                    syms.insert(pos, pick(rnd, terms))
                    if chance(rnd, 0.5):
                        syms.append(pick(rnd, terms))
                alts.append("".join(syms))
            if chance(rnd, 0.3):
                alts.append("")
            if chance(rnd, 0.3):
                alts.append(pick(rnd, terms))
        g[nts[i]] = list(dict.fromkeys(alts))
    # every nonterminal reachable: chain unreachable ones into <n0>
    cg = rt.canon(g)
    R = rt.reach(cg)
    for i in range(1, k):
        if nts[i] not in R["<start>"]:
            g["<n0>"].append(nts[i] + nts[i])
            cg = rt.canon(g)
            R = rt.reach(cg)
    return {kk: g[kk] for kk in ["<start>"] + nts}


def generate(rnd, tier):
    if chance(rnd, 0.3):
        g = nullable_grammar(rnd)
        if rt.has_unit_cycle(rt.canon(g)):
            g = gen.acyclic_grammar(rnd, max_nts=5, alphabet=["a", "b", "(", "ab", "c", ")"])
    else:
        g = gen.acyclic_grammar(rnd, max_nts=5, alphabet=["a", "b", "(", "ab", "c", ")"])
    if chance(rnd, 0.15):
        # <start> used recursively on a right-hand side (between terminals, so no unit cycle arises)
        k = pick(rnd, [x for x in g if x != "<start>"])
        g = dict(g)
        g[k] = list(g[k]) + [pick(rnd, ["(<start>)", "a<start>", "<start>b", "(<start>", "a<start>b<start>"])]
    cg = rt.canon(g)
    md = rt.min_depths(cg)
    nts = list(g.keys())
    A = "<start>" if chance(rnd, 0.7) else pick(rnd, nts)
    chars = sorted({ch for alts in cg.values() for a in alts for s in a if not rt.is_nt(s) for ch in s}) or ["a"]
    mode = rnd.randint(0, 3)
    s = rt.tyield(gen.tree(rnd, cg, A, rnd.randint(0, 5), md))
    if mode == 1 and s:
        i = rnd.randint(0, len(s) - 1)
        k = rnd.randint(0, 2)
        if k == 0:
            s = s[:i] + s[i + 1:]
        elif k == 1:
            s = s[:i] + pick(rnd, chars) + s[i:]
        else:
            s = s[:i] + pick(rnd, chars) + s[i + 1:]
    elif mode == 2:
        s = "".join(pick(rnd, chars) for _ in range(rnd.randint(0, 6)))
    s = s[:10]
    return {"grammar": g, "nt": A, "s": s}


def judge(case):
    from isla.parser import EarleyParser
    from isla.solver import ISLaSolver
    g, A, s = case["grammar"], case["nt"], case["s"]
    cg = rt.canon(g)
    exp = rt.member(cg, A, s)
    labels = ["member" if exp else "nonmember", "start" if A == "<start>" else "other_nt"]
    nul = rt.nullable(cg)
    if nul:
        labels.append("has_nullable")
    ntrees = rt.count_trees(cg, A, s, cap=3) if exp else 0
    if ntrees > 1:
        labels.append("ambiguous")
    if any(a and a[0] == k for k, alts in cg.items() for a in alts):
        labels.append("leftrec")
    viol = []

    def bad(sig, **kw):
        viol.append(dict(sig=sig, **kw))

    def check_tree(t, root, what):
        r = rt.why_invalid(cg, t, root)
        if r is not None:
            bad(what + ":invalid_tree", detail=r, tree=t)
        elif rt.tyield(t) != s:
            bad(what + ":wrong_string", detail=rt.tyield(t), tree=t)

    if A == "<start>":
        try:
            trees = list(itertools.islice(EarleyParser(g).parse(s), 40))
            got = True
        except SyntaxError:
            trees = []
            got = False
        except Exception as e:
            bad("earley:raises:" + type(e).__name__, detail=str(e)[:300])
            got = None
        if got is not None:
            if got and not trees:
                got = False
            if got != exp:
                bad("earley:accepts_nonmember" if got else "earley:rejects_member", expected=exp, observed=got)
            for pt in trees:
                check_tree(rt.from_parse_tree(pt), "<start>", "earley")
                if viol:
                    break
            if len(trees) > 1:
                labels.append("multi_trees")
    # ISLaSolver.parse / check
    try:
        solver = ISLaSolver(g)
    except Exception as e:
        return {"labels": labels + ["ctor_error:" + type(e).__name__], "nontrivial": False, "violations": viol,
                "inconclusive": None if viol else "ctor_error"}
    try:
        if A == "<start>":
            dt = solver.parse(s, silent=True)
        else:
            dt = solver.parse(s, nonterminal=A, silent=True)
        got = True
    except SyntaxError:
        got = False
    except Exception as e:
        bad("solver.parse:raises:" + type(e).__name__, detail=str(e)[:300])
        got = None
    if got is not None:
        if got != exp:
            bad("solver.parse:accepts_nonmember" if got else "solver.parse:rejects_member", expected=exp, observed=got)
        elif got:
            check_tree(rt.from_dt(dt), A, "solver.parse")
    if A == "<start>":
        try:
            c = solver.check(s)
            if bool(c) != exp:
                bad("solver.check:wrong", expected=exp, observed=bool(c))
        except Exception as e:
            bad("solver.check:raises:" + type(e).__name__, detail=str(e)[:300])
    nontrivial = bool(s) or (A in nul)
    return {"labels": labels, "nontrivial": nontrivial, "violations": viol, "inconclusive": None}


def health(stats, tier):
    c = stats["classes"]
    n = max(1, stats["evaluations"])
    if c.get("member", 0) < 0.15 * n or c.get("nonmember", 0) < 0.15 * n:
        return "member/nonmember split degenerate: %s" % c
    return None
