"""C08 -- simplified syntax means exactly its documented core translation."""
import re

from vlib import rt, gen, fml
from vlib import c08_sugar as S
from vlib.gen import chance, pick

ID = "C08"
CASES = {"quick": 800, "thorough": 30000}
SOFT = 90
HARD = 300
RULE = ("case = (grammar: zoo or random, without unit cycles; constraint in ISLa's simplified syntax with every sugar feature "
        "drawn independently: omitted `in start`, omitted bound-variable names, `in <T>`, free nonterminals (several, in "
        "predicates, under exists, also <start>), XPath child steps with/without [i], several expressions per variable, "
        "multi-step chains, the descendant axis `..` (after child steps, on match-expression variables, on the constant), "
        "XPath in predicate arguments, prefix/infix/S-expression operator notation and mixtures, negative literals, "
        "implies/iff/xor, precedence-based omission of parentheses, user-written match expressions, variable names re-used in "
        "sibling scopes; up to 8 closed derivation trees of <= 60 nodes). "
        "Oracle: the harness desugars the constraint to core ISLa following the specification text (vlib/c08_sugar.py) "
        "and compares evaluate(sugar) (1) with evaluate(core text) and (2) with the reference semantics of the core AST "
        "(vlib/fml.py) on every tree; any parser error other than the documented merge conflict on such a text is a "
        "violation, bucketed by (recognised root-cause shape, normalised message). non-trivial = >= 1 sugar feature, some "
        "quantifier domain non-empty, both verdicts occur among the judged trees; distinct by (grammar, sugared text)")
ASSUMPTIONS = ["(constraint, tree) pairs on which the placement of an introduced universal quantifier matters are not judged: the "
               "specification puts it outermost (free nonterminals) / directly inside the binding quantifier (`..`), the implementation "
               "documents pushing it inwards; the readings compared are: none pushed, all pushed, each one pushed (after negation "
               "normal form), and the same with atoms that Z3's simplifier folds to a constant removed first -- they differ only when "
               "the quantifier's domain is empty",
               "several XPath expressions on one variable must be mergeable (documented 'Could not merge' error is a rejection); "
               "child steps on a variable whose quantifier has a user-written match expression, and on the constant, are not generated "
               "(no documented translation); grammars with A =>+ A are not used (an XPath-derived tree prefix cannot be written as a "
               "match expression there)",
               "reference flags (ambiguous match expression, nth with equal labels, level on the level nonterminal) exclude the pair; "
               "pairs needing more than 300 atom evaluations in the reference (1200 per case) are skipped (cost bound, deterministic)",
               "operator precedence among infix SMT operators is taken to be the usual one (* div mod over + - over comparisons), "
               "the only combination the specification shows is `17 + str.to.int(y) = str.to.int(x)`; not > and > or as in the "
               "specification's `A and not B or B and not A`",
               "a parser failure is attributed to an open finding only if the formula has that finding's shape (vlib/c08_sugar.features) "
               "and the error is of the kind that shape produces; everything else is reported as `parse:unexplained:...`"]

XML_SPEC = {"<start>": ["<xml-tree>"],
            "<xml-tree>": ["<text>", "<xml-open-tag><xml-tree><xml-close-tag>", "<xml-tree><xml-tree>"],
            "<xml-open-tag>": ["<<id>>", "<<id> <xml-attribute>>"], "<xml-close-tag>": ["</<id>>"],
            "<xml-attribute>": ["<id>=<id>", "<xml-attribute> <xml-attribute>"], "<id>": ["<LETTER>", "<id><LETTER>"],
            "<text>": ["<text><LETTER_SPACE>", "<LETTER_SPACE>"], "<LETTER>": ["a", "b", "c"], "<LETTER_SPACE>": ["a", "b", " "]}


def _v(n):
    return ["ref", ["v", n]]


def _lang_tree(s):
    stmts = s.split(" ; ")

    def assgn(a):
        l, r = a.split(" := ")
        rk = "<var>" if r in "abc" else "<digit>"
        return ["<assgn>", [["<var>", [[l, []]]], [" := ", []], ["<rhs>", [[rk, [[r, []]]]]]]]

    def stmt(i):
        if i == len(stmts) - 1:
            return ["<stmt>", [assgn(stmts[i])]]
        return ["<stmt>", [assgn(stmts[i]), [" ; ", []], stmt(i + 1)]]

    return ["<start>", [stmt(0)]]


def selftest():
    cg = rt.canon(gen.ZOO["lang"])
    # "Omission of Bound Variable Names": exists <assgn>: <assgn> = "x := y"
    F = ["exists", "<assgn>", None, None, None, ["smt", ["app", "i", "=", ["ref", ["nt", "<assgn>"]], ["str", "x := y"]]]]
    assert S.pr_sugar(F) == 'exists <assgn>: (<assgn> = "x := y")', S.pr_sugar(F)
    d = S.desugar(cg, F)
    assert d["core"] == ["exists", "<assgn>", "n1", "start", None, ["smt", ["=", ["var", "n1"], ["str", "x := y"]]]], d["core"]
    # "Propositional Combinators"
    A, B = ["smt", ["app", "i", "=", _v("start"), ["str", "a"]]], ["smt", ["app", "i", "=", _v("start"), ["str", "b"]]]
    a, b = ["smt", ["=", ["var", "start"], ["str", "a"]]], ["smt", ["=", ["var", "start"], ["str", "b"]]]
    assert S.desugar(cg, ["xor", A, B])["core"] == ["or", ["and", a, ["not", b]], ["and", b, ["not", a]]]
    assert S.desugar(cg, ["implies", A, B])["core"] == ["or", ["not", a], b]
    assert S.desugar(cg, ["iff", A, B])["core"] == ["or", ["and", a, b], ["and", ["not", a], ["not", b]]]
    assert S.pr_sugar(["flat", ["or", ["and", A, ["not", B]], ["and", B, ["not", A]]]]) == \
        '(start = "a" and not start = "b" or start = "b" and not start = "a")'
    # generalized SMT-LIB syntax: 17 + str.to.int(y) = str.to.int(x)
    t = ["app", "i", "=", ["app", "i", "+", ["int", 17], ["app", "p", "str.to.int", _v("y")]], ["app", "p", "str.to.int", _v("x")]]
    assert S.sterm_str(t) == "17 + str.to.int(y) = str.to.int(x)"
    assert fml.term_str(S.Desugarer(cg).core_term(t)) == "(= (+ 17 (str.to.int y)) (str.to.int x))"
    assert fml.term_str(S.Desugarer(cg).core_term(["app", "i", "<", _v("x"), ["int", -1]])) == "(< x (- 1))"
    # the worked XML example of "X-Path Expressions"
    xcg = rt.canon(XML_SPEC)
    F = ["smt", ["app", "i", "=", ["ref", ["xp", ["nt", "<xml-open-tag>"], [[".", "<id>", None]]]], ["str", "a"]]]
    assert S.pr_sugar(F) == '<xml-open-tag>.<id> = "a"'
    c = S.desugar(xcg, F)["core"]
    assert fml.pr(c) == ('(forall <xml-open-tag> n1="<{<id> x2}>" in start: ((= x2 "a")) and '
                         'forall <xml-open-tag> n1="<{<id> x2} <xml-attribute>>" in start: ((= x2 "a")))'), fml.pr(c)
    F = ["smt", ["app", "i", "=", ["ref", ["xp", ["nt", "<xml-open-tag>"], [[".", "<id>", None], ["..", "<LETTER>", None]]]], ["str", "a"]]]
    assert S.pr_sugar(F) == '<xml-open-tag>.<id>..<LETTER> = "a"'
    c = S.desugar(xcg, F)["core"]
    assert fml.pr(c) == ('(forall <xml-open-tag> n1="<{<id> x2}>" in start: (forall <LETTER> d3 in x2: ((= d3 "a"))) and '
                         'forall <xml-open-tag> n1="<{<id> x2} <xml-attribute>>" in start: (forall <LETTER> d3 in x2: ((= d3 "a"))))'), fml.pr(c)
    # the definition-use constraint in its most concise form ("Simplified Syntax by Example")
    F = ["exists", "<assgn>", "decl", None, None,
         ["and", ["pred", "before", ["r", ["v", "decl"]], ["r", ["nt", "<assgn>"]]],
          ["smt", ["app", "i", "=", ["ref", ["xp", ["nt", "<assgn>"], [[".", "<rhs>", None], [".", "<var>", None]]]],
                   ["ref", ["xp", ["v", "decl"], [[".", "<var>", None]]]]]]]]
    assert S.pr_sugar(F) == 'exists <assgn> decl: ((before(decl, <assgn>) and <assgn>.<rhs>.<var> = decl.<var>))'
    d = S.desugar(cg, F)
    assert fml.pr(d["core"]) == ('forall <assgn> n1="<var> := {<var> x3}" in start: (exists <assgn> decl="{<var> x2} := <rhs>" in start: '
                                 '((before(decl, n1) and (= x3 x2))))'), fml.pr(d["core"])
    for s, want in [("a := 1 ; b := a", True), ("a := 1 ; b := c", False), ("a := 1", True), ("a := a", False)]:
        assert fml.sat(cg, _lang_tree(s), d["core"])[0] is want, s
    # placement variants: `<var> = "a" and <digit> = "1"` differs between placements exactly on empty domains
    F = ["and", ["smt", ["app", "i", "=", ["ref", ["nt", "<var>"]], ["str", "a"]]],
         ["smt", ["app", "i", "=", ["ref", ["nt", "<digit>"]], ["str", "1"]]]]
    d = S.desugar(cg, F)
    t = _lang_tree("b := a")
    assert fml.sat(cg, t, d["core"])[0] is True and any(fml.sat(cg, t, v)[0] is False for v in d["variants"])
    t = _lang_tree("a := 1")
    assert fml.sat(cg, t, d["core"])[0] is True and all(fml.sat(cg, t, v)[0] is True for v in d["variants"])
    # `..` below a negated binder: the universal quantifier stays inside the (negated) quantifier
    F = ["not", ["exists", "<assgn>", "x", None, None,
                 ["smt", ["app", "i", "=", ["ref", ["xp", ["v", "x"], [["..", "<var>", None]]]], ["str", "a"]]]]]
    d = S.desugar(cg, F)
    assert fml.pr(d["core"]) == 'not (exists <assgn> x in start: (forall <var> d1 in x: ((= d1 "a"))))', fml.pr(d["core"])
    assert fml.sat(cg, _lang_tree("a := b"), d["core"])[0] is True
    fs, causes = S.features(F)
    assert "dd_negated_binder" in causes and "xp_dd" in fs


def gen_grammar(rnd):
    from props.c03_evaluate import gen_grammar as gg
    name, g = gg(rnd)
    if name == "wide":
        name = pick(rnd, ["lang", "xml", "blk", "rec"])
        g = gen.ZOO[name]
    return name, g


def unnamed_mexpr_vs_free_nonterminal(rnd, cg, lits):
    """Q <U>="..{<T> t}.." [in start]: (t OP <T>) -- a quantifier without variable name whose match expression binds a
    variable that carries the name the parser would invent first for the free nonterminal <T> (its bare name): the
    invented name has to avoid it, otherwise the universal closure over <T> is captured by the match expression"""
    fg = fml.FGen(rnd, cg, lits, dict(numq=0.0, unused=0.0, mexpr_depth=pick(rnd, [2, 2, 3])))
    nts = [k for k in cg if k != "<start>"]
    for _ in range(10):
        U = pick(rnd, nts)
        mx, binds = fg.mexpr_for(U)
        if not mx or not binds:
            continue
        x, T = pick(rnd, binds)
        bare = T[1:-1]
        if not bare.isidentifier() or bare in S.RESERVED_NAMES or T == U:
            continue
        mx = [[el[0], el[1], bare] if el[0] == "bind" and el[2] == x else
              ([el[0], el[1], "m" + el[2][1:]] if el[0] == "bind" else el) for el in mx]
        if any(el[0] == "opt" for el in mx):
            continue
        op = pick(rnd, ["=", "=", "str.prefixof", "str.contains"])
        a, b = ["ref", ["v", bare]], ["ref", ["nt", T]]
        if chance(rnd, 0.5):
            a, b = b, a
        atom = ["smt", ["app", "i", "=", a, b]] if op == "=" else ["smt", ["app", "p", op, a, b]]
        if chance(rnd, 0.4):
            atom = ["not", atom]
        q = pick(rnd, ["forall", "exists"])
        return [q, U, None, None if chance(rnd, 0.6) else ["v", "start"], mx, atom]
    return None


def generate(rnd, tier):
    for _ in range(8):
        name, g = gen_grammar(rnd)
        cg = rt.canon(g)
        # A => + A makes the flattening of an XPath-derived tree prefix into a match expression lossy
        if not rt.has_unit_cycle(cg):
            break
    else:
        name, g = "lang", gen.ZOO["lang"]
        cg = rt.canon(g)
    md = rt.min_depths(cg)
    trees = []
    for i in range(8):
        t = gen.tree(rnd, cg, "<start>", rnd.randint(1, 6), md, bias=0.8)
        for _ in range(3):
            if rt.size(t) <= 45:
                break
            t = gen.tree(rnd, cg, "<start>", rnd.randint(1, 4), md, bias=0.6)
        if rt.size(t) <= 60:
            trees.append(t)
    if not trees:
        trees = [gen.tree(rnd, cg, "<start>", 1, md, bias=0.5)]
    lits = fml.sample_lits(cg, trees)
    F = None
    for _ in range(6):
        sg = S.SGen(rnd, cg, lits, is_const=term_is_const)
        F = sg.formula(S.start_scope(), rnd.randint(1, 3), {})
        fs, _ = S.features(F)
        if fs & set(S.SUGAR_FEATURES) and len(S.pr_sugar(F)) < 700:
            break
    if chance(rnd, 0.04):
        T2 = unnamed_mexpr_vs_free_nonterminal(rnd, cg, lits)
        if T2 is not None:
            F = T2
    case = {"grammar": g, "gname": name, "trees": trees, "formula": F}
    if chance(rnd, 0.1):
        # `const c: <start>;` -- the omitted `in` and the closure of free nonterminals then refer to c
        case["const"] = pick(rnd, ["c", "root", "inp"])
    return case


# ------------------------------------------------------------------ ISLa side

def norm_error(exc_type, msg):
    m = re.sub(r"\s+", " ", msg)
    m = m.split(" in formula")[0].split(", formula:")[0]
    m = re.sub(r'"[^"]*"', "S", m)
    m = re.sub(r"<[^<> ]*>", "T", m)
    m = re.sub(r"(Unbound variables:).*", r"\1 X", m)
    m = re.sub(r"(Unknown variable) \S+", r"\1 X", m)
    m = re.sub(r"line \d+,? column \d+", "line L", m)
    m = re.sub(r"\d+", "N", m)
    return (exc_type + ":" + m)[:90].strip()


def unbound_names(msg):
    m = re.search(r"Unbound variables: (.*?) in formula", msg, re.S)
    if not m:
        return []
    return [re.sub(r"_\d+$", "", x.strip()) for x in m.group(1).split(",")]


# known root causes (features computed by vlib/c08_sugar.features) and the parser failures each of them explains
PARSE_CAUSES = (("dd_below_exists", ("unbound",)),
                ("merge_alternatives_differ", ("unbound", "unknown_variable", "stop_iteration", "no_conversion")),
                ("xp_binder_under_iff_xor", ("unbound", "unknown_variable", "stop_iteration")),
                ("xp_head_name_reused", ("unbound", "unknown_variable", "stop_iteration", "no_conversion")),
                ("dup_binder_captures_xpath_var", ("unbound", "unknown_variable", "stop_iteration")))
# (the shapes of repaired findings -- multi_segment, free_plain_and_head, free_before_omitted, free_after_xpath_same_type,
#  free_start_child, start_omitted_name, dd_on_start, const_atom, const_implicit_start, free_head_before_omitted -- are still computed as class labels,
#  but no longer explain a failure: a failure on them is reported as parse:unexplained)


def error_kind(exc_type, msg):
    if exc_type == "AssertionError" and "uncomment the else branch" in msg:
        return "else_branch"
    if exc_type == "AssertionError" and not msg.strip():
        return "bare_assertion"
    if exc_type == "StopIteration":
        return "stop_iteration"
    if exc_type == "SyntaxError" and msg.startswith("Unbound variables"):
        return "unbound"
    if exc_type == "SyntaxError" and msg.startswith("Unknown variable"):
        return "unknown_variable"
    if exc_type == "SyntaxError" and msg.startswith("Could not convert XPath expressions"):
        return "no_conversion"
    return None


def diagnose(exc_type, msg, causes, fs):
    """the known root cause (if any) that explains this parser failure; `unexplained` otherwise"""
    kind = error_kind(exc_type, msg)
    if kind is None:
        return "unexplained"
    if kind == "unbound":
        names = set(unbound_names(msg))
        for c, kinds in PARSE_CAUSES:
            if c in causes and kind in kinds and (causes[c] & names):
                return c
    for c, kinds in PARSE_CAUSES:
        if c in causes and kind in kinds:
            return c
    return "unexplained"


def const_of(t):
    """(value, value_via_negation) of an SMT term (fml or sugared form; variables = opaque strings): the truth value if
    Z3's simplifier folds the term / its negation to a constant, else None.  The harness asks Z3 directly."""
    import z3
    if t and t[0] in ("ref", "app"):
        t = S.plain_term(t)
    try:
        # built from SMT-LIB text like the parser does (z3's simplifier is sensitive to how a term was constructed)
        names = {v: "x%d" % i for i, v in enumerate(sorted(fml.term_vars(t)))}

        def ren(u):
            if u[0] == "var":
                return ["var", names[u[1]]]
            if u[0] in ("str", "int"):
                return u
            return [u[0]] + [ren(a) for a in u[1:]]

        e = z3.parse_smt2_string("(assert %s)" % fml.term_str(ren(t)), decls={n: z3.String(n) for n in names.values()})[0]
        r, rn = z3.simplify(e), z3.simplify(z3.Not(e))
    except Exception:
        return None, None
    pos = True if z3.is_true(r) else False if z3.is_false(r) else None
    ng = False if z3.is_true(rn) else True if z3.is_false(rn) else None
    return pos, ng


def term_is_const(t):
    return const_of(t) != (None, None)


def _reraise_watchdog(e):
    """the runner's watchdog exception, raised inside a ctypes call into Z3, surfaces as
    `ctypes.ArgumentError: argument n: SoftTimeout:` -- that is a timeout, not a failure of ISLa"""
    if "SoftTimeout" in str(e) or "SoftTimeout" in type(e).__name__:
        from vlib.runner import SoftTimeout
        raise SoftTimeout()


def isla_parse(text, g):
    from isla.language import parse_isla
    from isla.isla_predicates import STANDARD_STRUCTURAL_PREDICATES as SP, STANDARD_SEMANTIC_PREDICATES as MP
    try:
        return parse_isla(text, g, SP, MP), None
    except BaseException as e:
        if type(e).__name__ in ("SoftTimeout", "KeyboardInterrupt", "RecursionError", "MemoryError"):
            raise
        _reraise_watchdog(e)
        return None, (type(e).__name__, str(e))


def isla_eval(pf, dt, g, graph):
    from isla.evaluator import evaluate
    from isla.isla_predicates import STANDARD_STRUCTURAL_PREDICATES as SP, STANDARD_SEMANTIC_PREDICATES as MP
    from props.c03_evaluate import long_z3_timeout

    def once():
        r = evaluate(pf, dt, g, SP, MP, graph=graph)
        return "TRUE" if r.is_true() else "FALSE" if r.is_false() else "UNKNOWN"

    try:
        v = once()
        if v == "UNKNOWN":
            with long_z3_timeout():
                v = once()
        return v, None
    except Exception as e:
        _reraise_watchdog(e)
        return "raises:" + type(e).__name__, str(e)[:300]


ATOM_BUDGET = 300        # atom evaluations per (formula, tree)
CASE_BUDGET = 1200       # ... and per case (all trees)


class CountingRef(fml.Ref):
    """reference semantics with a work counter: the number of atom evaluations bounds what ISLa's evaluator has
    to do on the same (formula, tree); pairs above the budget are skipped (deterministically), not judged"""

    def __init__(self, cg, root, budget):
        super().__init__(cg, root)
        self.n, self.budget = 0, budget

    def sat(self, f, env):
        if f[0] in ("smt", "pred", "count"):
            self.n += 1
            if self.n > self.budget:
                raise fml.Undecided("cost")
        return super().sat(f, env)


def ref_sat(cg, t, f, budget=ATOM_BUDGET):
    r = CountingRef(cg, t, budget)
    v = r.sat(f, {"start": ()})
    return v, r.flags, r.nonempty_domain, r.n


def judge(case):
    g, trees, F = case["grammar"], case["trees"], case["formula"]
    cg = rt.canon(g)
    cname = case.get("const")
    text = S.pr_sugar(F) if not cname else "const %s: <start>; %s" % (cname, S.pr_sugar(S.rename_const(F, cname)))
    fs, causes = S.features(F)
    labels = sorted(fs) + ["grammar:" + case.get("gname", "?")]
    if S.merge_risk(cg, F):
        causes["merge_alternatives_differ"] = set()
        labels.append("xp_merge_alternatives_differ")
    if cname:
        labels.append("const_decl")
        uses_const = any(r == ["v", "start"] or (r[0] == "xp" and r[1] == ["v", "start"]) for r in S.all_refs(F))
        if uses_const and fs & {"in_start_omitted", "free_nt"}:
            labels.append("const_decl_and_implicit_start")
            causes["const_implicit_start"] = set()
    key = "%s|%s" % (rt.join_alt(sorted("%s=%s" % (k, "|".join(v)) for k, v in g.items())), text)
    base = {"labels": labels, "nontrivial": False, "violations": [], "inconclusive": None, "key": key,
            "sample": {"sugar": text}}
    if not fs & set(S.SUGAR_FEATURES):
        labels.append("no_sugar")
    types = {}
    for x in S.sub_formulas(F):
        if x[0] in ("forall", "exists") and x[2] is not None:
            types.setdefault(x[2], set()).add(x[1])
    if any(len(v) > 1 for v in types.values()):
        # outside the domain: a name re-used with another nonterminal keeps its first type in the parser's variable
        # table -- a defect of core ISLa parsing (the core text shows it as well), not of the sugar translation
        labels.append("name_reused_with_other_type")
        base["inconclusive"] = "outside_domain:name_reused_with_other_type"
        return base
    # ---- the specification's translation
    try:
        d = S.desugar(cg, F)
    except S.NotPinned as e:
        d = None
        labels.append("not_pinned")
        base["sample"]["not_pinned"] = str(e)
    core_text = None
    readings = []
    if d is not None:
        readings = list(d["variants"])
        atoms = [x for x in S.sub_formulas(F) if x[0] in ("smt", "pred", "count")]
        has_const = any(x[0] == "smt" and term_is_const(x[1]) for x in atoms)
        if has_const or any(atoms.count(x) > 1 for x in atoms):
            # The parser folds constant atoms while reading (z3.simplify when it negates an atom; true/false vanish from
            # and/or), so that variables occurring only there disappear before the free nonterminals are closed:
            # two more readings, with all such atoms folded and with only the negated occurrences folded.
            labels.append("const_atom" if has_const else "repeated_atom")
            causes["const_atom"] = set()
            for mode in ("all", "neg"):
                try:
                    d2 = S.desugar(cg, F, fold=mode, const_of=const_of)
                    readings += [v for v in [d2["core"]] + d2["variants"] if v not in readings and v != d["core"]]
                except S.NotPinned:
                    pass
        if d["printable"]:
            core_text = fml.pr(d["core"]) if not cname else \
                "const %s: <start>; %s" % (cname, fml.pr(S.rename_core_var(d["core"], "start", cname)))
            base["sample"]["core"] = core_text[:1500]
        else:
            labels.append("core_not_printable")
    # ---- ISLa parses the sugared text
    pf, err = isla_parse(text, g)
    if err is not None:
        et, msg = err
        if et == "SyntaxError" and msg.startswith("Could not merge the match expression"):
            labels.append("reject:merge_conflict")
            base["inconclusive"] = "reject:merge_conflict"
            return base
        if d is None:
            labels.append("reject:not_pinned")
            base["inconclusive"] = "not_pinned"
            return base
        cause = diagnose(et, msg, causes, fs)
        labels.append("reject:" + cause)
        base["violations"] = [{"sig": "parse:%s:%s" % (cause, norm_error(et, msg)), "sugar": text, "error": et + ": " + msg[:400],
                               "causes": sorted(causes)}]
        return base
    for c in causes:
        labels.append("parsed_despite:" + c)
    if d is None:
        base["inconclusive"] = "not_pinned"
        return base
    pc = None
    if core_text is not None:
        pc, cerr = isla_parse(core_text, g)
        if cerr is not None:
            labels.append("core_rejected")
            base["sample"]["core_error"] = cerr[0] + ": " + cerr[1][:200]
            base["violations"].append({"sig": "core_rejected:" + norm_error(*cerr), "sugar": text, "core": core_text,
                                       "error": cerr[0] + ": " + cerr[1][:300]})
            pc = None
    # ---- verdicts
    from grammar_graph import gg
    graph = gg.GrammarGraph.from_grammar(g)
    viol = base["violations"]
    seen = set()
    verdicts = set()
    nonempty_any = False
    judged = amb = flagged = costly = spent = 0

    def add(sig, **kw):
        if sig not in seen:
            seen.add(sig)
            viol.append(dict(sig=sig, sugar=text, core=core_text, **kw))

    family = next((c for c in ("dd_negated_binder", "merge_alternatives_differ",
                               "xp_binder_under_iff_xor", "xp_head_name_reused", "dup_binder_captures_xpath_var")
                   if c in causes),
                  "xpath" if fs & {"xp_child", "xp_dd"} else "free" if "free_nt" in fs else "plain")
    for t in trees:
        try:
            if spent > CASE_BUDGET:
                raise fml.Undecided("cost")
            exp, flags, nonempty, work = ref_sat(cg, t, d["core"])
            spent += work
            alts = [ref_sat(cg, t, v, 10 * ATOM_BUDGET)[0] for v in readings]
        except fml.Undecided as e:
            if str(e) == "cost":
                costly += 1
            else:
                flagged += 1
            continue
        if flags:
            flagged += 1
            continue
        if any(a != exp for a in alts):
            amb += 1
            continue
        dt = rt.to_dt(rt.assign_ids(t)[0])
        got, det = isla_eval(pf, dt, g, graph)
        want = "TRUE" if exp else "FALSE"
        if got == "UNKNOWN":
            flagged += 1
            continue
        judged += 1
        nonempty_any = nonempty_any or nonempty
        verdicts.add(want)
        if got.startswith("raises"):
            # only a failure the core form does not share is a matter of the sugar translation
            gc = isla_eval(pc, dt, g, graph)[0] if pc is not None else None
            if gc == got:
                labels.append("core_raises_too")
            else:
                add("evaluate_sugar:%s:%s" % (family, got), string=rt.tyield(t), detail=det, core_verdict=gc)
            continue
        if got != want:
            add("verdict:sugar_vs_spec:" + family, string=rt.tyield(t), expected=want, observed=got)
        if pc is not None:
            gc, detc = isla_eval(pc, dt, g, graph)
            if gc == "UNKNOWN":
                continue
            if gc != got:
                add("verdict:sugar_vs_core:" + family, string=rt.tyield(t), sugar_verdict=got, core_verdict=gc, detail=detc)
            if gc != want:
                add("verdict:core_vs_reference", string=rt.tyield(t), expected=want, observed=gc, detail=detc)
    if amb:
        labels.append("placement_ambiguous_pairs")
    if costly:
        labels.append("pairs_over_budget")
    if judged:
        labels.append("judged")
    elif amb and not flagged:
        base["inconclusive"] = "placement_ambiguous"
    else:
        base["inconclusive"] = "not_judged"
    if len(verdicts) == 2:
        labels.append("both_verdicts")
    elif verdicts:
        labels.append("all_" + sorted(verdicts)[0])
    base["counters"] = {"pairs_judged": judged, "pairs_placement_ambiguous": amb, "pairs_flagged": flagged, "pairs_over_budget": costly,
                        "pairs": len(trees)}
    base["nontrivial"] = bool(judged and nonempty_any and len(verdicts) == 2 and fs & set(S.SUGAR_FEATURES))
    base["sample"]["verdicts"] = sorted(verdicts)
    base["labels"] = list(dict.fromkeys(labels))
    return base


def health(stats, tier):
    c = stats["classes"]
    n = max(1, stats["evaluations"])
    if c.get("judged", 0) < 0.5 * n:
        return "only %d of %d cases judged" % (c.get("judged", 0), n)
    if c.get("not_pinned", 0) > 0.05 * n:
        return "%d of %d cases without a documented translation (generator should avoid them)" % (c.get("not_pinned", 0), n)
    for f, floor in (("free_nt", 0.1), ("xp_child", 0.1), ("xp_dd", 0.04), ("name_omitted", 0.08), ("in_start_omitted", 0.2),
                     ("infix", 0.2), ("prefix", 0.2), ("neg_literal", 0.04), ("conn:xor", 0.04), ("conn:iff", 0.04),
                     ("conn:implies", 0.04), ("xp_two_on_var", 0.05), ("xp_index>1", 0.005),
                     ("unnamed_binder_two_xpaths", 0.015), ("two_dd_child_same_type", 0.03), ("xp_child_after_dd", 0.04)):
        if n < 400 and floor < 0.05:
            continue    # rare features are only demanded of full-size runs
        if c.get(f, 0) < floor * n:
            return "feature %s in only %d of %d cases" % (f, c.get(f, 0), n)
    if c.get("both_verdicts", 0) < 0.1 * n:
        return "both verdicts in only %d of %d cases" % (c.get("both_verdicts", 0), n)
    return None
