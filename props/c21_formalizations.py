"""C21 -- inputs generated for the shipped formalisations (CSV, XML, reST, simple TAR) pass independent validity checks.

A case is one solver *configuration*: formalisation, random seed, cost settings (ISLa's default, the vector the
project's own test uses for that formalisation, or a random weight vector with k in {3,4}), instantiation limits,
queue uniqueness, fuzzer factory, global fuzzer.  `judge` starts vlib/c21_child.py in a fresh interpreter, which
builds ISLaSolver exactly as tests/test_solver.py does for that formalisation and streams solutions (string +
labelled spans) until `max` solutions, StopIteration or the wall-clock budget; the child is hard-killed at the
budget (the solver may hang) and whatever it streamed until then is judged.  Every solution goes through the
validator of its format in vlib/c21_validators.py (no ISLa code involved).  A case of kind "fixed" carries a saved
solution (string + spans) and is only validated (regression corpus).
"""
import hashlib
import json

ID = "C21"
CASES = {"quick": 48, "thorough": 512}
SOFT = 150
HARD = 400
BUDGET = {"quick": 20, "thorough": 90}
MAXSOL = {"quick": 25, "thorough": 60}
RULE = ("case = one solver configuration for one shipped formalisation (CSV_GRAMMAR+CSV_COLNO_PROPERTY; "
        "XML_GRAMMAR_WITH_NAMESPACE_PREFIXES + namespace & well-formedness & no-attribute-redefinition; REST_GRAMMAR + "
        "LENGTH_UNDERLINE & DEF_LINK_TARGETS & NO_LINK_TARGET_REDEF & LIST_NUMBERING_CONSECUTIVE; SIMPLE_TAR_GRAMMAR + "
        "TAR_CONSTRAINTS): random seed, cost settings (default / the vector of tests/test_solver.py / random 5-vector in "
        "[0,20] with k in {3,4}, optional coverage reset), max_number_free_instantiations in {1,2}, "
        "max_number_smt_instantiations in {1,2,3}, enforce_unique_trees_in_queue, fuzzer factory (coverage fuzzer / "
        "GrammarFuzzer(0,30)), global_fuzzer; run in a child process with a wall-clock budget (20 s quick, 90 s thorough, "
        "hard kill), up to 25 (quick) / 60 (thorough) solutions, all of them validated: CSV by a state-machine splitter "
        "(equal field counts; cross-read by Python's csv module), XML by expat/ElementTree (well-formed, prefixes bound, no "
        "duplicate attribute), reST by docutils (no system message of level >= 2, every <section-title> rendered as a "
        "title, every <enumeration> as an enumerated list) plus span-based string checks (underline >= title, "
        "references have labels, labels unique, item numbers consecutive and positive), simple TAR by fixed-offset header "
        "parsing (field encodings, typeflag, checksum = byte sum with the field blanked). A case is non-trivial if it "
        "yielded at least one non-minimal solution (CSV >= 2 records; XML nested or attributed element; reST title, "
        "reference or enumeration; TAR link entry); distinct by the set of its non-trivial solution strings "
        "(counters.nontrivial_solutions counts the solutions themselves)")
ASSUMPTIONS = ["a configuration that produces no solution within its wall-clock budget is inconclusive (liveness is not claimed); "
               "solutions streamed before a budget hit are judged",
               "validators: Python's expat/ElementTree, docutils and the hand-written CSV/TAR readers in vlib/c21_validators.py "
               "are the trusted base",
               "whether a symlink entry's link name resolves to another entry is a statistic, not a check (the property lists "
               "checksums and field encodings; the shipped constraint allows an empty link name)",
               "an accidental extra title rendered from paragraph text is labelled, not a violation (the property's reST rules are "
               "about the section titles, links and enumerations the grammar marks as such)",
               "exceptions escaping solve() are labelled only (C02's subject)"]

WHICH = ["csv", "xml", "rest", "tar"]
TEST_COST = {
    "xml": {"vec": [9.5, 0, 6, 0, 13], "k": 4, "reset": None},
    "rest": {"vec": [7, 1.5, 2.5, 2, 18], "k": 4, "reset": 500},
    # tests/test_solver.py uses the default cost computer for CSV and simple TAR; these are further vectors from
    # that file (test_xml, test_tar) so that the "test" mode differs from "default" everywhere
    "csv": {"vec": [16, 7, 13, 26, 20], "k": 3, "reset": None},
    "tar": {"vec": [12, 1, 2, 0, 0], "k": 4, "reset": None},
}
TEST_UNIQUE = {"csv": False, "xml": True, "rest": True, "tar": False}


def generate(rnd, tier):
    # stratified over the four formalisations by the runner's running case index (a quick tier has only a
    # few dozen cases; a plain random choice left one formalisation without cases in some runs)
    idx = getattr(rnd, "verif_index", None)
    which = WHICH[(idx // 64 + idx % 64) % 4] if idx is not None else WHICH[rnd.randrange(4)]
    r = rnd.random()
    if r < 0.3:
        mode, cost = "default", None
    elif r < 0.6:
        mode, cost = "test", dict(TEST_COST[which])
    else:
        mode = "random"
        cost = {"vec": [round(rnd.uniform(0, 20) * 2) / 2 for _ in range(5)], "k": rnd.choice([3, 4]),
                "reset": rnd.choice([None, None, 100, 500])}
    return {"kind": "solve", "which": which, "rseed": rnd.randrange(2 ** 31), "cost_mode": mode, "cost": cost,
            "free": rnd.choice([1, 1, 1, 2]), "smt": rnd.choice([1, 2, 2, 3] if which == "csv" else [1, 1, 2, 3]),
            "unique": TEST_UNIQUE[which] if rnd.random() < 0.6 else not TEST_UNIQUE[which],
            "fuzzer": "gf30" if rnd.random() < (0.5 if which == "csv" else 0.2) else "cov",
            "global_fuzzer": rnd.random() < 0.15,
            "max": MAXSOL[tier], "budget": BUDGET[tier]}


def run_child(case):
    """-> (solutions [{"s", "spans"}], end) ; end is the child's trailer or 'KILLED'/'CHILD_FAILED'"""
    import os
    import sys
    import signal
    import subprocess
    from vlib import env
    child = os.path.join(env.VERIF, "vlib", "c21_child.py")
    job = {k: case.get(k) for k in ("which", "rseed", "cost", "free", "smt", "unique", "fuzzer", "global_fuzzer", "max", "budget")}
    e = dict(os.environ)
    e["PYTHONHASHSEED"] = "0"
    p = subprocess.Popen([sys.executable, child], stdin=subprocess.PIPE, stdout=subprocess.PIPE,
                         stderr=subprocess.DEVNULL, env=e, start_new_session=True)
    killed = False
    try:
        try:
            out, _ = p.communicate(json.dumps(job).encode("utf-8"), timeout=case["budget"])
        except subprocess.TimeoutExpired:
            killed = True
            try:
                os.killpg(p.pid, signal.SIGKILL)
            except OSError:
                pass
            out, _ = p.communicate()
    finally:
        if p.poll() is None:
            try:
                os.killpg(p.pid, signal.SIGKILL)
            except OSError:
                pass
            p.wait()
    sols, end = [], None
    for line in out.decode("utf-8", "replace").splitlines():
        try:
            d = json.loads(line)
        except ValueError:
            continue  # a line cut by the kill
        if "s" in d:
            sols.append(d)
        elif "end" in d:
            end = d["end"]
    if end is None:
        end = "KILLED" if killed else "CHILD_FAILED(rc=%s)" % p.returncode
    if end.startswith("HARNESS:"):
        raise RuntimeError(end)
    return sols, end


def judge(case):
    if case.get("kind") == "bundle":
        return _judge_bundle(case)
    which = case["which"]
    if case.get("kind") == "fixed":
        sols = case["sols"] if "sols" in case else [{"s": case["s"], "spans": case.get("spans") or []}]
        sols, end = [{"s": d["s"], "spans": d.get("spans") or [], "want": d.get("want")} for d in sols], "FIXED"
        if case.get("expect") == "invalid":
            return _judge_invalid(which, sols)
    else:
        sols, end = run_child(case)
    return _judge_solutions(case, which, sols, end)


def _judge_invalid(which, sols):
    """handcrafted INVALID texts: the validator must report the root cause named in "want" (oracle regression data)"""
    from vlib import c21_validators as V
    viol = []
    for i, d in enumerate(sols):
        got = [p["sig"] for p in V.CHECK[which](d["s"], d["spans"])["problems"]]
        if d["want"] not in got:
            viol.append({"sig": "validator_misses_invalid_input:" + which, "index": i, "text": d["s"][:300], "want": d["want"], "got": got})
    return {"labels": [which, "handcrafted_invalid"], "nontrivial": False, "violations": viol, "inconclusive": None,
            "counters": {"handcrafted_invalid": len(sols)}}


def _judge_bundle(case):
    """several configurations judged as one case, their children running side by side (regression corpus: the sum of
    the children's run times would eat the quick tier's budget, the maximum does not)"""
    from concurrent.futures import ThreadPoolExecutor
    names = sorted(case["cases"])
    members = [case["cases"][n] for n in names]
    with ThreadPoolExecutor(max(1, min(8, len(names)))) as ex:  # only the children run side by side
        runs = list(ex.map(lambda c: None if c.get("kind") == "fixed" else run_child(c), members))
    results = [judge(c) if r is None else _judge_solutions(c, c["which"], r[0], r[1]) for c, r in zip(members, runs)]
    res = {"labels": ["bundle"], "nontrivial": False, "violations": [], "inconclusive": None, "counters": {}}
    for n, r in zip(names, results):
        res["labels"] += [l for l in r["labels"] if l not in res["labels"]]
        res["nontrivial"] = res["nontrivial"] or (r["nontrivial"] and not r["inconclusive"])
        for v in r["violations"]:
            v = dict(v)
            v["bundle_member"] = n
            res["violations"].append(v)
        for k, c in r["counters"].items():
            res["counters"][k] = res["counters"].get(k, 0) + c
        if r["inconclusive"]:
            res["labels"].append("member_inconclusive:%s:%s" % (n, r["inconclusive"]))
    return res


def _judge_solutions(case, which, sols, end):
    from vlib import c21_validators as V
    labels = [which, "end:" + end.split(":")[0] + (":" + end.split(":")[1] if end.startswith("EXC:") else "")]
    if case.get("kind") != "fixed":
        labels += ["cost:" + str(case.get("cost_mode")), "smt%d" % case["smt"], "free%d" % case["free"],
                   "fuzzer:" + case["fuzzer"]]
    counters = {"solutions": len(sols), which + "_solutions": len(sols)}
    violations, seen_sig = [], set()
    nontriv = []
    lab = set()
    for i, d in enumerate(sols):
        r = V.CHECK[which](d["s"], d["spans"])
        if r.get("oracle_disagreement"):
            lab.add("csv_oracle_disagreement")
            counters["oracle_disagreement"] = counters.get("oracle_disagreement", 0) + 1
        for l in r["labels"]:
            lab.add(l)
            counters["sol:" + l] = counters.get("sol:" + l, 0) + 1
        for k, v in r["stats"].items():
            if which == "tar" and k.startswith("links"):
                counters["tar_" + k] = counters.get("tar_" + k, 0) + v
        if r["nontrivial"]:
            nontriv.append(d["s"])
        for pr in r["problems"]:
            if pr["sig"] in seen_sig:
                continue
            seen_sig.add(pr["sig"])
            v = dict(pr)
            v.update({"solution_index": i, "solution": d["s"][:1500]})
            violations.append(v)
    distinct = sorted(set(nontriv))
    counters["nontrivial_solutions"] = len(nontriv)
    counters[which + "_nontrivial_solutions"] = len(nontriv)
    labels += sorted(lab)
    if sols:
        labels.append(which + ":solutions")
    if nontriv:
        labels.append(which + ":nontrivial")
    inconclusive = None
    if not sols:
        inconclusive = "no_solution:" + end.split(":")[0]
    res = {"labels": labels, "nontrivial": bool(nontriv), "violations": violations, "inconclusive": inconclusive,
           "counters": counters,
           "key": hashlib.sha1(json.dumps([which, distinct]).encode()).hexdigest()[:16]}
    if distinct:
        smp = distinct[len(distinct) // 2]
        res["sample"] = {"which": which, "config": {k: case.get(k) for k in ("rseed", "cost_mode", "cost", "free", "smt", "unique", "fuzzer", "global_fuzzer")},
                         "solutions": len(sols), "one_solution": smp[:400]}
    return res


def health(stats, tier):
    cl = stats["classes"]
    if cl.get("csv_oracle_disagreement"):
        return "the CSV splitter and Python's csv module read some solution differently (oracle defect)"
    missing = [w for w in WHICH if not cl.get(w + ":nontrivial")]
    if missing and stats["evaluations"] >= 24:
        return "no non-trivial solution for formalisation(s) %s" % missing
    return None


def selftest():
    from vlib import c21_validators as V
    V.selftest()
    # the child's span walk on a hand-made tree object (duck-typed: .value/.children)
    from vlib import c21_child

    class N:
        def __init__(self, value, children=()):
            self.value, self.children = value, children
    t = N("<start>", (N("<a>", (N("x"), N("<e>", ()), N("<b>", (N("yz"),)))), N("<", ()), N("<b>", (N(""),))))
    s, sp = c21_child.spans_of(t, {"<a>", "<b>", "<e>"})
    assert s == "xyz<" and sp == [["<a>", 0, 3], ["<e>", 1, 1], ["<b>", 1, 3], ["<b>", 4, 4]], (s, sp)
    # an open leaf in a "solution" is rendered the way str(tree) renders it, so that the validators see it
    s, sp = c21_child.spans_of(N("<start>", (N("<a>", None), N("y"))), {"<a>"})
    assert s == "<a>y" and sp == [["<a>", 0, 3]], (s, sp)
    assert V.check_xml("<a><xml-tree></a>")["problems"] and V.check_csv("a;<raw-field>\nb\n")["problems"]
    # judge on saved data: a valid and an invalid "solution"
    r = judge({"kind": "fixed", "which": "csv", "sols": [{"s": "a;b\nc;d\n", "spans": []}]})
    assert not r["violations"] and r["nontrivial"], r
    r = judge({"kind": "fixed", "which": "csv", "sols": [{"s": "a;b\nc\n", "spans": []}]})
    assert [v["sig"] for v in r["violations"]] == ["csv:column_counts_differ"], r
    r = judge({"kind": "fixed", "which": "xml", "expect": "invalid", "sols": [{"s": "<a/>", "spans": [], "want": "xml:mismatched_tag"}]})
    assert [v["sig"] for v in r["violations"]] == ["validator_misses_invalid_input:xml"], r
    # generate is JSON-stable
    import random
    c = generate(random.Random(5), "quick")
    assert json.loads(json.dumps(c)) == c
