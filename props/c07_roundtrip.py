"""C07 -- unparse_isla / parse_isla round trip: parse(unparse(f)) == f, unparse idempotent, same verdicts."""
import hashlib
import json
import signal

from vlib import rt, gen, fml
from vlib import c07_print as P
from vlib import c07_gen as G
from vlib.gen import chance, pick

ID = "C07"
CASES = {"quick": 2500, "thorough": 80000}
SOFT = 40
HARD = 240
EVAL_BUDGET = 2.5
RULE = ("case = (grammar: zoo incl. grammars with quotes/backslashes/newlines/non-ASCII/'<'/'{'/'[' terminals, nonterminal names "
        "with '-' '_' digits upper case and reserved words, or random; constraint TEXT generated scope- and type-directed in "
        "every surface form: S-expression / prefix / infix SMT notation with sort-correct terms over all operators of "
        "ISLa's lexer (str.*, re.*, arithmetic, indexed re.loop/re.^), negative literals, omitted 'in start', 'in <T>', omitted "
        "variable names, free nonterminals (also <start>), XPath ('.', '[i]', '..'), const declarations (also with another "
        "constant name), match expressions with optionals and escaped characters, numeric quantifiers, structural and "
        "semantic predicates with string and int arguments, implies/iff/xor, string literals as \\u{..} / \\\" / raw "
        "control and non-ASCII characters / \\udddd / backslash sequences, deliberately clashing variable names, comments; "
        "5 closed trees); oracle (round trip) = f1=parse(text); u1=unparse(f1) must not raise; f2=parse(u1) must not raise; "
        "f2==f1 (both directions) and the harness' own structural comparison of f1 and f2 must agree; unparse(f2)==u1; "
        "evaluate(f1,t)==evaluate(f2,t) on all trees whenever anything differs and on a sample otherwise; texts rejected "
        "with SyntaxError are not cases (rate <= 10% enforced); non-trivial = accepted text that uses a free/unnamed "
        "nonterminal, XPath, a match expression with an escaped character, a numeric quantifier, implies/iff/xor, a string "
        "literal needing escaping, prefix/infix SMT notation, 'in <T>' or a const declaration; distinct by hash of u1")
ASSUMPTIONS = ["only texts accepted by parse_isla are judged; a non-SyntaxError exception of the first parse is counted "
               "(label parse1_crash:*) but is a matter of C08, not of the round trip",
               "evaluate() is only used to compare f1 with f2 (same implementation on both sides); UNKNOWN/timeouts on either "
               "side are not compared; when f1 and f2 are structurally identical only one case in four is evaluated (two trees)",
               "match-expression texts never contain '{', '[' or ']' in the generated TEXT (the match-expression lexer has no "
               "escape for them); they do occur in match expressions that the XPath translation builds",
               "nonterminal names restricted to letters, digits, '-' and '_' (the property's stated domain)",
               "a failure is attributed to an open finding by a shape of f1 (or by the relation between f1 and f2) and only at "
               "the oracle stages that shape can explain; half of the cases are drawn clear of those shapes"]

NONTRIVIAL = {"free_or_unnamed_nt", "omitted_name", "xpath", "mexpr_escaped_char", "numq", "conn:implies", "conn:iff",
              "conn:xor", "lit_escape", "smt_prefix", "smt_infix", "in_nonterminal", "const_decl"}


# ------------------------------------------------------------------ generation

def generate(rnd, tier):
    name, g = G.gen_grammar(rnd)
    cg = rt.canon(g)
    md = rt.min_depths(cg)
    trees = []
    for _ in range(5):
        t = gen.tree(rnd, cg, "<start>", rnd.randint(1, 5), md, bias=0.8)
        if rt.size(t) > 70:
            t = gen.tree(rnd, cg, "<start>", 2, md, bias=0.5)
        if rt.size(t) <= 120:
            trees.append(t)
    lits = fml.sample_lits(cg, trees)
    sg = G.SGen(rnd, cg, lits)
    f = sg.sformula([(["v", "start"], "<start>")], rnd.randint(1, 3), top=True)
    forms = ("sexpr", "prefix", "infix")
    r = rnd.random()
    if r > 0.85:
        forms = ("sexpr",)
    elif r > 0.75:
        forms = ("prefix", "sexpr")
    pr = P.Printer(rnd, forms=forms, layout=chance(rnd, 0.7))
    const = None
    if chance(rnd, 0.06):
        cname = "start"
        if not sg.avoid_known and chance(rnd, 0.5):
            # a constant of another name: omitted 'in' and free nonterminals then still refer to 'start' (open finding)
            cname = pick(rnd, ["c", "root", "x-1", "_s", "S"])
            f = rename_ref(f, "start", cname)
        const = (cname, "<start>")
    text = pr.constraint(f, const)
    return {"gname": name, "grammar": g, "text": text, "trees": trees, "feats": sorted(pr.feats),
            "avoid_known": sg.avoid_known, "rseed": rnd.randint(0, 2 ** 31)}


def rename_ref(x, old, new):
    if isinstance(x, list):
        if len(x) == 2 and x[0] == "v" and x[1] == old:
            return ["v", new]
        return [rename_ref(y, old, new) for y in x]
    return x


# ------------------------------------------------------------------ harness' own view of an ISLa formula

def shape(f, merge=False):
    """nested JSON-able description of a parsed formula, read from public attributes only;
    nested conjunctions/disjunctions are flattened (ISLa's equality does the same).
    merge=True joins adjacent terminal texts of a match expression (their split into dummy variables
    does not change the match expression's text or meaning)"""
    from isla import language as L
    import z3

    def var(v):
        return [type(v).__name__, v.name, v.n_type]

    def mexpr(be):
        if be is None:
            return None
        out = []
        for e in be.bound_elements:
            if isinstance(e, list):
                out.append(["opt"] + [x.n_type if isinstance(x, L.DummyVariable) else var(x) for x in e])
            elif isinstance(e, L.DummyVariable):
                # adjacent terminal dummies are merged: the split into dummies is not part of the meaning
                if merge and out and isinstance(out[-1], str) and not rt.is_nt(out[-1]) and not rt.is_nt(e.n_type):
                    out[-1] += e.n_type
                else:
                    out.append(e.n_type)
            else:
                out.append(var(e))
        return out

    def go(x):
        if isinstance(x, (L.ForallFormula, L.ExistsFormula)):
            return [type(x).__name__, var(x.bound_variable), var(x.in_variable), mexpr(x.bind_expression), go(x.inner_formula)]
        if isinstance(x, (L.ForallIntFormula, L.ExistsIntFormula)):
            return [type(x).__name__, var(x.bound_variable), go(x.inner_formula)]
        if isinstance(x, (L.ConjunctiveFormula, L.DisjunctiveFormula)):
            out = [type(x).__name__]
            for a in x.args:
                s = go(a)
                if s[0] == out[0]:
                    out.extend(s[1:])
                else:
                    out.append(s)
            return out
        if isinstance(x, L.NegatedFormula):
            return ["Not", go(x.args[0])]
        if isinstance(x, (L.StructuralPredicateFormula, L.SemanticPredicateFormula)):
            return [type(x).__name__, x.predicate.name] + [var(a) if isinstance(a, L.Variable) else [type(a).__name__, a] for a in x.args]
        if isinstance(x, L.SMTFormula):
            return ["SMT", x.formula.sexpr(), sorted(var(v) for v in x.free_variables())]
        return ["?", type(x).__name__]

    return go(f)


def causes(f):
    """shapes of f behind the open findings of this property (see known_findings.d/C07.json)"""
    from isla import language as L
    import z3
    out = set()
    numvars = set()
    treevars = set()
    types = {}

    def texts(be):
        """maximal runs of terminal text of a match expression (adjacent dummies joined), flag: inside optional"""
        run = ""
        for e in be.bound_elements:
            if isinstance(e, list):
                if run:
                    yield run, False
                    run = ""
                yield "".join(x.n_type for x in e if isinstance(x, L.DummyVariable) and not rt.is_nt(x.n_type)), True
            elif isinstance(e, L.DummyVariable) and not rt.is_nt(e.n_type):
                run += e.n_type
            else:
                if run:
                    yield run, False
                    run = ""
        if run:
            yield run, False

    def smt(e, root):
        if z3.is_app(e):
            k = e.decl().kind()
            if k == z3.Z3_OP_NOT and not root:
                out.add("smt_nested_not")
            if k == z3.Z3_OP_NOT and root and (z3.is_and(e.children()[0]) or z3.is_or(e.children()[0])):
                # "(not (and ..))" is read back as ISLa-level negation, which pushes the negation inwards
                out.add("smt_root_not_compound")
            if k == z3.Z3_OP_NOT and root and z3.simplify(e).sexpr() != e.sexpr():
                # the parser negates via z3.simplify(Not(x)); simplify is not idempotent on its own output here
                out.add("smt_root_not_unstable")
            if k == z3.Z3_OP_ITE:
                out.add("smt_ite")
            if k == z3.Z3_OP_RE_LOOP and not e.params():
                out.add("re_loop_app")
            if k == z3.Z3_OP_STRING_LT:
                out.add("smt_str_lt")
            if k == z3.Z3_OP_SEQ_UNIT:
                out.add("smt_seq_unit")
            if k == z3.Z3_OP_DISTINCT:
                out.add("smt_distinct")
        if z3.is_rational_value(e) and not z3.is_int_value(e):
            out.add("smt_real_value")
        for c in e.children():
            smt(c, False)

    def go(x):
        if isinstance(x, (L.ForallFormula, L.ExistsFormula)):
            vs = [x.bound_variable] + (list(x.bind_expression.bound_variables()) if x.bind_expression is not None else [])
            for v in vs:
                if not isinstance(v, L.DummyVariable) and (v.name in P.KEYWORDS or v.name == "start"):
                    out.add("reserved_var_name")
                if not isinstance(v, L.DummyVariable):
                    treevars.add(v.name)
                    types.setdefault(v.name, set()).add(v.n_type)
                    if v.n_type == L.Variable.NUMERIC_NTYPE:
                        out.add("numvar_name_clash")
            if x.bind_expression is not None:
                for t, in_opt in texts(x.bind_expression):
                    if "{" in t or "[" in t or (in_opt and "]" in t) or "}}" in t:
                        out.add("mexpr_brace_bracket")
                    if '"' in t or "\\" in t:
                        out.add("mexpr_quote_backslash")
            go(x.inner_formula)
        elif isinstance(x, (L.ForallIntFormula, L.ExistsIntFormula)):
            if x.bound_variable.name in numvars:
                out.add("numeric_var_bound_twice")
            numvars.add(x.bound_variable.name)
            go(x.inner_formula)
        elif isinstance(x, L.PropositionalCombinator):
            for a in x.args:
                go(a)
        elif isinstance(x, L.SMTFormula):
            smt(x.formula, True)
            from isla.z3_helpers import get_symbols
            if {str(sy) for sy in get_symbols(x.formula)} != {v.name for v in x.free_variables()}:
                out.add("smt_symbols_inconsistent")

    go(f)
    if treevars & numvars:
        out.add("numvar_name_clash")
    if any(len(ts) > 1 for ts in types.values()):
        # two variables of one name but different types (in disjoint scopes)
        out.add("var_name_two_types")
    consts = {(v.name, v.n_type) for v in L.VariablesCollector.collect(f) if isinstance(v, L.Constant) and not v.is_numeric()}
    if len(consts) > 1:
        out.add("two_constants")
    return out


# shapes of the OPEN findings only.  The shapes of findings repaired in /repo (re_loop_app, two_constants,
# reserved_var_name, smt_symbols_inconsistent, smt_ite, smt_distinct, mexpr_quote_backslash) are still computed as labels but no longer
# explain a failure: if one of those defects comes back it is reported as a violation.
CAUSE_ORDER = ["numeric_var_bound_twice", "numvar_name_clash", "var_name_two_types",
               "mexpr_brace_bracket", "smt_str_lt", "smt_real_value", "smt_seq_unit", "smt_nested_not",
               "smt_root_not_compound", "smt_root_not_unstable"]


ALL_STAGES = {"reparse_raises", "not_equal", "not_idempotent", "shape_differs", "eq_raises", "unparse2_raises",
              "evaluate_differs"}
# the stages of the oracle at which each shape can make the round trip fail; a failure at another stage is
# not explained by the shape and is reported under the next matching shape or as 'other'
PLAUSIBLE = {"re_loop_app": {"unparse_raises"}, "reserved_var_name": {"reparse_raises"}, "two_constants": ALL_STAGES,
             "numeric_var_bound_twice": {"reparse_raises"}, "numvar_name_clash": ALL_STAGES, "var_name_two_types": ALL_STAGES,
             "smt_symbols_inconsistent": ALL_STAGES, "mexpr_brace_bracket": ALL_STAGES,
             "mexpr_quote_backslash": ALL_STAGES, "smt_ite": {"reparse_raises"}, "smt_str_lt": {"reparse_raises"},
             "smt_real_value": {"reparse_raises"}, "smt_seq_unit": {"reparse_raises"}, "smt_nested_not": {"reparse_raises"},
             "smt_distinct": {"reparse_raises"},
             "smt_root_not_compound": {"not_equal", "not_idempotent", "evaluate_differs"},
             "smt_root_not_unstable": {"not_equal", "not_idempotent", "evaluate_differs"}}


def attribute(stage, cs):
    return next((c for c in CAUSE_ORDER if c in cs and stage in PLAUSIBLE[c]), None)


SEXPR_TOKEN = None


def alpha(sh):
    """shape with bound variables renamed canonically in binding order (tree quantifier variable, match
    expression binders, numeric variables); equal results = equal up to consistent renaming"""
    import re
    global SEXPR_TOKEN
    if SEXPR_TOKEN is None:
        SEXPR_TOKEN = re.compile(r'"(?:[^"]|"")*"|\|[^|]*\||[()]|[^\s()"|]+')
    cnt = [0]

    def fresh():
        cnt[0] += 1
        return "#%d" % cnt[0]

    def var(v, env):
        return [v[0], env.get(v[1], v[1]), v[2]]

    def go(x, env):
        k = x[0]
        if k in ("ForallFormula", "ExistsFormula"):
            inv = var(x[2], env)
            env = dict(env)
            env[x[1][1]] = fresh()
            mx = None
            if x[3] is not None:
                mx = []
                for e in x[3]:
                    if isinstance(e, list) and e and e[0] != "opt" and len(e) == 3:
                        env[e[1]] = fresh()
                        mx.append(var(e, env))
                    else:
                        mx.append(e)
            return [k, var(x[1], env), inv, mx, go(x[4], env)]
        if k in ("ForallIntFormula", "ExistsIntFormula"):
            env = dict(env)
            env[x[1][1]] = fresh()
            return [k, var(x[1], env), go(x[2], env)]
        if k in ("ConjunctiveFormula", "DisjunctiveFormula", "Not"):
            return [k] + [go(a, env) for a in x[1:]]
        if k in ("StructuralPredicateFormula", "SemanticPredicateFormula"):
            return [k, x[1]] + [var(a, env) if len(a) == 3 else a for a in x[2:]]
        if k == "SMT":
            toks = SEXPR_TOKEN.findall(x[1])
            out = []
            for t in toks:
                name = t[1:-1] if t.startswith("|") and t.endswith("|") and len(t) > 1 else t
                out.append(env.get(name, t) if not t.startswith('"') else t)
            return ["SMT", " ".join(out), sorted(var(v, env) for v in x[2])]
        return x

    return go(sh, {})


def predicates():
    from isla import isla_predicates as ip
    sp = set(ip.STANDARD_STRUCTURAL_PREDICATES)
    mp = set(ip.STANDARD_SEMANTIC_PREDICATES) | {ip.LJUST_PREDICATE, ip.LJUST_CROP_PREDICATE, ip.RJUST_PREDICATE,
                                                  ip.RJUST_CROP_PREDICATE, ip.CROP_PREDICATE, ip.EXTEND_CROP_PREDICATE}
    return sp, mp


def is_syntax_rejection(e):
    if isinstance(e, SyntaxError):
        return True
    return type(e).__name__ == "ParseCancellationException"


def round_trip(text, g, parse, unparse):
    """the oracle proper; parse/unparse are parameters so that the self-test can plant a defective unparser.
    returns (status, data): status 'rejected' | 'crash' | 'judged'"""
    try:
        f1 = parse(text, g)
    except Exception as e:
        if is_syntax_rejection(e):
            return "rejected", {"error": "%s: %s" % (type(e).__name__, str(e)[:160])}
        return "crash", {"error": "%s: %s" % (type(e).__name__, str(e)[:160]), "etype": type(e).__name__}
    viol = []
    cs = causes(f1)
    data = {"f1": f1, "f2": None, "u1": None, "causes": sorted(cs), "violations": viol, "same_shape": False}

    def v(stage, detail, ctype=None, cause=None, **kw):
        """sig = root-cause|stage.  The root cause is a shape of f1 that is behind an open finding (first in
        CAUSE_ORDER), or a relation between f1 and f2 computed by the caller, or 'other'."""
        c = cause
        if c is None:
            c = attribute(stage, cs)
            if stage == "unparse_raises" and ctype != "IndexError":
                c = None
        sig = (c if c else "other") + "|" + stage + (":" + ctype if (ctype and not c) else "")
        viol.append(dict({"sig": sig, "text": text, "detail": detail, "causes": sorted(cs)}, **kw))

    try:
        u1 = unparse(f1)
    except Exception as e:
        v("unparse_raises", "%s: %s" % (type(e).__name__, str(e)[:200]), type(e).__name__)
        return "judged", data
    data["u1"] = u1
    try:
        f2 = parse(u1, g)
    except Exception as e:
        v("reparse_raises", "%s: %s" % (type(e).__name__, str(e)[:200]), type(e).__name__, u1=u1)
        return "judged", data
    data["f2"] = f2
    eq = None
    try:
        eq = bool(f1 == f2) and bool(f2 == f1)
    except Exception as e:
        v("eq_raises", "%s: %s" % (type(e).__name__, str(e)[:200]), type(e).__name__, u1=u1)
    try:
        u2 = unparse(f2)
    except Exception as e:
        u2 = None
        v("unparse2_raises", "%s: %s" % (type(e).__name__, str(e)[:200]), type(e).__name__, u1=u1)
    s1, s2 = shape(f1), shape(f2)
    data["same_shape"] = s1 == s2
    rel = None
    if not data["same_shape"]:
        # how do f1 and f2 differ?  Two relations are root causes of their own (open findings):
        m1, m2 = shape(f1, merge=True), shape(f2, merge=True)
        if m1 == m2:
            rel = "mexpr_adjacent_terminals"      # only the split of terminal text into dummy variables differs
        elif alpha(s1) == alpha(s2):
            rel = "alpha_renaming"                # only a consistent renaming of bound variables
        elif alpha(m1) == alpha(m2):
            rel = "alpha_renaming+mexpr_adjacent_terminals"
    if eq is False:
        v("not_equal", "parse(unparse(f1)) != f1", cause=rel, u1=u1, u2=u2)
    if eq is not False and not data["same_shape"]:
        # the library's == accepted a pair that the harness' structural view tells apart
        v("shape_differs", "f1 == f2 holds but the formulas differ structurally", u1=u1, s1=json.dumps(s1)[:600],
          s2=json.dumps(s2)[:600])
    if u2 is not None and u2 != u1:
        v("not_idempotent", "unparse(parse(u1)) != u1", cause=rel, u1=u1, u2=u2)
    return "judged", data


def eval_one(f, dt, g, sp, mp):
    from isla.evaluator import evaluate
    try:
        r = evaluate(f, dt, g, sp, mp)
        return "TRUE" if r.is_true() else "FALSE" if r.is_false() else "UNKNOWN"
    except Exception as e:
        return "raises:" + type(e).__name__


def judge(case):
    import random
    from isla.language import parse_isla, unparse_isla
    from vlib.runner import SoftTimeout, _alarm
    g, text = case["grammar"], case["text"]
    feats = set(case.get("feats", []))
    labels = sorted(feats) + ["grammar:" + case.get("gname", "?")]
    if case.get("avoid_known"):
        labels.append("drawn_clear_of_known")
    sp, mp = predicates()
    random.seed(case.get("rseed", 0))

    def parse(t, gr):
        return parse_isla(t, gr, sp, mp)

    status, data = round_trip(text, g, parse, unparse_isla)
    if status == "rejected":
        return {"labels": labels + ["rejected"], "nontrivial": False, "violations": [], "inconclusive": "rejected_by_parse_isla",
                "counters": {"texts": 1, "rejected": 1}, "sample": {"text": text, "error": data["error"]}}
    if status == "crash":
        return {"labels": labels + ["parse1_crash:" + data["etype"]], "nontrivial": False, "violations": [],
                "inconclusive": "parse1_crash:" + data["etype"], "counters": {"texts": 1, "parse1_crash": 1},
                "sample": {"text": text, "error": data["error"]}}
    viol = data["violations"]
    labels += ["cause_present:" + c for c in data["causes"]]
    counters = {"texts": 1, "accepted": 1}
    f1, f2, u1 = data["f1"], data["f2"], data["u1"]
    evs = []
    if f2 is not None:
        try:
            signal.signal(signal.SIGALRM, _alarm)
            signal.setitimer(signal.ITIMER_REAL, EVAL_BUDGET)
            trees = sorted(case.get("trees", []), key=rt.size)
            if not viol and data.get("same_shape"):
                # f1 and f2 are structurally identical in the harness' own view: evaluate() gets the same input
                # twice.  Evaluation (70% of the cost of a case) is then only a sanity check: two trees, in one
                # case out of four; all trees are used whenever anything differs
                trees = trees[:2] if case.get("rseed", 0) % 4 == 0 else []
                labels.append("eval_sampled" if trees else "eval_skipped_identical")
            for t in trees:
                dt = rt.to_dt(rt.assign_ids(t)[0])
                a = eval_one(f1, dt, g, sp, mp)
                b = eval_one(f2, dt, g, sp, mp)
                evs.append((a, b))
                counters["evaluations"] = counters.get("evaluations", 0) + 1
                if a == "UNKNOWN" or b == "UNKNOWN":
                    counters["eval_unknown"] = counters.get("eval_unknown", 0) + 1
                    continue
                if a != b:
                    # a difference that involves an exception on one side only may be an effect of Z3's
                    # 500 ms budget inside ISLa; retry once before reporting
                    a2 = eval_one(f1, dt, g, sp, mp)
                    b2 = eval_one(f2, dt, g, sp, mp)
                    if a2 == b2 or "UNKNOWN" in (a2, b2):
                        counters["eval_flaky"] = counters.get("eval_flaky", 0) + 1
                        continue
                    kind = "verdict" if not (a.startswith("raises") or b.startswith("raises")) else "exception_one_side"
                    cause = attribute("evaluate_differs", set(data["causes"]))
                    viol.append({"sig": "%s|evaluate_differs:%s" % (cause or "other", kind), "text": text, "u1": u1,
                                 "string": rt.tyield(t), "f1": a, "f2": b})
                    break
                if a in ("TRUE", "FALSE"):
                    counters["eval_definite"] = counters.get("eval_definite", 0) + 1
                else:
                    counters["eval_both_raise"] = counters.get("eval_both_raise", 0) + 1
        except SoftTimeout:
            labels.append("eval_timeout")
            counters["eval_timeout"] = 1
        finally:
            signal.setitimer(signal.ITIMER_REAL, 0)
    nontrivial = bool(feats & NONTRIVIAL)
    key = hashlib.sha1((u1 if u1 is not None else text).encode("utf-8", "surrogatepass")).hexdigest()[:16]
    return {"labels": labels + ["accepted"], "nontrivial": nontrivial, "violations": viol, "inconclusive": None,
            "counters": counters, "key": key,
            "sample": {"text": text, "unparsed": u1, "verdicts": ["%s/%s" % e for e in evs]}}


# ------------------------------------------------------------------ self-test

def selftest():
    import random
    # literal printer
    s = 'a"b\\ä\n\x00'
    assert P.lit(s, "esc") == '"a\\u{22}b\\u{5c}\\u{e4}\\u{a}\\u{0}"', P.lit(s, "esc")
    assert P.lit(s, "q") == '"a\\"b\\u{5c}\\u{e4}\\u{a}\\u{0}"'
    assert P.lit(s, "raw") == '"a\\"b\\u{5c}ä\n\\u{0}"'
    assert P.lit(s, "u4") == '"a\\"b\\u{5c}\\u00e4\\u000a\\u0000"'
    assert P.lit("a\\nb\\", "bs") == '"a\\nb\\u{5c}"'
    assert P.mexpr_text('a"b\\c') == 'a\\"b\\\\c'
    # term printer: the three notations of one term
    t = ["app", "=", [["app", "+", [["int", 17], ["app", "str.to.int", [["ref", ["v", "y"]]]]]], ["app", "str.to.int", [["ref", ["nt", "<x>"]]]]]]
    rnd = random.Random(0)
    assert P.Printer(rnd, forms=("sexpr",)).term(t) == "(= (+ 17 (str.to.int y)) (str.to.int <x>))"
    assert P.Printer(rnd, forms=("infix", "prefix")).term(t) == "17 + str.to.int(y) = str.to.int(<x>)"
    # precedence: (* (+ a b) c) cannot be written infix at the inner node
    t2 = ["app", "*", [["app", "+", [["int", 1], ["int", 2]]], ["int", 3]]]
    for i in range(20):
        s2 = P.Printer(random.Random(i), forms=("infix",)).term(t2)
        assert s2 in ("(* (+ 1 2) 3)", "(+ 1 2) * 3"), s2
    t3 = ["app", "+", [["int", 1], ["app", "*", [["int", 2], ["int", 3]]]]]
    outs = {P.Printer(random.Random(i), forms=("infix",)).term(t3) for i in range(30)}
    assert "1 + 2 * 3" in outs and outs <= {"1 + 2 * 3", "(+ 1 (* 2 3))", "1 + (* 2 3)"}, outs
    f = ["forall", "<a>", None, None, [["bind", "<b>", "x"], ["text", ' "q" '], ["opt", [["text", ";"], ["nt", "<a>"]]]],
         ["and", ["smt", ["app", "=", [["ref", ["xp", ["nt", "<a>"], [[".", "<b>", 2], ["..", "<c>"]]]], ["str", "ä", "raw"]]]],
          ["pred", "nth", ["i", 2], ["v", "x"], ["nt", "<a>"]]]]
    txt = P.Printer(random.Random(1), forms=("sexpr",), layout=False).constraint(f)
    assert txt == 'forall <a>="{<b> x} \\"q\\" [;<a>]": ((= <a>.<b>[2]..<c> "ä") and nth(2, x, <a>))' or \
        txt == 'forall <a> = "{<b> x} \\"q\\" [;<a>]": ((= <a>.<b>[2]..<c> "ä") and nth(2, x, <a>))', txt
    # the oracle flags planted defects of an unparser and is quiet on the real one for a plain constraint
    from isla.language import parse_isla, unparse_isla
    sp, mp = predicates()
    g = gen.ZOO["lang"]

    def parse(tx, gr):
        return parse_isla(tx, gr, sp, mp)

    text = 'forall <stmt> s="{<assgn> a}[ ; <stmt>]" in start: (a = "x := 1" or not before(a, s))'
    st, d = round_trip(text, g, parse, unparse_isla)
    assert st == "judged"  # (whether the code under test passes is for the search to say, not for the self-test)
    # planted unparsers return fixed texts, so the self-test does not depend on the unparser under test
    for bad_text, want in [
            ('forall <stmt> s="{<assgn> a} ; <stmt>" in start: (a = "x := 1" or not before(a, s))', "not_equal"),   # brackets lost
            ('forall <stmt> s="{<assgn> a}[ ; <stmt>]" in start: (a = "x := 1" or before(a, s))', "not_equal"),     # negation lost
            ('forall <stmt> s="{<assgn> a}[ ; <stmt>]" in start: (a = "x := 1 or not before(a, s))', "reparse_raises"),  # quote lost
            ('forall   <stmt> s="{<assgn> a}[ ; <stmt>]" in start: (a = "x := 1" or (not (before(a, s))))  ', "not_idempotent")]:
        calls = []

        def planted(f, t=bad_text, calls=calls):
            calls.append(1)
            return t if len(calls) == 1 else unparse_isla(f)

        st, d = round_trip(text, g, parse, planted)
        sigs = [x["sig"].split("|")[1].split(":")[0] for x in d["violations"]]
        assert want in sigs, (want, sigs)
    st, d = round_trip("forall <stmt> s in start: (", g, parse, unparse_isla)
    assert st == "rejected", st
    # shape() tells apart what it should
    a = parse('forall <var> v: v = "a"', g)
    b = parse('forall <var> v: v = "b"', g)
    assert shape(a) != shape(b) and shape(a) == shape(parse('forall <var> v in start: (= v "a")', g))


def health(stats, tier):
    c = stats["classes"]
    n = max(1, stats["evaluations"])
    rej = c.get("rejected", 0)
    if rej > 0.10 * n:
        return "parse_isla rejected %d of %d generated texts (> 10%%)" % (rej, n)
    acc = c.get("accepted", 0)
    if acc < 0.7 * n:
        return "only %d of %d texts accepted" % (acc, n)
    for feat, floor in [("xpath", 0.05), ("free_or_unnamed_nt", 0.15), ("mexpr", 0.08), ("numq", 0.04), ("smt_infix", 0.15),
                        ("smt_prefix", 0.15), ("lit_escape", 0.1), ("omitted_in", 0.2), ("omitted_name", 0.08)]:
        if c.get(feat, 0) < floor * n:
            return "feature %s in only %d of %d cases" % (feat, c.get(feat, 0), n)
    return None
