"""C20 -- library semantic predicates (count, octal_to_decimal, crop, ljust/rjust(_crop), extend_crop)
decide their documented relation on closed argument trees; proposed replacements are valid trees of the
argument's nonterminal that satisfy the relation."""
from vlib import rt, gen
from vlib import c20_ref as ref
from vlib.gen import chance, pick

ID = "C20"
CASES = {"quick": 6000, "thorough": 300000}
SOFT = 30
HARD = 120
RULE = ("case = one predicate object (COUNT_PREDICATE, OCTAL_TO_DEC_PREDICATE(graph, o, d), CROP/LJUST/RJUST/"
        "LJUST_CROP/RJUST_CROP/EXTEND_CROP_PREDICATE) + grammar + closed argument tree(s) + 1..4 numeric arguments "
        "(int, numeric string, closed one-node tree, closed digit-list tree, or a Variable = 'compute it'), called "
        "through SemanticPredicate.evaluate(graph, *args) or SemanticPredicateFormula.evaluate(graph). Grammars: "
        "character-sequence grammars (right/left recursive, nullable, bounded, multi-character terminals, tar-like "
        "padded fields, reST underline), zoo and random grammars (arbitrary subtrees as arguments), octal/decimal "
        "digit grammars as in tar.py (with leading zeros, without, bounded). Oracle = string arithmetic on the "
        "yield computed by the harness (len, str.ljust/rjust semantics, positional base-8/base-10 value, label "
        "count) + harness tree validator and recogniser. non-trivial = at least one call returned a verdict, a "
        "binding or a replacement; distinct by hash of (predicate, grammar, arguments)")
ASSUMPTIONS = [
    "crop(t, w) with len(t) < w: no verdict is asserted (the name suggests 'holds', the property text 'already has "
    "the requested width' suggests 'does not hold'); a replacement proposed there is a violation under both readings",
    "ljust_crop keeps the prefix, rjust_crop the suffix of a too long text (the side the text is justified to)",
    "count: when the argument tree's root itself is labelled with the needle, both conventions (root counted / not "
    "counted) are accepted",
    "an exception is accepted as 'does not hold' where no tree of the argument's nonterminal spells the required "
    "text (recogniser says so) and for ljust/rjust on a too long text; elsewhere it is a violation",
    "numeric arguments are naturals 0..16 (count: small integers incl. -1); fill strings have length 1; the tree "
    "argument is never rooted in <start> (mk_parser would build <start> ::= <start>); extend_crop only on non-empty "
    "texts made of one repeated character (the implementation asserts that shape)",
]

JUST3 = ("ljust", "rjust", "ljust_crop", "rjust_crop")
WIDTHY = JUST3 + ("extend_crop", "crop")
PREDS = ("count", "octal_to_decimal") + WIDTHY
CHARS = ["a", "b", " ", "0", "\x00", "x", "-", "=", "1", "7"]


# ------------------------------------------------------------------------------------ self-test

def selftest():
    assert ref.just_target("ljust", "ab", 4, " ") == "ab  "
    assert ref.just_target("rjust", "ab", 4, "0") == "00ab"
    assert ref.just_target("ljust", "abab", 2, " ") is None
    assert ref.just_target("ljust_crop", "abcd", 3, " ") == "abc"
    assert ref.just_target("rjust_crop", "abcd", 3, " ") == "bcd"
    assert ref.just_target("rjust_crop", "ab", 3, "0") == "0ab"
    assert ref.just_target("extend_crop", "===", 5, None) == "====="
    assert ref.just_target("extend_crop", "===", 1, None) == "="
    assert ref.octal_holds("17", "15") and not ref.octal_holds("17", "21") and ref.octal_holds("017", "015")
    assert ref.octal_holds("0", "0") and ref.octal_holds("777", "511") and not ref.octal_holds("10", "10")
    for n in (0, 1, 7, 8, 63, 64, 511, 4096, 8 ** 11 - 1):
        assert ref.octal_value(ref.to_octal(n)) == n and int(ref.to_octal(n), 8) == n
        assert ref.decimal_value(str(n)) == n
    g = {"<start>": ["<f>"], "<f>": ["<cs><sp>"], "<cs>": ["<c><cs>", "<c>"], "<c>": ["a", "0"], "<sp>": [" ", ""]}
    cg = rt.canon(g)
    for s, ok in [("a0 ", True), ("a", True), ("", False), (" ", False), ("00a ", True), ("a b", False)]:
        t = ref.parse_ref(cg, "<f>", s)
        assert (t is not None) == ok == rt.member(cg, "<f>", s), s
        if t is not None:
            assert rt.valid(cg, t, "<f>") and rt.tyield(t) == s and not rt.is_open(t)
    lg = rt.canon({"<start>": ["<l>"], "<l>": ["<l><c>", ""], "<c>": ["a", "b"]})
    t = ref.parse_ref(lg, "<l>", "abba")
    assert t is not None and rt.valid(lg, t, "<l>") and rt.tyield(t) == "abba"
    assert ref.count_label(t, "<c>") == 4 and ref.count_label(t, "<l>") == 5
    assert rt.tyield(ref.digits_tree("012")) == "012"
    # every generated case must be well-formed for judge (cheap smoke test of the generator)
    import random
    r = random.Random(7)
    seen = set()
    for _ in range(120):
        c = generate(r, "quick")
        _check_case(c)
        seen.add(c["pred"])
    assert seen == set(PREDS), seen


# ------------------------------------------------------------------------------------ generation

def _charseq_grammar(rnd, shapes):
    k = rnd.randint(1, 4)
    chars = []
    for _ in range(k):
        c = pick(rnd, CHARS)
        if c not in chars:
            chars.append(c)
    shape = pick(rnd, shapes)
    g = {"<start>": ["<f>"], "<f>": ["<cs>"]}
    if shape == "right":
        g["<cs>"] = ["<c><cs>", "<c>"]
    elif shape == "left":
        g["<cs>"] = ["<cs><c>", "<c>"]
    elif shape == "nullable":
        g["<cs>"] = ["<c><cs>", ""]
    elif shape == "tarnum":
        g["<f>"] = ["<cs><sp>"]
        g["<cs>"] = ["<c><cs>", "<c>"]
        g["<sp>"] = [" "]
    elif shape == "tarname":
        g["<f>"] = ["<cs><mn>"]
        g["<cs>"] = ["<c><cs>", "<c>"]
        g["<mn>"] = ["<ns>", ""]
        g["<ns>"] = ["<N><ns>", "<N>"]
        g["<N>"] = ["\x00"]
    elif shape == "bounded":
        g["<cs>"] = ["<c><c><c><c>", "<c><c>", "<c>"]
    elif shape == "multichar":
        g["<cs>"] = ["ab<cs>", "<c><cs>", "<c>"]
    else:
        raise AssertionError(shape)
    g["<c>"] = chars
    return g, shape, chars


def _length(rnd):
    """text length 0..12; the maximum of two draws, because Hypothesis-backed draws favour small values"""
    return max(rnd.randint(0, 12), rnd.randint(0, 9))


def _widths(rnd, n, k):
    out = []
    for _ in range(k):
        m = rnd.randint(0, 9)
        if m <= 2:
            w = n
        elif m <= 4:
            w = n + rnd.randint(1, 3)
        elif m <= 6:
            w = n - rnd.randint(1, 3)
        else:
            w = rnd.randint(0, 14)
        out.append(max(0, min(16, w)))
    return out


def _wkind(rnd, pred):
    kinds = ["tree1", "tree1", "treeN", "var"] if pred == "crop" else ["int", "int", "tree1", "treeN", "var"]
    return pick(rnd, kinds)


def _gen_widthy(rnd, pred):
    generic = chance(rnd, 0.25) and pred != "extend_crop"
    if generic:
        if chance(rnd, 0.5):
            # parsing is involved: grammars with A =>+ A (zoo "eps") are outside the parser's domain
            name = pick(rnd, sorted(k for k in gen.ZOO if not rt.has_unit_cycle(rt.canon(gen.ZOO[k]))))
            g = gen.ZOO[name]
            family = "zoo:" + name
        else:
            g = gen.acyclic_grammar(rnd, max_nts=4, alphabet=["a", "b", " ", "0", "x", "ab", ";"])
            family = "random"
        cg = rt.canon(g)
        whole = gen.tree(rnd, cg, "<start>", rnd.randint(2, 6))
        cands = [n for p, n in rt.nodes(whole) if p and rt.is_nt(n[0]) and n[0] != "<start>" and len(rt.tyield(n)) <= 14]
        if not cands:
            generic = False
        else:
            t = pick(rnd, cands)
            text = rt.tyield(t)
            pool = sorted(set(text)) + CHARS[:4]
            fill = pick(rnd, pool)
    if not generic:
        if pred == "extend_crop" and chance(rnd, 0.4):
            g = {"<start>": ["<u>"], "<u>": ["<eqs>", "<dashes>"], "<eqs>": ["=", "=<eqs>"], "<dashes>": ["-", "-<dashes>"]}
            family = "rest_underline"
            cg = rt.canon(g)
            a = pick(rnd, ["<u>", "<eqs>", "<dashes>"])
            t = ref.parse_ref(cg, a, ("-" if a == "<dashes>" or (a == "<u>" and chance(rnd, 0.5)) else "=") * max(1, _length(rnd)))
        else:
            shapes = (["right", "left", "bounded", "tarnum", "tarname"] if pred == "extend_crop" else
                      ["right", "right", "left", "nullable", "tarnum", "tarname", "bounded", "multichar"])
            g, shape, chars = _charseq_grammar(rnd, shapes)
            family = "charseq:" + shape
            cg = rt.canon(g)
            if pred == "extend_crop":
                arg = "<cs>" if shape in ("tarnum", "tarname") or chance(rnd, 0.5) else "<f>"
            else:
                arg = "<f>" if chance(rnd, 0.5) else "<cs>"
            # text first (length under the generator's control), tree by the reference builder
            L = _length(rnd)
            if shape == "bounded":
                L = pick(rnd, [1, 2, 4])
            ch = pick(rnd, chars)
            body = "".join(ch if pred == "extend_crop" else pick(rnd, chars) for _ in range(max(1, L)))
            if shape == "multichar" and chance(rnd, 0.5):
                body = "ab" + body[:-1]
            if shape == "nullable" and L == 0:
                body = ""
            if arg == "<f>" and shape == "tarnum":
                body += " "
            if arg == "<f>" and shape == "tarname":
                body += "\x00" * rnd.randint(0, 3)
            t = ref.parse_ref(cg, arg, body)
            if t is None:
                t = gen.tree(rnd, cg, arg, rnd.randint(1, 12), bias=0.85)
        text = rt.tyield(t)
        chars_in_g = sorted({ch for alts in cg.values() for a in alts for s in a if not rt.is_nt(s) for ch in s})
        own = chars if family.startswith("charseq") else chars_in_g
        fill = pick(rnd, own) if chance(rnd, 0.8) else pick(rnd, chars_in_g + CHARS)
    n = len(text)
    calls = [{"w": {"kind": _wkind(rnd, pred), "v": w}} for w in _widths(rnd, n, rnd.randint(1, 4))]
    case = {"pred": pred, "family": family, "grammar": g, "tree": t, "calls": calls}
    if pred in JUST3:
        case["fill"] = fill
    return case


def _gen_count(rnd):
    m = rnd.randint(0, 9)
    if m <= 5:
        name = pick(rnd, sorted(gen.ZOO))
        g = gen.ZOO[name]
        family = "zoo:" + name
    else:
        g = gen.grammar(rnd, max_nts=5, alphabet=["a", "b", "c", "x", ";", "("])
        family = "random"
    cg = rt.canon(g)
    whole = gen.tree(rnd, cg, "<start>", rnd.randint(2, 8), bias=0.85)
    if chance(rnd, 0.5):
        t = whole
    else:
        t = pick(rnd, [n for _, n in rt.nodes(whole) if rt.is_nt(n[0])])
    inside = sorted({n[0] for _, n in rt.nodes(t) if rt.is_nt(n[0])})
    calls = []
    for _ in range(rnd.randint(1, 4)):
        needle = pick(rnd, inside) if chance(rnd, 0.8) else pick(rnd, sorted(g))
        c = ref.count_label(t, needle)
        kind = pick(rnd, ["str", "str", "tree", "var"])
        r = rnd.randint(0, 9)
        if r <= 3:
            k = c
        elif r <= 5:
            k = c + 1
        elif r <= 7:
            k = c - 1
        else:
            k = rnd.randint(0, 14)
        v = str(k)
        if k >= 0 and chance(rnd, 0.1):
            v = "0" + v
        calls.append({"needle": needle, "num": {"kind": kind, "v": v}})
    return {"pred": "count", "family": family, "grammar": g, "tree": t, "calls": calls}


def _octal_grammar(rnd):
    if chance(rnd, 0.5):
        O, OD, D, DD = "<o>", "<od>", "<d>", "<dd>"
    else:
        O, OD, D, DD = "<octal_digits>", "<octal_digit>", "<decimal_digits>", "<decimal_digit>"
    oshape = pick(rnd, ["right", "right", "left", "nolead"])
    dshape = pick(rnd, ["right", "right", "left", "nolead", "bounded"])
    g = {"<start>": [O, D]}
    if oshape == "right":
        g[O] = [OD + O, OD]
    elif oshape == "left":
        g[O] = [O + OD, OD]
    else:
        g[O] = ["<olead><os>", OD]
        g["<olead>"] = list("1234567")
        g["<os>"] = [OD + "<os>", OD]
    g[OD] = list("01234567")
    if dshape == "right":
        g[D] = [DD + D, DD]
    elif dshape == "left":
        g[D] = [D + DD, DD]
    elif dshape == "nolead":
        g[D] = ["<dlead><ds>", DD]
        g["<dlead>"] = list("123456789")
        g["<ds>"] = [DD + "<ds>", DD]
    else:
        g[D] = [DD + DD + DD, DD + DD, DD]
    g[DD] = list("0123456789")
    return g, O, D, oshape + "/" + dshape


def _gen_octal(rnd):
    g, O, D, shape = _octal_grammar(rnd)
    cg = rt.canon(g)

    def tree_for(nt, texts):
        for s in texts:
            t = ref.parse_ref(cg, nt, s)
            if t is not None:
                return t
        return ref.parse_ref(cg, nt, "7")

    calls = []
    for _ in range(rnd.randint(1, 3)):
        r = rnd.randint(0, 9)
        if r <= 3:
            n = rnd.randint(0, 63)
        elif r <= 7:
            n = rnd.randint(64, 4095)
        else:
            n = rnd.randint(4096, 8 ** 11)
        otext = ref.to_octal(n)
        lz = "0" * rnd.randint(1, 2) if chance(rnd, 0.2) else ""
        mode = pick(rnd, ["both", "both", "both", "dvar", "ovar"])
        if mode == "dvar":
            calls.append({"o": tree_for(O, [lz + otext, otext, ref.to_octal(n % 512)]), "d": None})
            continue
        if mode == "ovar":
            dl = "0" if chance(rnd, 0.15) else ""
            calls.append({"o": None, "d": tree_for(D, [dl + str(n), str(n), str(n % 1000)])})
            continue
        r = rnd.randint(0, 9)
        if r <= 3:
            dn = n                                   # the denoted number
        elif r == 4:
            dn = int(otext)                          # same digits read as decimal
        elif r == 5:
            dn = int(ref.to_octal(int(otext)))       # decimal reading converted to octal digits
        elif r == 6:
            dn = n + pick(rnd, [-1, 1, 8, -8])
        elif r == 7 and all(ch in "01234567" for ch in str(n)):
            dn = ref.octal_value(str(n))
        else:
            dn = rnd.randint(0, 600)
        dn = max(0, dn)
        dl = "0" if chance(rnd, 0.15) else ""
        ot = tree_for(O, [lz + otext, otext, ref.to_octal(n % 512)])
        if r <= 3:
            # keep the pair matching even when a fallback spelling had to be used
            dn = ref.octal_value(rt.tyield(ot))
        calls.append({"o": ot, "d": tree_for(D, [dl + str(dn), str(dn), str(dn % 1000)])})
    return {"pred": "octal_to_decimal", "family": "octal:" + shape, "grammar": g, "ostart": O, "dstart": D, "calls": calls}


def generate(rnd, tier):
    r = rnd.randint(0, 15)
    if r <= 2:
        case = _gen_count(rnd)
    elif r <= 5:
        case = _gen_octal(rnd)
    else:
        case = _gen_widthy(rnd, WIDTHY[(r - 6) % len(WIDTHY)] if r < 12 else pick(rnd, WIDTHY))
    case["via"] = "formula" if chance(rnd, 0.3) else "pred"
    case["rseed"] = rnd.randint(0, 10 ** 6)
    return case


def _check_case(case):
    """well-formedness of a case (generator / corpus sanity); raises AssertionError"""
    g = case["grammar"]
    cg = rt.canon(g)
    p = case["pred"]
    assert p in PREDS, p
    if p == "octal_to_decimal":
        for c in case["calls"]:
            assert c["o"] is not None or c["d"] is not None
            if c["o"] is not None:
                assert rt.valid(cg, c["o"], case["ostart"]), rt.why_invalid(cg, c["o"], case["ostart"])
                assert rt.tyield(c["o"]) and all(ch in "01234567" for ch in rt.tyield(c["o"]))
            if c["d"] is not None:
                assert rt.valid(cg, c["d"], case["dstart"]), rt.why_invalid(cg, c["d"], case["dstart"])
                assert rt.tyield(c["d"]) and all(ch in "0123456789" for ch in rt.tyield(c["d"]))
        return
    t = case["tree"]
    assert rt.is_nt(t[0]) and rt.valid(cg, t, t[0]), rt.why_invalid(cg, t, t[0])
    if p == "count":
        for c in case["calls"]:
            int(c["num"]["v"])
            assert c["num"]["kind"] in ("str", "tree", "var")
        return
    assert t[0] != "<start>"
    assert not rt.has_unit_cycle(cg), "grammar with A =>+ A"
    if p in JUST3:
        assert len(case["fill"]) == 1
    if p == "extend_crop":
        s = rt.tyield(t)
        assert s and s == s[0] * len(s)
    for c in case["calls"]:
        assert c["w"]["kind"] in ("int", "tree1", "treeN", "var") and 0 <= c["w"]["v"]
        assert not (p == "crop" and c["w"]["kind"] == "int")


# ------------------------------------------------------------------------------------ judging

def _brief(x):
    s = repr(x)
    return s if len(s) < 300 else s[:300] + "..."


def judge(case):
    import random as pyrandom
    from grammar_graph import gg
    from isla import isla_predicates as P
    from isla import language
    from isla.derivation_tree import DerivationTree

    _check_case(case)
    pred = case["pred"]
    g = case["grammar"]
    cg = rt.canon(g)
    graph = gg.GrammarGraph.from_grammar(g)
    labels = set([pred, "family:" + case.get("family", "?").split(":")[0], "via:" + case.get("via", "pred")])
    viol = {}
    outcomes = []
    stats = {"calls": 0, "decided": 0}

    def bad(sig, **kw):
        if sig not in viol:
            viol[sig] = dict(sig=sig, **kw)

    if pred == "octal_to_decimal":
        pobj = P.OCTAL_TO_DEC_PREDICATE(graph, case["ostart"], case["dstart"])
    else:
        pobj = {"count": P.COUNT_PREDICATE, "crop": P.CROP_PREDICATE, "ljust": P.LJUST_PREDICATE,
                "rjust": P.RJUST_PREDICATE, "ljust_crop": P.LJUST_CROP_PREDICATE,
                "rjust_crop": P.RJUST_CROP_PREDICATE, "extend_crop": P.EXTEND_CROP_PREDICATE}[pred]
    assert pobj.name == pred, (pobj.name, pred)

    def run(args):
        """-> (kind, payload): kind in true/false/undecided/dict/raises/other"""
        stats["calls"] += 1
        pyrandom.seed(case.get("rseed", 0))
        try:
            if case.get("via") == "formula":
                res = language.SemanticPredicateFormula(pobj, *args).evaluate(graph)
            else:
                res = pobj.evaluate(graph, *args)
        except Exception as e:
            return "raises", type(e).__name__
        if not isinstance(res, language.SemPredEvalResult):
            return "other", _brief(res)
        r = res.result
        if r is True:
            return "true", None
        if r is False:
            return "false", None
        if r is None:
            return "undecided", None
        if isinstance(r, dict):
            return "dict", r
        return "other", _brief(r)

    def numeral_node(node, accepted, what, sig):
        """a numeric binding: one node, no children, label a decimal numeral with an accepted value"""
        if not isinstance(node, DerivationTree):
            bad(sig, problem="bound value is not a tree", observed=_brief(node), **what)
            return
        v = node.value
        if node.children or not isinstance(v, str) or not v.isdigit() or not v.isascii() or int(v) not in accepted:
            bad(sig, problem="bound numeral wrong", observed=_brief(node), accepted=sorted(accepted), **what)

    def single_entry(d, key, what, sig):
        """the dict binds exactly the argument that was passed (variable: equal; tree: same node)"""
        if len(d) != 1:
            bad(sig, problem="not exactly one entry", observed=_brief(d), **what)
            return None
        (k, v), = d.items()
        same = (k is key) or (isinstance(key, DerivationTree) and isinstance(k, DerivationTree) and k.id == key.id) \
            or (isinstance(key, language.Variable) and isinstance(k, language.Variable) and k == key)
        if not same:
            bad(sig, problem="key is not the argument", observed=_brief(k), **what)
            return None
        return v

    def check_replacement(v, root, target_ok, what, prefix):
        """v must be a closed valid tree rooted in `root` whose text passes target_ok (returns None or a reason)"""
        if not isinstance(v, DerivationTree):
            bad(prefix + ":replacement_not_a_tree", observed=_brief(v), **what)
            return
        rv = rt.from_dt(v)
        if rt.is_open(rv):
            bad(prefix + ":replacement_open", observed=_brief(rv), **what)
            return
        if not rt.valid(cg, rv, root):
            bad(prefix + ":replacement_invalid_tree", why=rt.why_invalid(cg, rv, root), observed=_brief(rv), **what)
            return
        why = target_ok(rt.tyield(rv))
        if why:
            bad(prefix + ":replacement_" + why, observed_text=rt.tyield(rv), **what)

    def width_arg(w):
        k, v = w["kind"], w["v"]
        if k == "int":
            return int(v)
        if k == "tree1":
            return DerivationTree(str(v), ())
        if k == "treeN":
            return rt.to_dt(ref.digits_tree(str(v)), with_ids=False)
        return language.BoundVariable("n", language.Variable.NUMERIC_NTYPE)

    # ---------------------------------------------------------------- count
    if pred == "count":
        t = case["tree"]
        for c in case["calls"]:
            needle, num = c["needle"], c["num"]
            cnt = ref.count_label(t, needle)
            # the root is a node of the tree: a root labelled with the needle is one occurrence (the first version of this
            # check also accepted cnt - 1 there; nothing in the documentation supports that reading and the code counts
            # the root -- the tolerance hid seeded change C20-4)
            accepted = {cnt}
            if t[0] == needle:
                labels.add("count:root_is_needle")
            dt = rt.to_dt(t, with_ids=False)
            what = dict(needle=needle, num=num, occurrences=cnt)
            if num["kind"] == "var":
                var = language.BoundVariable("n", language.Variable.NUMERIC_NTYPE)
                kind, pay = run([dt, needle, var])
                outcomes.append("count:var:" + kind)
                if kind == "dict":
                    v = single_entry(pay, var, what, "count:binding_wrong")
                    if v is not None:
                        numeral_node(v, accepted, what, "count:binding_wrong")
                elif kind == "raises":
                    bad("count:raises:" + pay, **what)
                else:
                    bad("count:var_not_bound", observed=kind, **what)
                continue
            k = int(num["v"])
            arg = num["v"] if num["kind"] == "str" else DerivationTree(num["v"], ())
            kind, pay = run([dt, needle, arg])
            outcomes.append("count:lit:" + kind)
            labels.add("count:k" + ("=" if k == cnt else "<" if k < cnt else ">") + "n")
            if kind == "raises":
                bad("count:raises:" + pay, **what)
            elif kind == "true":
                if k not in accepted:
                    bad("count:holds_but_count_differs:" + ("fewer" if cnt < k else "more"), **what)
            elif kind == "false":
                if k == cnt and accepted == {cnt}:
                    bad("count:fails_on_exact_count", **what)
            elif kind == "dict":
                v = single_entry(pay, dt, what, "count:replacement_key")
                if v is not None:
                    if k in accepted and accepted == {cnt}:
                        bad("count:fails_on_exact_count", observed="replacement", **what)
                    if isinstance(v, DerivationTree):
                        rv = rt.from_dt(v)
                        if not rt.valid(cg, rv, t[0], allow_open=True):
                            bad("count:replacement_invalid_tree", why=rt.why_invalid(cg, rv, t[0], True), **what)
                        elif ref.count_label(rv, needle) != k:
                            bad("count:replacement_wrong_count", observed=ref.count_label(rv, needle), **what)
                    else:
                        bad("count:replacement_not_a_tree", observed=_brief(v), **what)
            else:
                bad("count:" + kind, observed=pay, **what)

    # ---------------------------------------------------------------- octal_to_decimal
    elif pred == "octal_to_decimal":
        O, D = case["ostart"], case["dstart"]
        for c in case["calls"]:
            ot, dtree = c["o"], c["d"]
            if ot is not None and dtree is not None:
                otext, dtext = rt.tyield(ot), rt.tyield(dtree)
                exp = ref.octal_holds(otext, dtext)
                what = dict(octal=otext, decimal=dtext, expected=exp)
                kind, pay = run([rt.to_dt(ot, False), rt.to_dt(dtree, False)])
                outcomes.append("octal:both:" + kind)
                labels.add("octal:expected_" + str(exp).lower())
                if kind in ("true", "false"):
                    if (kind == "true") != exp:
                        bad("octal:both_trees:" + ("holds_but_not_denoted" if kind == "true" else "fails_on_denoted"), **what)
                elif kind == "raises":
                    bad("octal:both_trees:raises:" + pay, **what)
                elif kind == "dict":
                    # a proposal instead of a verdict: wrong when the relation already holds
                    if exp:
                        bad("octal:both_trees:fails_on_denoted", observed=_brief(pay), **what)
                    else:
                        labels.add("octal:both:proposal")
                else:
                    bad("octal:both_trees:" + kind, observed=pay, **what)
                continue
            if dtree is None:
                otext = rt.tyield(ot)
                n = ref.octal_value(otext)
                var = language.BoundVariable("d", language.Variable.NUMERIC_NTYPE if chance_from(case, otext) else D)
                what = dict(octal=otext, expected_decimal=str(n))
                kind, pay = run([rt.to_dt(ot, False), var])
                outcomes.append("octal:dvar:" + kind)
                feasible = rt.member(cg, D, str(n))
                root = D

                def ok(txt, n=n):
                    if not txt or not all(ch in "0123456789" for ch in txt):
                        return "not_a_numeral"
                    return None if ref.decimal_value(txt) == n else "wrong_number"
            else:
                dtext = rt.tyield(dtree)
                n = ref.decimal_value(dtext)
                var = language.BoundVariable("o", O)
                what = dict(decimal=dtext, expected_octal=ref.to_octal(n))
                kind, pay = run([var, rt.to_dt(dtree, False)])
                outcomes.append("octal:ovar:" + kind)
                feasible = rt.member(cg, O, ref.to_octal(n))
                root = O

                def ok(txt, n=n):
                    if not txt or not all(ch in "01234567" for ch in txt):
                        return "not_a_numeral"
                    return None if ref.octal_value(txt) == n else "wrong_number"
            if kind == "dict":
                v = single_entry(pay, var, what, "octal:binding_key")
                if v is not None:
                    check_replacement(v, root, ok, what, "octal:" + ("dvar" if dtree is None else "ovar"))
            elif kind == "raises":
                if feasible:
                    bad("octal:raises_feasible:" + pay, **what)
                else:
                    labels.add("octal:raises_infeasible")
            else:
                bad("octal:var_not_bound", observed=kind, **what)

    # ---------------------------------------------------------------- crop / just family
    else:
        t = case["tree"]
        text = rt.tyield(t)
        n = len(text)
        fill = case.get("fill")
        for c in case["calls"]:
            w = c["w"]
            dt = rt.to_dt(t, with_ids=False)
            warg = width_arg(w)
            args = [dt, warg] + ([fill] if pred in JUST3 else [])
            what = dict(text=text, width=w, fill=fill)
            kind, pay = run(args)
            labels.add("w:" + w["kind"])
            if w["kind"] == "var":
                outcomes.append(pred + ":var:" + kind)
                if kind == "dict":
                    v = single_entry(pay, warg, what, pred + ":binding_wrong")
                    if v is not None:
                        numeral_node(v, {n}, what, pred + ":binding_wrong")
                elif kind == "raises":
                    bad(pred + ":raises:" + pay, **what)
                else:
                    bad(pred + ":var_not_bound", observed=kind, **what)
                continue
            wv = int(w["v"])
            rel = "eq" if n == wv else "short" if n < wv else "long"
            outcomes.append("%s:%s:%s" % (pred, rel, kind))
            if kind == "other":
                bad(pred + ":other_result", observed=pay, **what)
                continue
            if kind == "undecided":
                bad(pred + ":undecided_on_closed_arguments", **what)
                continue
            if rel == "eq":
                if kind != "true":
                    bad(pred + ":not_true_at_requested_width", observed=kind if kind != "raises" else "raises " + pay, **what)
                continue
            if pred == "crop" and rel == "short":
                labels.add("crop:short:" + kind)
                if kind == "dict":
                    bad("crop:replacement_for_short_text", observed=_brief(pay), **what)
                elif kind == "raises":
                    bad("crop:raises:" + pay, **what)
                continue
            if kind == "true":
                bad("%s:holds_but_width_differs:%s" % (pred, rel), **what)
                continue
            if kind == "false":
                continue
            target = text[:wv] if pred == "crop" else ref.just_target(pred, text, wv, fill)
            if kind == "raises":
                if target is None:
                    labels.add(pred + ":raises_too_long")
                    labels.add("raises_too_long:" + pay)
                elif rt.member(cg, t[0], target):
                    bad("%s:raises_feasible:%s" % (pred, pay), target=target, **what)
                else:
                    labels.add(pred + ":raises_infeasible")
                    labels.add("raises_infeasible:" + pay)
                continue
            # replacement
            v = single_entry(pay, dt, what, pred + ":replacement_key")
            if v is None:
                continue

            def ok(txt, target=target, wv=wv):
                if len(txt) != wv:
                    return "wrong_width"
                if target is None:
                    return "without_relation"
                if txt != target:
                    return "wrong_text"
                return None
            check_replacement(v, t[0], ok, dict(what, target=target), pred)

    for o in outcomes:
        labels.add(o)
        if o.rsplit(":", 1)[1] in ("true", "false", "dict"):
            stats["decided"] += 1
    return {"labels": sorted(labels), "nontrivial": stats["decided"] > 0, "violations": list(viol.values()),
            "inconclusive": None, "counters": {"predicate_calls": stats["calls"], "decided_calls": stats["decided"]},
            "sample": {"pred": pred, "family": case.get("family"), "outcomes": outcomes,
                       "args": _sample_args(case)}}


def chance_from(case, s):
    """deterministic coin from the case (numeric-typed vs nonterminal-typed variable for the decimal)"""
    return (case.get("rseed", 0) + len(s)) % 2 == 0


def _sample_args(case):
    if case["pred"] == "octal_to_decimal":
        return [{"o": None if c["o"] is None else rt.tyield(c["o"]), "d": None if c["d"] is None else rt.tyield(c["d"])}
                for c in case["calls"]]
    out = {"root": case["tree"][0], "text": rt.tyield(case["tree"])[:60], "calls": case["calls"]}
    if "fill" in case:
        out["fill"] = case["fill"]
    return out


# ------------------------------------------------------------------------------------ health

def health(stats, tier):
    cl = stats["classes"]
    if stats["evaluations"] < 2000:
        return None
    need = ["count:lit:true", "count:lit:false", "count:var:dict", "octal:both:true", "octal:both:false",
            "octal:dvar:dict", "octal:ovar:dict", "crop:eq:true", "crop:long:dict"]
    for p in JUST3 + ("extend_crop",):
        need += [p + ":eq:true", p + ":short:dict", p + ":var:dict"]
    for p in ("ljust_crop", "rjust_crop", "extend_crop"):
        need.append(p + ":long:dict")
    missing = [k for k in need if cl.get(k, 0) < 3]
    if missing:
        return "outcome classes (nearly) unreached: %s" % missing
    return None
