"""C03 -- evaluate()/check() agree with the specification's semantics on closed trees."""
from vlib import rt, gen, fml
from vlib.gen import chance, pick
from vlib.runner import reraise_if_timeout

ID = "C03"
CASES = {"quick": 3000, "thorough": 240000}
SOFT = 40
HARD = 240
RULE = ("case = (grammar: zoo or random incl. wide alternatives and numeric nonterminals; closed derivation tree; "
        "constraint in core concrete syntax generated scope- and type-directed: tree quantifiers with/without match "
        "expressions and optionals, nested 'in', six binary structural predicates + nth + level, count, SMT atoms "
        "(=, distinct, str.len, str.to.int on numeral-valued types, arithmetic, prefixof/suffixof/contains), numeric "
        "quantifiers in >= 25% of cases, and in 30% of the others a small numeric-quantifier formula is put next to the ordinary "
        "constraint so that the quantifier-elimination strategy judges every construct; 12% of the cases use a 40- or "
        "260-children node with deviant children in the tail and nested quantifiers 'in' one of its children); oracle = independent reference semantics written from the specification "
        "(vlib/fml.py); compared: evaluate(text, tree, grammar) and ISLaSolver(grammar, text).check(tree); "
        "non-trivial = some tree quantifier has a non-empty domain in the tree and the reference decided; distinct by "
        "(grammar, tree, constraint) hash")
ASSUMPTIONS = ["match expressions with more than one parse are not judged (parse_match_expression documents that only the first parse is used)",
               "nth judged when the two nodes carry different labels, level when neither node is labelled with the level nonterminal; consecutive is left to C04",
               "numeric quantifiers: only the fragment where the numeric variable occurs as third argument of count and in str.to.int(n) compared with n-free terms (complete finite test set of candidates)",
               "SMT atoms limited to operators whose ground semantics the harness evaluates in Python (C05 covers the rest against Z3)"]

ALPHA = ["a", "b", "c", "x", "y", "0", "1", " ", ";", "=", "(", ")", "ab", ","]


def selftest():
    # worked examples of the specification
    g = gen.ZOO["lang"]
    cg = rt.canon(g)
    mx = [["bind", "<var>", "lhs"], ["text", " := "], ["bind", "<var>", "rhs"], ["opt", [["text", " ; "], ["nt", "<assgn>"]]]]
    alts = fml.mexpr_alternatives(mx)
    res = []
    for e in alts:
        res.extend(fml.abstract_parses(cg, "<stmt>", fml.mexpr_word(e)))
    assert len(res) == 2, res
    paths = sorted(tuple(sorted(P.items())) for _, P in res)
    assert paths == [(("lhs", (0, 0)), ("rhs", (0, 2, 0)))] * 2, paths

    def parse(s):
        # tiny hand parser for the assignment language
        stmts = s.split(" ; ")

        def assgn(a):
            l, r = a.split(" := ")
            rk = "<var>" if r in "abc" else "<digit>"
            return ["<assgn>", [["<var>", [[l, []]]], [" := ", []], ["<rhs>", [[rk, [[r, []]]]]]]]

        def stmt(i):
            if i == len(stmts) - 1:
                return ["<stmt>", [assgn(stmts[i])]]
            return ["<stmt>", [assgn(stmts[i]), [" ; ", []], stmt(i + 1)]]

        return ["<start>", [stmt(0)]]

    defuse = ["forall", "<assgn>", "a1", "start", None,
              ["forall", "<var>", "v", "a1", [["nt", "<var>"], ["text", " := "], ["bind", "<var>", "v"]] and None,
               ["true"]]]
    # definition-use: every right-hand-side variable is assigned before
    du = ["forall", "<assgn>", "a1", "start", [["nt", "<var>"], ["text", " := "], ["bind", "<var>", "r"]],
          ["exists", "<assgn>", "a2", "start", [["bind", "<var>", "l"], ["text", " := "], ["nt", "<rhs>"]],
           ["and", ["pred", "before", ["v", "a2"], ["v", "a1"]], ["smt", ["=", ["var", "l"], ["var", "r"]]]]]]
    assert fml.sat(cg, parse("a := 1 ; b := a"), du)[0] is True
    assert fml.sat(cg, parse("a := 1 ; b := c"), du)[0] is False
    assert fml.sat(cg, parse("a := 1"), du)[0] is True
    # numeric quantifier fragment
    nq = ["existsint", "n", ["and", ["count", "start", "<assgn>", ["v", "n"]], ["smt", [">", ["str.to.int", ["var", "n"]], ["int", 1]]]]]
    assert fml.sat(cg, parse("a := 1 ; b := a"), nq)[0] is True
    assert fml.sat(cg, parse("a := 1"), nq)[0] is False
    # python term evaluation agrees with Z3 on a few ground terms
    import z3
    for t, val in [(["<", ["+", ["str.len", ["var", "x"]], ["int", 2]], ["int", 5]], {"x": "ab"}),
                   (["=", ["mod", ["str.len", ["var", "x"]], ["int", 3]], ["int", 1]], {"x": "abcd"}),
                   (["str.prefixof", ["str", "ab"], ["var", "x"]], {"x": "abc"}),
                   (["str.contains", ["var", "x"], ["str", "bc"]], {"x": "abc"}),
                   (["str.suffixof", ["str", "b"], ["var", "x"]], {"x": "abc"}),
                   ([">=", ["*", ["str.to.int", ["var", "x"]], ["int", 3]], ["int", 36]], {"x": "012"})]:
        e = fml.term_to_z3(t, z3, {k: z3.StringVal(v) for k, v in val.items()})
        zr = z3.simplify(e)
        assert z3.is_true(zr) == fml.ev_term(t, val) and (z3.is_true(zr) or z3.is_false(zr)), (t, zr)


WIDE = {"<start>": ["<l>"], "<l>": ["<i>" * 40, "<i>" * 30 + ";<l>", "<i><i>"], "<i>": ["a", "b", "<d>", "(<l>)"],
        "<d>": ["0", "1", "5"]}
# only used together with wide_tree's 260-children node (random derivations of it would be huge)
WIDE260 = dict(WIDE, **{"<l>": WIDE["<l>"] + ["<i>" * 260]})


def wide_tree(rnd):
    """a 40-children (sometimes 260-children) node whose items are all equal except a few deviants, mostly in the
    tail (child indices >= 28, and >= 253 where the path index switches to two-character keys, are where a narrow
    path index would lose or confuse subtrees)"""
    base = pick(rnd, ["a", "b"])
    n = 260 if chance(rnd, 0.3) else 40
    kids = [["<i>", [[base, []]]] for _ in range(n)]
    for _ in range(rnd.randint(1, 3)):
        pos = rnd.randint(n - 12, n - 1) if chance(rnd, 0.7) else rnd.randint(0, n - 1)
        dev = pick(rnd, [["<i>", [["b" if base == "a" else "a", []]]], ["<i>", [["<d>", [[pick(rnd, ["0", "1", "5"]), []]]]]],
                         ["<i>", [["(", []], ["<l>", [["<i>", [["a", []]]], ["<i>", [["b", []]]]]], [")", []]]]])
        kids[pos] = dev
    return ["<start>", [["<l>", kids]]]


def gen_grammar(rnd):
    if chance(rnd, 0.12):
        return "wide", WIDE
    r = rnd.random()
    if r > 0.45:
        name = pick(rnd, ["lang", "blk", "eps", "csv", "xml", "rec", "int", "rec", "lang"])
        return name, gen.ZOO[name]
    g = gen.grammar(rnd, max_nts=5, wide=chance(rnd, 0.3), alphabet=ALPHA)
    if chance(rnd, 0.5):
        # attach a numeric nonterminal
        keys = [k for k in g if k != "<start>"]
        host = pick(rnd, keys)
        g = dict(g)
        g[host] = list(g[host]) + [pick(rnd, ["<num>", "<num>;", "=<num>"])]
        g["<num>"] = ["<dig><num>", "<dig>"]
        g["<dig>"] = ["0", "1", "2", "7"]
    return "random", g


def generate(rnd, tier):
    name, g = gen_grammar(rnd)
    cg = rt.canon(g)
    md = rt.min_depths(cg)
    trees = [gen.tree(rnd, cg, "<start>", rnd.randint(2, 7), md, bias=0.85) for _ in range(3)]
    t = max(trees, key=rt.size)
    if rt.size(t) > 160:
        t = min(trees, key=rt.size)
    if name == "wide" and chance(rnd, 0.7):
        t = wide_tree(rnd)
        trees = [t]
        if len(t[1][0][1]) == 260:
            g = WIDE260
            cg = rt.canon(g)
    lits = fml.sample_lits(cg, trees)
    numq = 0.9 if chance(rnd, 0.3) else 0.0
    fg = fml.FGen(rnd, cg, lits, dict(numq=numq, unused=0.04, mexpr_depth=pick(rnd, [2, 2, 2, 3, 4]), connectives=("and", "or", "not", "implies", "iff", "xor")[:rnd.randint(3, 6)]))
    if name == "wide" and chance(rnd, 0.6):
        # verdicts that hinge on single children of the 40-children node
        T = pick(rnd, ["<i>", "<i>", "<d>", "<l>"])
        if T == "<i>" and chance(rnd, 0.4):
            # a nested quantifier 'in v1': its domain is the sub-trie below one child of the wide node
            T2 = pick(rnd, ["<d>", "<d>", "<i>"])
            body = fg.atom([("v1", T), ("v2", T2)] if chance(rnd, 0.5) else [("v2", T2)])
            if chance(rnd, 0.3):
                body = ["not", body]
            body = [pick(rnd, ["forall", "exists"]), T2, "v2", "v1", None, body]
        else:
            body = fg.atom([("v1", T)])
            if chance(rnd, 0.3):
                body = ["not", body]
        f = [pick(rnd, ["forall", "exists"]), T, "v1", "start", None, body]
    else:
        f = fg.formula([("start", "<start>")], rnd.randint(1, 3))
    if numq == 0.0 and chance(rnd, 0.3):
        # the quantifier-elimination strategy is chosen for the WHOLE constraint as soon as one numeric quantifier occurs
        # in it: put an ordinary constraint (tree quantifiers, match expressions, structural predicates) next to a small
        # numeric-quantifier formula, so that every construct is also judged by that strategy
        n = fg.fresh("n")
        nq = [pick(rnd, ["existsint", "existsint", "forallint"]), n, fg.num_body([("start", "<start>")], 0, n)]
        f = [pick(rnd, ["and", "or", "and"])] + ([f, nq] if chance(rnd, 0.5) else [nq, f])
    if chance(rnd, 0.2):
        f = fml.reuse_names(rnd, f)
    return {"grammar": g, "gname": name, "tree": t, "formula": f}


def features(f):
    fs = set()
    for x in fml.walk(f):
        k = x[0]
        if k in ("forall", "exists"):
            fs.add("q")
            if x[4] is not None:
                fs.add("mexpr")
                if any(e[0] == "opt" for e in x[4]):
                    fs.add("optional")
            if x[3] != "start":
                fs.add("nested_in")
        elif k in ("forallint", "existsint"):
            fs.add("numq")
        elif k == "pred":
            fs.add("pred:" + x[1])
        elif k == "count":
            fs.add("count")
        elif k == "smt":
            fs.add("smt")
        elif k in ("implies", "iff", "xor"):
            fs.add("conn:" + k)
    if fml.has_unused_forall(f):
        fs.add("unused_bound_var")
    return fs


class long_z3_timeout:
    """ISLa's validity queries carry a 500 ms Z3 timeout; on a loaded machine that alone turns a
    decidable query into UNKNOWN.  For a retry the harness swaps in a 20 s budget (patching the
    name `is_valid` in isla.evaluator from outside; nothing in /repo is changed)."""

    def __enter__(self):
        import functools
        from isla import evaluator, z3_helpers
        self.ev, self.old = evaluator, evaluator.is_valid
        evaluator.is_valid = functools.partial(z3_helpers.is_valid, timeout=20000)

    def __exit__(self, *a):
        self.ev.is_valid = self.old
        return False


def run_isla(text, g, t, want_check=True):
    """returns dict: evaluate -> 'TRUE'|'FALSE'|'UNKNOWN'|'raises:..', check -> True|False|'unknown'|'raises:..'"""
    from isla.evaluator import evaluate
    from isla.language import parse_isla
    from isla.isla_predicates import STANDARD_STRUCTURAL_PREDICATES as SP, STANDARD_SEMANTIC_PREDICATES as MP
    out = {}
    dt = rt.to_dt(rt.assign_ids(t)[0])
    try:
        pf = parse_isla(text, g, SP, MP)
    except SyntaxError as e:
        out["parse_error"] = "SyntaxError: " + str(e)[:200]
        return out
    except Exception as e:
        reraise_if_timeout(e)
        out["parse_error"] = type(e).__name__ + ": " + str(e)[:200]
        return out
    try:
        r = evaluate(pf, dt, g, SP, MP)
        out["evaluate"] = "TRUE" if r.is_true() else "FALSE" if r.is_false() else "UNKNOWN"
    except Exception as e:
        reraise_if_timeout(e)
        out["evaluate"] = "raises:" + type(e).__name__
        out["evaluate_detail"] = str(e)[:300]
    if out["evaluate"] == "UNKNOWN":
        with long_z3_timeout():
            try:
                r = evaluate(pf, dt, g, SP, MP)
                out["evaluate_first"] = "UNKNOWN"
                out["evaluate"] = "TRUE" if r.is_true() else "FALSE" if r.is_false() else "UNKNOWN"
            except Exception as e:
                reraise_if_timeout(e)
                out["evaluate"] = "raises:" + type(e).__name__
                out["evaluate_detail"] = str(e)[:300]
    if want_check:
        from isla.solver import ISLaSolver, UnknownResultError
        try:
            s = ISLaSolver(g, text)
        except Exception as e:
            reraise_if_timeout(e)
            out["check"] = "ctor_raises:" + type(e).__name__
            out["check_detail"] = str(e)[:300]
            return out
        try:
            out["check"] = bool(s.check(dt))
        except UnknownResultError:
            out["check"] = "unknown"
            with long_z3_timeout():
                try:
                    out["check"] = bool(s.check(dt))
                    out["check_first"] = "unknown"
                except UnknownResultError:
                    pass
                except Exception as e:
                    reraise_if_timeout(e)
                    out["check"] = "raises:" + type(e).__name__
                    out["check_detail"] = str(e)[:300]
        except Exception as e:
            reraise_if_timeout(e)
            out["check"] = "raises:" + type(e).__name__
            out["check_detail"] = str(e)[:300]
    return out


def judge(case):
    g, t, f = case["grammar"], case["tree"], case["formula"]
    cg = rt.canon(g)
    text = fml.pr(f)
    fs = features(f)
    labels = sorted(fs) + ["strategy:" + ("qe" if "numq" in fs else "legacy")]
    if rt.max_branch(t) > 28:
        labels.append("branch>28")
    try:
        exp, flags, nonempty = fml.sat(cg, t, f)
    except fml.Undecided as e:
        return {"labels": labels + ["ref_undecided"], "nontrivial": False, "violations": [], "inconclusive": "ref_undecided"}
    if "numq" in fs and fml.sat(cg, t, f, numq_min=1)[0] != exp:
        # the specification says numeric variables range over "positive integers"; whether 0 counts is
        # not pinned down, so verdicts that hinge on n = 0 are not judged
        flags = set(flags) | {"numq_zero_dependent"}
    if flags:
        return {"labels": labels + sorted(flags), "nontrivial": False, "violations": [], "inconclusive": "not_judged:" + sorted(flags)[0]}
    obs = run_isla(text, g, t)
    if "parse_error" in obs:
        return {"labels": labels + ["parse_rejected"], "nontrivial": False, "violations": [], "inconclusive": "parse_rejected",
                "sample": {"text": text, "error": obs["parse_error"]}}
    if rt.has_unit_cycle(cg) and any("RecursionError" in str(obs.get(k, "")) for k in ("evaluate", "check")):
        # infinitely ambiguous grammar (A =>+ A): outside the Earley parser's domain (C10), which ISLa uses to
        # parse match expressions
        return {"labels": labels + ["cyclic_grammar_recursion"], "nontrivial": False, "violations": [], "inconclusive": "cyclic_grammar_recursion"}
    labels.append("expected_true" if exp else "expected_false")
    if "evaluate_first" in obs or "check_first" in obs:
        labels.append("unknown_at_500ms_decided_at_20s")
    viol = []
    want = "TRUE" if exp else "FALSE"
    strat = "qe" if "numq" in fs else "legacy"
    wrong = "wrong_verdict"
    if strat == "qe":
        # root-cause recognition: does the observed verdict equal the one obtained when numeric variables
        # range over all strings instead of numerals (known finding numq-all-strings)?
        try:
            alt = fml.sat(cg, t, f, numq_all_ints=True)[0]
            if alt != exp:
                wrong = "wrong_verdict:numq_over_all_strings"
        except fml.Undecided:
            pass
    if obs["evaluate"] != want:
        kind = obs["evaluate"] if obs["evaluate"].startswith("raises") else ("unknown" if obs["evaluate"] == "UNKNOWN" else wrong)
        viol.append({"sig": "evaluate:%s:%s" % (strat, kind), "text": text, "string": rt.tyield(t), "expected": want,
                     "observed": obs["evaluate"], "detail": obs.get("evaluate_detail")})
    if obs.get("check") != exp:
        c = obs.get("check")
        kind = c if isinstance(c, str) else wrong
        viol.append({"sig": "check:%s:%s" % (strat, kind), "text": text, "string": rt.tyield(t), "expected": exp,
                     "observed": c, "detail": obs.get("check_detail")})
    return {"labels": labels, "nontrivial": nonempty, "violations": viol, "inconclusive": None,
            "sample": {"constraint": text, "string": rt.tyield(t)[:80], "nodes": rt.size(t), "expected": want}}


def health(stats, tier):
    c = stats["classes"]
    n = max(1, stats["evaluations"])
    judged = c.get("expected_true", 0) + c.get("expected_false", 0)
    if judged < 0.6 * n:
        return "only %d of %d cases judged: %s" % (judged, n, {k: v for k, v in c.items() if k in ("parse_rejected", "ref_undecided", "ambiguous_mexpr")})
    share = c.get("expected_true", 0) / max(1, judged)
    if not 0.2 <= share <= 0.8:
        return "TRUE share %.2f outside [0.2, 0.8]" % share
    if c.get("strategy:qe", 0) < 0.15 * n:
        return "numeric-quantifier strategy reached in only %d of %d cases" % (c.get("strategy:qe", 0), n)
    return None
