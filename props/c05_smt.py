"""C05 -- ground SMT-LIB atoms are judged exactly as Z3 judges them (and never raise)."""
import re as _re
from vlib import c05_terms as T
from vlib.c05_terms import B, I, S, R

ID = "C05"
CASES = {"quick": 12000, "thorough": 400000}
SOFT = 60
HARD = 120
ORACLE_TIMEOUT_MS = 10000
RULE = ("case = typed ground Boolean SMT-LIB term (depth <= 4) over every operator of ISLa's lexer list plus the core ones "
        "(= distinct ite not and or => xor, + - * div mod abs unary minus, < <= > >=, all str.* and re.* operators incl. both "
        "spellings of re.loop), with 0-3 string variables instantiated from a pool containing '', newline, tab, quote, backslash, "
        "regex metacharacters, non-ASCII/astral characters, NUL, signed and zero-padded numerals, text that looks like a \\u{..} "
        "escape; integer literals -20..10^10 incl. zero divisors; str.to.int arguments are numerals [+-]?[0-9]+ by construction. "
        "Three observation points per case: is_valid(ground term); SMTFormula(term, vars).substitute_expressions({var: closed tree}); "
        "evaluate(concrete-syntax text, tree, grammar) with one tree node per variable; half of the cases add a HISTORY: "
        "the same formula objects are judged on a second instantiation whose trees share node ids with the first (as "
        "replace_path / repair / mutate produce them) and again on the first.  Oracle = Z3 itself on the ground term "
        "(simplify, else solver on the negation, 10 s), str.to.int read sign-aware.  non-trivial = term has an operator beyond "
        "=/literals and Z3 decided it; distinct by ground-term text.  labels op:<name> count terms exercising each operator")
ASSUMPTIONS = ["Z3 4.11.2 (simplify; solver on the negation with 10 s timeout) is the reference; undecided terms are inconclusive; "
               "terms with str.replace_re/str.replace_re_all are decided by simplify only (Z3 ignores its timeout on some of them)",
               "str.to.int on [+-]?[0-9]+ is read sign-aware (ISLa's documented deviation, CHANGELOG 1.14.0/1.14.1); other arguments are outside the domain",
               "the power operator ^ (Real-sorted in Z3) and re.^ are outside the domain (string/integer/regex operators only); "
               "str.< has no spelling in ISLa's concrete syntax and is judged at the two API observation points only",
               "exceptions/UNKNOWN that stem from Z3 answering unknown inside ISLa's 500 ms fallback are inconclusive, not violations",
               "exceptions raised while *parsing* the concrete-syntax text (not while judging the atom) are counted under r3_parse_raises, they belong to C07/C08/C09"]

STYLES = [{"quote": "u"}, {"quote": "bs"}, {"call": True, "quote": "u"}, {"spine": True, "quote": "u"},
          {"call": True, "spine": True, "infix": True, "quote": "bs"}, {"infix": True, "quote": "u"}]


# ---------------------------------------------------------------------------------------------

def selftest():
    import z3
    # literal printer: exact characters arrive in Z3
    for s in T.STRS + ['a"b\\c', "\\u{41}\\x41"]:
        e = T.z3_parse_term(T.lit_smt(s), S)
        assert z3.is_false(z3.simplify(z3.Distinct(e, T.mk_str(s)))), s  # no "==": isla.language patches ExprRef.__eq__
        assert z3.simplify(z3.Length(e)).as_long() == len(s), s
        for i, ch in enumerate(s):
            assert z3.simplify(z3.StrToCode(z3.SubString(e, i, 1))).as_long() == ord(ch), (s, i)
    # sign-aware str.to.int
    for s, n in [("0", 0), ("007", 7), ("-5", -5), ("+3", 3), ("-0", 0), ("+007", 7), ("12", 12)]:
        assert T.oracle_verdict(["=", ["str.to.int", ["S", s]], ["I", n]], {}) is True, s
        assert T.oracle_verdict(["=", ["str.to.int", ["S", s]], ["I", n + 1]], {}) is False, s
        assert T.in_domain(["=", ["str.to.int", ["S", s]], ["I", n]], {})
    assert not T.in_domain(["=", ["str.to.int", ["S", "1.5"]], ["I", 1]], {})
    assert not T.in_domain(["=", ["str.to.int", ["S", ""]], ["I", 1]], {})
    # Z3 facts the property text relies on: euclidean div/mod, uninterpreted division by zero, total str.at/substr
    facts = [(["=", ["mod", ["I", -7], ["I", 2]], ["I", 1]], True), (["=", ["mod", ["I", 7], ["I", -2]], ["I", 1]], True),
             (["=", ["div", ["I", -7], ["I", 2]], ["I", -4]], True), (["=", ["div", ["I", 7], ["I", -2]], ["I", -3]], True),
             (["=", ["mod", ["I", 7], ["I", 0]], ["I", 0]], False), (["=", ["mod", ["I", 7], ["I", 0]], ["mod", ["I", 7], ["I", 0]]], True),
             (["=", ["str.at", ["S", "abc"], ["I", 5]], ["S", ""]], True), (["=", ["str.at", ["S", "abc"], ["I", -1]], ["S", ""]], True),
             (["=", ["str.substr", ["S", "abc"], ["I", -1], ["I", 2]], ["S", ""]], True),
             (["=", ["str.substr", ["S", "abc"], ["I", 1], ["I", 9]], ["S", "bc"]], True),
             (["str.in_re", ["S", "a\n"], ["str.to_re", ["S", "a"]]], False), (["str.in_re", ["S", "a\nb"], ["re.all"]], True),
             (["str.in_re", ["S", "abab"], ["re.loop", ["str.to_re", ["S", "ab"]], 2, 2, "idx"]], True),
             (["str.in_re", ["S", "abab"], ["re.loop", ["str.to_re", ["S", "ab"]], 2, 2, "args"]], True),
             (["str.in_re", ["S", ""], ["re.comp", ["re.range", ["S", "a"], ["S", "c"]]]], True),
             (["=", ["str.len", ["V", "v0"]], ["I", 1]], True)]
    for t, exp in facts:
        assert T.oracle_verdict(t, {"v0": "\U0001F600"}) is exp, t
    # printers agree with each other where both apply: ISLa text with \" turned into "" is SMT-LIB text
    t = ["=", ["str.++", ["V", "v0"], ["S", 'q"\\\n']], ["S", "x"]]
    assert T.to_isla_sexpr(t, {"quote": "bs"}) == '(= (str.++ v0 "q\\"\\u{5c}\\u{a}") "x")'
    assert T.to_smt(t) == '(= (str.++ v0 "q""\\u{5c}\\u{a}") "x")'
    assert T.to_isla_formula(["and", ["not", ["B", True]], ["=", ["I", 1], ["I", 1]]], {}) == "((not (true)) and ((= 1 1)))"
    assert T.to_isla_formula(["=", ["not", ["B", True]], ["B", False]], {}) is None


def generate(rnd, tier):
    # Hypothesis' example generation favours small draws and repeats itself (417 distinct terms in 1000 examples when
    # every choice is drawn from it directly), so three cases in four expand a 48-bit draw with a local generator;
    # the remaining quarter -- and everything the shrinker produces, since the switch shrinks to "direct" -- is drawn
    # choice by choice from rnd.
    if rnd.random() > 0.25:
        import random as _random
        rnd = _random.Random(rnd.getrandbits(48))
    term, vals = T.gen_case_term(rnd)
    case = {"term": term, "vals": vals, "style": rnd.randint(0, len(STYLES) - 1), "rseed": rnd.randint(0, 10 ** 6)}
    # a second instantiation of the same atom for the history routes (same formula object, trees that share node ids
    # with the first ones, as ISLa's replace_path / repair / mutate produce them); numerals stay numerals so that
    # str.to.int stays inside the domain
    vals2 = {}
    for n in sorted(vals):
        v = T.gen_value(rnd)
        if _re.fullmatch(r"[+-]?[0-9]+", vals[n]) and not _re.fullmatch(r"[+-]?[0-9]+", v):
            v = T._pick(rnd, T.NUMS)
        vals2[n] = v
    case["vals2"] = vals2
    return case


# ---------------------------------------------------------------------------------------------
# judging

def _key(text):
    import hashlib
    return hashlib.sha1(text.encode("utf-8", "surrogatepass")).hexdigest()[:16]


def _tv(r):
    return True if r.is_true() else False if r.is_false() else None


class _Diag:
    """Root-cause bucketing on Z3 expressions (the ones ISLa actually evaluates): minimal sub-expressions on which
    evaluate_z3_expression raises or disagrees with Z3.  mode 'ground': variables replaced by string values first
    (is_valid / substitution); mode 'closure': the fast path is run on the open expression and its closure is
    applied to the values (evaluate_smt_formula)."""

    NAMES = {"str.to_int": "str.to.int", "if": "ite", "String": "strlit", "Int": "intlit", "true": "boollit", "false": "boollit"}

    def __init__(self, vals, naive=False):
        import z3
        self.z3 = z3
        self.vals = vals
        # naive: instantiate the way ISLa does (z3.StringVal re-reads text that looks like an escape sequence)
        self.sub = [(z3.String(n), z3.StringVal(v) if naive else T.mk_str(v)) for n, v in sorted(vals.items())]

    # -- expression helpers
    def head(self, e):
        z3 = self.z3
        if z3.is_string_value(e):
            return "strlit"
        if z3.is_int_value(e):
            return "intlit"
        if z3.is_const(e) and e.decl().kind() == z3.Z3_OP_UNINTERPRETED:
            return "strlit"  # a variable: in ground mode it is a literal, in closure mode the identity
        n = e.decl().name()
        return self.NAMES.get(n, n)

    def ground(self, e):
        return self.z3.substitute(e, *self.sub) if self.sub else e

    def signaware(self, e):
        """the oracle's reading: str.to_int(t) sign-aware on [+-]?[0-9]+, expressed in Z3"""
        z3 = self.z3
        pairs = []

        def collect(x):
            if not z3.is_app(x):
                return
            if x.decl().kind() == z3.Z3_OP_STR_TO_INT:
                t = self.signaware(x.children()[0])
                rest = z3.StrToInt(z3.SubString(t, 1, z3.Length(t)))
                pairs.append((x, z3.If(z3.PrefixOf(z3.StringVal("-"), t), -rest,
                                       z3.If(z3.PrefixOf(z3.StringVal("+"), t), rest, z3.StrToInt(t)))))
                return
            for c in x.children():
                collect(c)

        collect(e)
        return z3.substitute(e, *pairs) if pairs else e

    def oracle(self, e):
        return self.signaware(self.ground(e))

    def is_loop3(self, e):
        return self.z3.is_app(e) and e.decl().kind() == self.z3.Z3_OP_RE_LOOP and e.num_args() == 3

    def contains_loop3(self, e):
        return self.is_loop3(e) or any(self.contains_loop3(c) for c in e.children())

    # -- fast path
    def fast(self, e, mode):
        """('raises', Type) | ('opaque', None) | ('val', python value)"""
        from isla.z3_helpers import evaluate_z3_expression
        from returns.result import Success
        try:
            res = evaluate_z3_expression(self.ground(e) if mode == "ground" else e)
            if not isinstance(res, Success):
                return ("opaque", None)
            params, v = res.unwrap()
            if params:
                if any(p not in self.vals for p in params):
                    return ("opaque", None)
                v = v(tuple(self.vals[p] for p in params))
            return ("val", v)
        except Exception as ex:
            return ("raises", type(ex).__name__)

    def value_agrees(self, e, v):
        """True/False, or None when Z3 does not reduce the sub-expression to a literal"""
        z3 = self.z3
        oe = self.oracle(e)
        o = z3.simplify(oe)
        if z3.is_string(e):
            if not z3.is_string_value(o):
                return None
            if not isinstance(v, str):
                return False
            return bool(z3.is_false(z3.simplify(z3.Distinct(oe, T.mk_str(v)))))
        if z3.is_int(e):
            if not z3.is_int_value(o):
                return None
            return type(v) is int and v == o.as_long()
        if z3.is_true(o):
            return v is True
        if z3.is_false(o):
            return v is False
        return None

    def regex_agrees(self, e, v, probes):
        """compare the language of the Python regex v with Z3's on the probe strings"""
        z3 = self.z3
        if not isinstance(v, str):
            return "wrong_value"
        try:
            rx = _re.compile(v)
        except Exception:
            return "bad_regex"
        oe = self.oracle(e)
        for p in probes:
            o = z3.simplify(z3.InRe(T.mk_str(p), oe))
            if z3.is_true(o):
                exp = True
            elif z3.is_false(o):
                exp = False
            else:
                continue
            try:
                got = rx.fullmatch(p) is not None
            except Exception:
                return "bad_regex"
            if got != exp:
                return "wrong_language"
        return None

    def run(self, expr, mode):
        """list of (sig, sub-expression text) for all minimal sub-expressions on which the fast path raises or disagrees.
        Non-regex sub-expressions are compared by value.  A regex is compared by membership of the substrings of the
        string it is actually matched against in this case (first argument of the enclosing str.in_re / str.replace_re*,
        when the fast path got that one right), so every reported disagreement concerns this input."""
        z3 = self.z3
        found = []
        subject_ops = (z3.Z3_OP_SEQ_IN_RE, z3.Z3_OP_SEQ_REPLACE_RE, z3.Z3_OP_SEQ_REPLACE_RE_ALL)

        def note(sig, e):
            try:
                txt = self.ground(e).sexpr()
            except Exception:
                txt = "?"
            found.append((sig, txt[:300]))

        def walk(e, probes):
            """(True when this sub-expression and everything below agrees, its fast-path value)"""
            if z3.is_quantifier(e) or not z3.is_app(e):
                return False, None
            h = self.head(e)
            args = e.children()
            ok = True
            v0 = None
            if e.decl().kind() in subject_ops and len(args) >= 2:
                ok0, v0 = walk(args[0], probes)
                sub = []
                if ok0 and isinstance(v0, str) and len(v0) <= 16:
                    sub = list(dict.fromkeys([v0, ""] + [v0[i:j] for i in range(len(v0)) for j in range(i + 1, len(v0) + 1)]))[:80]
                ok = ok0
                for a in args[1:]:
                    if not walk(a, sub if z3.is_re(a) else probes)[0]:
                        ok = False
            else:
                for a in args:
                    if not walk(a, probes)[0]:
                        ok = False
            if not ok:
                return False, None
            kind, v = self.fast(e, mode)
            if kind == "raises":
                if v == "Z3Exception" and self.contains_loop3(e):
                    # z3py cannot print (re.loop r lo hi); ISLa formats the term in its "not implemented" message
                    note("re.loop:three_argument_form_unprintable:raises:Z3Exception", e)
                else:
                    note("%s:raises:%s" % (h, v), e)
                return False, None
            if kind == "opaque":
                return False, None
            if z3.is_re(e):
                r = self.regex_agrees(e, v, probes)
                if r is not None:
                    if e.decl().kind() == z3.Z3_OP_RE_LOOP:
                        bounds = e.params() if e.num_args() == 1 else [c.as_long() for c in args[1:] if z3.is_int_value(c)]
                        if len(bounds) == 2 and bounds[1] < bounds[0]:
                            r += ":upper_below_lower"
                    note("%s:%s" % (h, r), e)
                    return False, None
                return True, v
            agrees = self.value_agrees(e, v)
            if agrees is False:
                extra = ":reglan_operands" if h in ("=", "distinct") and args and z3.is_re(args[0]) else ""
                if e.decl().kind() == z3.Z3_OP_SEQ_IN_RE and isinstance(v0, str) and v0.endswith("\n"):
                    extra = ":subject_ends_with_newline"
                note("%s:wrong_value%s" % (h, extra), e)
                return False, None
            return True, (v if agrees else None)

        walk(expr, [])
        out = []
        seen = set()
        for sig, t in found:
            if sig not in seen:
                seen.add(sig)
                out.append((sig, t))
        return out


_CACHE = {}


def judge(case):
    """Hypothesis repeats examples verbatim (about half of all examples); judge is pure, so repeat results are cached"""
    import json
    k = json.dumps(case, sort_keys=True)
    if k not in _CACHE:
        if len(_CACHE) > 20000:
            _CACHE.clear()
        _CACHE[k] = _judge_quiet(case)
    return _CACHE[k]


def _judge_quiet(case):
    # Z3 writes "(incomplete (theory seq))" etc. to the C-level stderr; keep the check's output readable
    import os
    saved = os.dup(2)
    null = os.open(os.devnull, os.O_WRONLY)
    try:
        os.dup2(null, 2)
        return _judge(case)
    finally:
        os.dup2(saved, 2)
        os.close(saved)
        os.close(null)


def _judge(case):
    import random as pyrandom
    import z3
    from isla import language
    from isla.derivation_tree import DerivationTree
    from isla.z3_helpers import is_valid
    from isla.evaluator import evaluate
    from isla.isla_predicates import STANDARD_STRUCTURAL_PREDICATES, STANDARD_SEMANTIC_PREDICATES
    term, vals = case["term"], dict(case["vals"])
    style = STYLES[case.get("style", 0) % len(STYLES)]
    names = sorted(vals)
    z3.set_param("parallel.enable", False)
    hs = T.heads(term)
    labels = ["op:" + h for h in sorted(hs)]
    labels.append("vars=%d" % len(names))
    if not T.in_domain(term, vals):
        return {"labels": ["out_of_domain"], "nontrivial": False, "violations": [], "inconclusive": "out_of_domain"}
    ground_text = T.to_smt(term, vals)
    try:
        exp = T.oracle_verdict(term, vals, ORACLE_TIMEOUT_MS)
    except z3.Z3Exception as e:
        return {"labels": ["oracle_error"], "nontrivial": False, "violations": [], "inconclusive": "oracle_error"}
    if exp is None:
        return {"labels": labels + ["z3_undecided"], "nontrivial": False, "violations": [], "inconclusive": "z3_undecided", "key": _key(ground_text)}
    labels.append("valid" if exp else "not_valid")
    z3.simplify(z3.BoolVal(True))
    simp = z3.simplify(T.z3_parse_bool(T.to_smt(term, vals, oracle=True)))
    labels.append("decided_by_simplify" if (z3.is_true(simp) or z3.is_false(simp)) else "decided_by_solver")
    if any(_re.search(r"\\u\{?[0-9a-fA-F]", v) for v in vals.values()):
        labels.append("escape_like_value")
    signed = any(s[0] == "str.to.int" for s in T.subterms(term))
    if signed:
        labels.append("has_str.to.int")

    hard_z3 = bool(hs & {"str.replace_re", "str.replace_re_all"})
    obs = {}
    pyrandom.seed(case.get("rseed", 0))

    # R1: is_valid on the ground term
    try:
        obs["is_valid"] = _tv(is_valid(T.z3_parse_bool(ground_text)))
    except Exception as ex:
        obs["is_valid"] = "raises:" + type(ex).__name__

    # R2: SMTFormula auto-evaluation on substitution
    try:
        e = T.z3_parse_bool(T.to_smt(term), names)
        vs = {n: language.Constant(n, "<%s>" % n) for n in names}
        f = language.SMTFormula(e, *[vs[n] for n in names])
        def leafs(v):
            # two terminal children for longer values: str(tree) concatenates them
            return [DerivationTree(v, [])] if len(v) < 2 else [DerivationTree(v[:1], []), DerivationTree(v[1:], [])]

        trees = {vs[n]: DerivationTree("<%s>" % n, leafs(vals[n])) for n in names}
        if len(names) >= 2 and case.get("rseed", 0) % 2:
            g = f  # one variable at a time: the formula stays open until the last step
            for n in names:
                g = g.substitute_expressions({vs[n]: trees[vs[n]]})
        else:
            g = f.substitute_expressions(trees)
        if isinstance(g, language.SMTFormula) and (g.is_true or g.is_false) and not g.free_variables():
            obs["substitute"] = bool(g.is_true)
        else:
            obs["substitute"] = "not_evaluated"
    except Exception as ex:
        obs["substitute"] = "raises:" + type(ex).__name__

    # R3: evaluate() through the concrete-syntax parser
    body = T.to_isla_formula(term, style)
    text = None
    if body is None:
        obs["evaluate"] = "skipped"
        labels.append("r3_inexpressible")
    else:
        grammar = {"<start>": ["".join("<%s>" % n for n in names) or "x"]}
        for n in names:
            grammar["<%s>" % n] = [vals[n]]
        if any(("<" in v and ">" in v) for v in vals.values()):
            obs["evaluate"] = "skipped"
            labels.append("r3_inexpressible")
        else:
            tree = DerivationTree("<start>", [DerivationTree("<%s>" % n, [DerivationTree(vals[n], [])]) for n in names]
                                  or [DerivationTree("x", [])])
            text = "".join("forall <%s> %s in start: " % (n, n) for n in names) + "(" + body + ")"
            try:
                formula = language.parse_isla(text, grammar, STANDARD_STRUCTURAL_PREDICATES, STANDARD_SEMANTIC_PREDICATES)
            except Exception as ex:
                formula = None
                obs["evaluate"] = "skipped"
                labels.append("r3_parse_raises:" + type(ex).__name__)
            if formula is not None:
                try:
                    obs["evaluate"] = _tv(evaluate(formula, tree, grammar))
                except Exception as ex:
                    obs["evaluate"] = "raises:" + type(ex).__name__

    # R4/R5: history -- the SAME formula objects judged again on a second instantiation whose trees share node ids
    # with the first ones (replace_path keeps the ids of all ancestors of the replaced node: repair, mutate and the
    # solver's own tree updates produce such trees), then once more on the first instantiation.  The oracle is Z3 on
    # the second ground term; a fresh-id evaluation only tells a history effect from a plain wrong verdict (which the
    # routes above report when that term is drawn).
    hist = []
    vals2 = case.get("vals2")
    if vals2 and names and sorted(vals2) == names and vals2 != vals and T.in_domain(term, vals2) \
            and not any(("<" in v and ">" in v) for v in vals2.values()):
        try:
            exp2 = T.oracle_verdict(term, vals2, ORACLE_TIMEOUT_MS)
        except z3.Z3Exception:
            exp2 = None
        if exp2 is not None:
            labels.append("history")

            def ev(fm, tr, gr):
                try:
                    return _tv(evaluate(fm, tr, gr))
                except Exception as ex:
                    return "raises:" + type(ex).__name__

            if isinstance(obs.get("evaluate"), bool):
                grammar2 = dict(grammar)
                for n in names:
                    grammar2["<%s>" % n] = [vals[n], vals2[n]] if vals[n] != vals2[n] else [vals[n]]
                tree2 = tree
                for i, n in enumerate(names):
                    tree2 = tree2.replace_path((i, 0), DerivationTree(vals2[n], []))
                got2 = ev(formula, tree2, grammar2)          # ids of <start> and of every <vN> node are those of `tree`
                got1 = ev(formula, tree, grammar2)           # and back
                fresh2 = ev(formula, DerivationTree("<start>", [DerivationTree("<%s>" % n, [DerivationTree(vals2[n], [])]) for n in names]), grammar2)
                labels.append("history:evaluate")
                if got2 is not None and got2 != exp2 and fresh2 == exp2:
                    hist.append(("history:verdict_depends_on_earlier_instantiation:evaluate", {"second": got2, "fresh": fresh2, "z3": exp2}))
                if got1 is not None and got1 != exp and obs["evaluate"] == exp:
                    hist.append(("history:verdict_changes_on_repetition:evaluate", {"first": obs["evaluate"], "again": got1, "z3": exp}))
            if isinstance(obs.get("substitute"), bool):
                try:
                    trees2 = {vs[n]: DerivationTree("<%s>" % n, leafs(vals2[n]), id=trees[vs[n]].id) for n in names}
                    g2 = f.substitute_expressions(trees2)
                    got2 = bool(g2.is_true) if isinstance(g2, language.SMTFormula) and (g2.is_true or g2.is_false) and not g2.free_variables() else None
                    fr = f.substitute_expressions({vs[n]: DerivationTree("<%s>" % n, leafs(vals2[n])) for n in names})
                    fresh2 = bool(fr.is_true) if isinstance(fr, language.SMTFormula) and (fr.is_true or fr.is_false) and not fr.free_variables() else None
                except Exception as ex:
                    got2 = fresh2 = None
                labels.append("history:substitute")
                if got2 is not None and got2 != exp2 and fresh2 == exp2:
                    hist.append(("history:verdict_depends_on_earlier_instantiation:substitute", {"second": got2, "fresh": fresh2, "z3": exp2}))

    # compare
    viol = {}
    for sig, d in hist:
        viol[sig] = {"sig": sig, "detail": d, "ground": ground_text[:400], "second_ground": T.to_smt(term, vals2)[:400], "isla_text": text}
    inconcl = None
    bad_routes = []
    for route, got in obs.items():
        if got in ("skipped",):
            continue
        if got is None:
            labels.append("isla_unknown:" + route)
            continue
        if got == "raises:AssertionError" and route == "substitute" and obs.get("is_valid") is None:
            labels.append("isla_unknown:" + route)
            continue
        if got == "raises:AssertionError" and route == "evaluate" and _some_atom_undecided_in_isla(formula, vals, names):
            # ISLa splits the constraint at its propositional level; one of the atoms (closed by the instantiation) is
            # answered 'unknown' by Z3's solver even with 20 s, and ThreeValuedTruth.to_bool asserts on it
            labels.append("isla_unknown:" + route)
            continue
        if got != exp:
            bad_routes.append(route)
    if bad_routes:
        labels.append("mismatch")
        diag = _Diag(vals)
        sigs = []
        rest = list(bad_routes)
        # open finding 'str.to.int on a signed numeral is read sign-aware by the fast path and as -1 by Z3': the
        # verdicts under every assignment of the two readings to the str.to.int applications on signed arguments
        # (the all-sign-aware one is the expectation).  A route whose answer is one of them is attributed to it.
        occ = T.signed_occurrences(term, vals) if signed else []
        if occ and len(occ) <= 5:
            import itertools
            mixed = set()
            for r in range(1, len(occ) + 1):
                for sub in itertools.combinations(occ, r):
                    try:
                        mixed.add(T.decide(T.z3_parse_bool(T.to_smt(term, vals, oracle=True, plain_at=set(sub))), ORACLE_TIMEOUT_MS, solver=not hard_z3))
                    except Exception:
                        pass
            for route in list(rest):
                if isinstance(obs[route], bool) and obs[route] != exp and obs[route] in mixed:
                    sigs.append(("str.to.int:signed_numeral_read_by_plain_z3_in_fallback", None, route))
                    rest.remove(route)
        if "escape_like_value" in labels:
            # ISLa instantiates with z3.StringVal(str(tree)), and Z3 re-reads text that looks like an escape sequence:
            # what Z3 says about the term instantiated that way
            naive = None
            try:
                sub = [(z3.String(n), z3.StringVal(vals[n])) for n in names]
                naive = T.decide(z3.substitute(T.z3_parse_bool(T.to_smt(term, None, oracle=True), names), *sub), ORACLE_TIMEOUT_MS, solver=not hard_z3)
            except Exception:
                pass
            for route in ("substitute", "evaluate"):
                if route in rest and naive is not None and naive != exp and obs[route] == naive:
                    sigs.append(("substitution:escape_like_text_reinterpreted", None, route))
                    rest.remove(route)
        found_any = False
        opaque = {}
        if "is_valid" in rest or "substitute" in rest:
            e_open = T.z3_parse_bool(T.to_smt(term), names)
            for sig, sub in diag.run(e_open, "ground"):
                found_any = True
                if sig not in [s for s, _, _ in sigs]:
                    sigs.append((sig, sub, "ground"))
            opaque["is_valid"] = opaque["substitute"] = diag.fast(e_open, "ground")[0] == "opaque"
        if "evaluate" in rest:
            # the atoms ISLa actually evaluates (its parser and its negation rewrite them through z3.simplify)
            atoms = [a.formula for a in language.FilterVisitor(lambda x: isinstance(x, language.SMTFormula)).collect(formula)]
            for atom in atoms:
                for sig, sub in diag.run(atom, "closure"):
                    found_any = True
                    if sig not in [s for s, _, _ in sigs]:
                        sigs.append((sig, sub, "closure"))
            opaque["evaluate"] = any(diag.fast(atom, "closure")[0] == "opaque" for atom in atoms)
        if rest and not found_any and "escape_like_value" in labels:
            # an exception that only arises on the re-read value (e.g. str.at on a string that became shorter)
            ndiag = _Diag(vals, naive=True)
            for route in ("substitute", "evaluate"):
                if route in rest and isinstance(obs[route], str) and obs[route].startswith("raises:"):
                    exprs = [T.z3_parse_bool(T.to_smt(term), names)] if route == "substitute" else atoms
                    if any(sig.endswith(obs[route]) for x in exprs for sig, _ in ndiag.run(x, "ground")):
                        sigs.append(("substitution:escape_like_text_reinterpreted", None, route))
                        rest.remove(route)
        if rest and not found_any:
            # no sub-expression of the fast path disagrees: the disagreement comes from the Z3 fallback
            plain = None
            try:
                plain = T.decide(T.z3_parse_bool(ground_text), ORACLE_TIMEOUT_MS, solver=not hard_z3)
            except Exception:
                pass
            for route in rest:
                got = obs[route]
                if signed and plain is not None and plain != exp and got == plain:
                    sig = "str.to.int:signed_numeral_read_by_plain_z3_in_fallback"
                elif opaque.get(route):
                    # the fast path declined (NotImplemented): the verdict was produced by ISLa's Z3 fallback
                    sig = "z3_fallback:wrong_verdict"
                else:
                    sig = "%s:wrong_verdict:%s" % (T.head_name(term), route)
                if sig not in [s for s, _, _ in sigs]:
                    sigs.append((sig, None, route))
        for sig, sub, mode in sigs:
            if sig not in viol:
                viol[sig] = {"sig": sig, "subterm": sub, "where": mode,
                             "routes": bad_routes, "expected": exp, "observed": {k: obs[k] for k in bad_routes},
                             "ground": ground_text[:400], "isla_text": text}
    nontrivial = bool(hs - {"=", "lit:str", "lit:int", "lit:bool", "var"})
    return {"labels": labels, "nontrivial": nontrivial, "violations": list(viol.values()), "inconclusive": inconcl,
            "key": _key(ground_text), "sample": {"ground": ground_text[:300], "isla_text": text, "vals": vals, "z3": exp, "observed": obs}}


def _some_atom_undecided_in_isla(formula, vals, names):
    import z3
    from isla import language
    from isla.z3_helpers import is_valid
    try:
        atoms = [a.formula for a in language.FilterVisitor(lambda x: isinstance(x, language.SMTFormula)).collect(formula)]
        sub = [(z3.String(n), T.mk_str(vals[n])) for n in names]
        for a in atoms:
            g = z3.substitute(a, *sub) if sub else a
            if _tv(is_valid(g, timeout=20000)) is None:
                return True
    except Exception:
        return False
    return False


def health(stats, tier):
    c = stats["classes"]
    n = max(1, stats["evaluations"])
    if n >= 2000:
        missing = [op for op in T.ALL_OPS if c.get("op:" + op, 0) == 0]
        if missing:
            return "operators never exercised: %s" % missing
    dec = c.get("valid", 0) + c.get("not_valid", 0)
    if dec < 0.7 * n:
        return "Z3 decided only %d of %d terms" % (dec, n)
    if min(c.get("valid", 0), c.get("not_valid", 0)) < 0.15 * dec:
        return "verdict split degenerate: valid=%d not_valid=%d" % (c.get("valid", 0), c.get("not_valid", 0))
    if c.get("r3_inexpressible", 0) + sum(v for k, v in c.items() if k.startswith("r3_parse_raises")) > 0.35 * n:
        return "concrete-syntax route reached too rarely: %s" % {k: v for k, v in c.items() if k.startswith("r3_")}
    return None
