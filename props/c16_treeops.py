"""C16 -- derivation-tree operations keep paths, strings, openness and identity consistent.

History check: the case is a JSON list of operations.  `judge` interprets it step by step against
the real `isla.derivation_tree.DerivationTree` and against a pure nested-list model
(vlib/c16_model.py) and compares every observation with the model.

Two check modes are drawn per case, because the full invariant check itself fills every cache
(`is_open` flag, hashes, the lru caches of paths/trie/to_string/get_subtree):
  * "every": after every step all pool trees are observed completely (DESIGN wording);
  * "lazy":  after every step only a cache-free structural walk (`.value/.children/.id`) of every pool
             tree is compared with the model; cached observers run only where the history says so
             (`touch`, `check`), when a tree leaves the pool, and for every tree at the end.
"""
from collections import Counter

from vlib import c16_model as M
from vlib.rt import is_nt
from vlib.gen import pick

ID = "C16"
CASES = {"quick": 640, "thorough": 12000}
SOFT = 120
HARD = 360
RULE = ("case = history of <= 30 (thorough <= 50) operations over a pool of <= 6 trees: build (constructor with explicit ids / "
        "from_parse_tree; nested lists with 1-4, 29-60, 254-330 or 507-520 children at some node), replace_path (retain_id "
        "true/false; replacement new, shared pool subtree, new_ids copy, or the subtree itself), substitute (1-3 entries, nested "
        "targets, same-id expansions, foreign keys), expansion of an open leaf (by hand as expand_one_step does, and "
        "expand_one_step itself), new_ids, to_parse_tree/from_parse_tree, taking a subtree object (walk/get_subtree/trie/paths), "
        "cache touches on any node (is_open, str, len, hash, structural_hash, paths, trie, to_string, depth, leaves, ...) "
        "interleaved; every result and every pool tree is compared with a nested-list model: strings, openness, len, paths, "
        "get_subtree/is_valid_path/find_node/filter/leaves/open_leaves, trie keys/items/values/getitem/get_subtrie, traversals, "
        "next_path, ==/hash, structurally_equal/structural_hash, replace changes exactly the subtree at the path, inputs unchanged; "
        "non-trivial = a cached observer ran before and after an executed mutating operation; distinct by operation sequence")
ASSUMPTIONS = ["trees are well-formed derivation trees: inner nodes and open leaves carry nonterminal labels",
               "substitute is judged only under its asserted precondition (unique ids), with replacement trees whose ids do not "
               "occur in the host tree (except the root id of a same-id expansion); nested targets: outermost replacement wins",
               "find_node(id) is judged strictly only for ids that occur once in the tree",
               "node ids assigned by ISLa (new_ids, from_parse_tree, expand_one_step) are read back from the objects; only their "
               "freshness and pairwise distinctness are judged"]

POOL_CAP = 6
MAX_NODES = 900
MAX_DEPTH = 40
ID_BASE = 10 ** 9

NT = ["<a>", "<b>", "<c>", "<start>", "<n-1>"]
TM = ["x", "y", "zz", "", " ", "0", "<", "a b", "\n", "ü", ">"]
LIGHT = ["is_open", "str", "len", "hash", "shash", "paths", "trie", "to_string", "to_string_ids", "depth", "leaves",
         "open_leaves", "is_complete", "to_parse_tree", "traverse"]
BOUNDARY = (0, 1, 27, 28, 29, 251, 252, 253, 254, 255, 505, 506, 507)


# ================================================================ generator
# Only integer draws, and (almost) every drawn value shows up in the case: Hypothesis' generation
# phase re-runs mutated copies of earlier draw sequences, and draws that are merely compared with a
# threshold (rnd.random() < p) turn most of those copies into duplicates of the same history.

LEAVES = [[t, []] for t in TM] + [[n, None] for n in NT] + [[n, None] for n in NT[:3]] + [[n, []] for n in NT[:4]]
SELKINDS = ["i", "e", "w", "r", "o", "n", "i", "w", "i"]
SYMS = NT + ["x", "y", "zz", " ", "0"]


def g_leaf(rnd):
    return list(pick(rnd, LEAVES))


def g_tree(rnd, depth, maxk=4):
    k = rnd.randint(0, maxk) if depth > 0 else 0
    if k == 0:
        return g_leaf(rnd)
    return [pick(rnd, NT), [g_tree(rnd, depth - 1, maxk) for _ in range(k)]]


def g_wide(rnd, profile):
    """one very wide node in compact form"""
    if profile == 2:
        n = rnd.randint(254, 345)
        if n > 330:
            n += 507 - 331
    else:
        n = rnd.randint(29, 60)
    pat = [g_leaf(rnd) for _ in range(rnd.randint(1, 4))]
    cand = [n - 1, n - 2, n - 3] + [i for i in reversed(BOUNDARY) if i < n - 3]
    sp = []
    for _ in range(rnd.randint(0, 5)):
        sp.append([pick(rnd, cand), g_tree(rnd, 2, 3)])
    return [pick(rnd, NT), {"n": n, "pat": pat, "sp": sp}]


def g_build_tree(rnd, profile):
    if profile == 0:
        return g_tree(rnd, rnd.randint(1, 4))
    w = g_wide(rnd, profile)
    r = rnd.randint(0, 2)
    if r == 0:
        return w
    if r == 1:
        return [pick(rnd, NT), [g_tree(rnd, 2), w]]
    return [pick(rnd, NT), [g_tree(rnd, 1), [pick(rnd, NT), [w, g_leaf(rnd)]], g_tree(rnd, 2)]]


def g_sel(rnd):
    return [pick(rnd, SELKINDS), rnd.randint(0, 400)]


def g_src(rnd, profile, in_subst=False):
    r = rnd.randint(0, 9)
    if in_subst:
        if r < 5:
            return ["new", g_tree(rnd, r % 3)]
        if r < 8:
            return ["selfid", [g_leaf(rnd) for _ in range(r - 5)]]
        if r == 8:
            return ["foreign", g_tree(rnd, 1)]
        return ["self"]
    if r < 5:
        return ["new", g_tree(rnd, r % 3)]
    if r == 5:
        return ["new", g_wide(rnd, 1) if profile > 0 else g_tree(rnd, 3)]
    if r == 6:
        return ["pool", rnd.randint(0, 5), g_sel(rnd)]
    if r == 7:
        return ["copy", rnd.randint(0, 5), g_sel(rnd)]
    return ["self", r]


def g_grammar(rnd):
    g = {}
    for nt in NT:
        g[nt] = [[pick(rnd, SYMS) for _ in range(rnd.randint(0, 3))] for _ in range(rnd.randint(1, 2))]
    return g


OPS = (["touch"] * 7 + ["replace"] * 6 + ["subst"] * 3 + ["expand"] * 2 + ["expand1", "new_ids", "roundtrip", "sub", "build",
                                                                                "build", "check"])


def g_op(rnd, profile):
    r = rnd.randint(0, len(OPS) - 1)
    name = OPS[r]
    slot = rnd.randint(0, 5)
    if name == "touch":
        return ["touch", slot, g_sel(rnd), [pick(rnd, LIGHT) for _ in range(1 + r % 4)]]
    if name == "check":
        return ["check", slot]
    dst = rnd.randint(0, 5)
    if name == "replace":
        return ["replace", slot, g_sel(rnd), g_src(rnd, profile), r % 2 == 1, dst]
    if name == "subst":
        return ["subst", slot, [[g_sel(rnd), g_src(rnd, profile, True)] for _ in range(r % 3 + 1)], dst]
    if name == "expand":
        return ["expand", slot, ["o", rnd.randint(0, 400)], [pick(rnd, SYMS) for _ in range(rnd.randint(0, 4))], dst]
    if name == "expand1":
        return ["expand1", slot, g_grammar(rnd), rnd.randint(0, 20), dst]
    if name == "new_ids":
        return ["new_ids", slot, g_sel(rnd), dst]
    if name == "roundtrip":
        return ["roundtrip", slot, g_sel(rnd), dst]
    if name == "sub":
        return ["sub", slot, g_sel(rnd), pick(rnd, ["walk", "get_subtree", "trie", "paths"]), dst]
    return ["build", g_build_tree(rnd, profile if r % 2 else 0), pick(rnd, ["ctor", "pt"]), dst]


def generate(rnd, tier):
    maxsteps = 30 if tier == "quick" else 50
    r = rnd.randint(0, 19)
    profile = 0 if r < 5 else (1 if r < 15 else 2)
    mode = "lazy" if r % 5 < 3 else "every"
    ops = [["build", g_build_tree(rnd, profile), pick(rnd, ["ctor", "pt"]), 0]]
    for _ in range(rnd.randint(4, maxsteps)):
        ops.append(g_op(rnd, profile))
    return {"mode": mode, "ops": ops}


# ================================================================ judge

def _brief(x, n=300):
    s = repr(x)
    return s if len(s) <= n else s[:n] + "...(%d chars)" % len(s)


def _tup(x):
    """JSON turns tuples into lists"""
    return tuple(x)


def _walk(t, p):
    for i in p:
        t = t.children[i]
    return t


def dt_diff(t, m):
    """cache-free comparison (reads only .value/.children/.id); first differing path or None.
    A model id of None means 'assigned by ISLa, unknown'."""
    stack = [((), t, m)]
    while stack:
        p, x, y = stack.pop()
        ch = x.children
        if (x.value != y[0] or (y[2] is not None and x.id != y[2]) or (ch is None) != (y[1] is None)
                or len(ch or ()) != len(y[1] or ())):
            return p
        if ch:
            for k in range(len(ch) - 1, -1, -1):
                stack.append((p + (k,), ch[k], y[1][k]))
    return None


def adopt(t, m):
    """model with the ids of the real object (shape must already agree)"""
    ch = t.children
    return [m[0], None if m[1] is None else [adopt(ch[k], c) for k, c in enumerate(m[1])], t.id]


def strip(m):
    return [m[0], None if m[1] is None else [strip(c) for c in m[1]], None]


def norm_pt(pt):
    try:
        a, b = pt
    except Exception:
        return ("?", repr(pt)[:50])
    return (a, None if b is None else tuple(norm_pt(c) for c in b))


class _Skip(Exception):
    pass


class _Ctx:
    def __init__(self, case, DT):
        self.DT = DT
        self.mode = case.get("mode", "every")
        self.pool = []
        self.viol = {}
        self.labels = set()
        self.counters = Counter()
        self.next_id = ID_BASE
        self.seen_ids = set()
        self.hash_by_ikey = {}
        self.shash_by_skey = {}
        self.step_no = -1
        self.opname = "init"
        self.nt_state = 0  # 0 nothing, 1 touch seen, 2 touch then mutation, 3 touch-mutation-touch
        self.max_nodes = 0
        self.max_depth = 0
        self.max_idx = -1
        self.executed = 0

    # ---------------------------------------------------------- bookkeeping
    def bad(self, sig, **kw):
        if sig not in self.viol:
            d = {"sig": sig, "step": self.step_no, "op": self.opname}
            d.update({k: (v if isinstance(v, (int, str, bool, type(None))) else _brief(v)) for k, v in kw.items()})
            self.viol[sig] = d

    def touched(self):
        if self.nt_state in (0, 2):
            self.nt_state += 1

    def mutated(self):
        if self.nt_state == 1:
            self.nt_state = 2

    def call(self, name, fn, **kw):
        try:
            return True, fn()
        except Exception as e:
            self.bad("%s:raises:%s" % (name, type(e).__name__), error=str(e)[:200], **kw)
            return False, None

    def cmp(self, name, fn, expected, **kw):
        self.counters["observations"] += 1
        try:
            got = fn()
        except Exception as e:
            self.bad("%s:raises:%s" % (name, type(e).__name__), error=str(e)[:200], **kw)
            return False
        if got != expected:
            self.bad("%s:wrong" % name, expected=expected, observed=got, **kw)
            return False
        return True

    def entry(self, t, m):
        return {"t": t, "m": m, "exp": None}

    def exp(self, e):
        if e["exp"] is None:
            e["exp"] = M.nodes(e["m"])
        return e["exp"]

    def register(self, m):
        ex = M.nodes(m)
        self.seen_ids.update(n[2] for _, n, _ in ex)
        self.max_nodes = max(self.max_nodes, len(ex))
        self.max_depth = max(self.max_depth, max(len(p) for p, _, _ in ex) + 1)
        self.max_idx = max(self.max_idx, max((p[-1] for p, _, _ in ex if p), default=-1))
        return ex

    def add(self, t, m, dst):
        e = self.entry(t, m)
        e["exp"] = self.register(m)
        if len(self.pool) < POOL_CAP:
            self.pool.append(e)
            return len(self.pool) - 1
        k = int(dst) % POOL_CAP
        if self.mode == "lazy":
            self.full(self.pool[k])
        self.pool[k] = e
        return k

    def idx(self, e):
        for k, x in enumerate(self.pool):
            if x is e:
                return k
        return -1

    def slot(self, k):
        if not self.pool:
            raise _Skip("empty_pool")
        return self.pool[int(k) % len(self.pool)]

    def fresh_model(self, plain):
        m, self.next_id = M.with_ids(plain, self.next_id)
        return m

    def build_dt(self, m):
        DT = self.DT
        return DT(m[0], None if m[1] is None else [self.build_dt(c) for c in m[1]], id=m[2])

    def wc(self, m_or_idx):
        i = m_or_idx if isinstance(m_or_idx, int) else M.max_index(m_or_idx)
        return "idx<=27" if i <= 27 else ("idx28-252" if i <= 252 else "idx>=253")

    def resolve(self, sel, e):
        ex = self.exp(e)
        kind, k = sel[0], int(sel[1])
        n = len(ex)
        if kind == "r":
            return 0
        if kind == "e":
            return n - 1 - (k % min(n, 8))
        if kind == "o":
            opens = [i for i in range(n) if ex[i][1][1] is None]
            if opens:
                return opens[k % len(opens)]
        if kind == "n":
            inner = [i for i in range(n) if ex[i][1][1]]
            if inner:
                return inner[k % len(inner)]
        if kind == "w":
            best = None
            for i in range(n):
                c = ex[i][1][1]
                if c and (best is None or len(c) > len(ex[best][1][1])):
                    best = i
            if best is not None:
                c = len(ex[best][1][1])
                j = c - 1 - (k % min(c, 6))
                want = ex[best][0] + (j,)
                for i in range(best + 1, n):
                    if ex[i][0] == want:
                        return i
        return k % n

    def check_fresh(self, name, m_expected, m_adopted):
        """ids that ISLa assigned (model id None) must be new and pairwise distinct"""
        new = []
        stack = [(m_expected, m_adopted)]
        while stack:
            a, b = stack.pop()
            if a[2] is None:
                new.append(b[2])
            if a[1]:
                stack.extend(zip(a[1], b[1]))
        if len(set(new)) != len(new):
            self.bad("%s:ids_not_distinct" % name)
        elif any(i in self.seen_ids for i in new):
            self.bad("%s:ids_not_fresh" % name)

    # ---------------------------------------------------------- observers
    def light(self, e, names=None):
        t, m = e["t"], e["m"]
        ex = self.exp(e)
        for name in (names or LIGHT):
            self.touched()
            if name == "to_string":
                self.cmp("to_string", lambda: t.to_string(), M.mstr(m))
            elif name == "str":
                self.cmp("str", lambda: str(t), M.mstr(m, True))
                self.cmp("to_string_open", lambda: t.to_string(show_open_leaves=True), M.mstr(m, True))
            elif name == "to_string_ids":
                self.cmp("to_string_ids", lambda: t.to_string(True, True), M.mstr(m, True, True))
            elif name == "is_open":
                self.cmp("is_open", lambda: bool(t.is_open()), M.mopen(m))
            elif name == "is_complete":
                self.cmp("is_complete", lambda: bool(t.is_complete()), not M.mopen(m))
            elif name == "len":
                self.cmp("len", lambda: len(t), len(ex))
            elif name == "depth":
                self.cmp("depth", lambda: t.depth(), M.depth(m))
            elif name == "paths":
                self.cmp("paths", lambda: [(p, n.value, n.id, None if n.children is None else len(n.children))
                                           for p, n in t.paths()],
                         [(p, n[0], n[2], None if n[1] is None else len(n[1])) for p, n, _ in ex])
            elif name == "leaves":
                self.cmp("leaves", lambda: [(p, n.id) for p, n in t.leaves()], [(p, n[2]) for p, n, _ in ex if not n[1]])
            elif name == "open_leaves":
                self.cmp("open_leaves", lambda: [(p, n.id) for p, n in t.open_leaves()],
                         [(p, n[2]) for p, n, _ in ex if n[1] is None])
            elif name == "hash":
                ok, h = self.call("hash", lambda: hash(t))
                if ok:
                    self.counters["observations"] += 1
                    if self.hash_by_ikey.setdefault(M.ikey(m), h) != h:
                        self.bad("hash:differs_for_equal_trees")
            elif name == "shash":
                ok, h = self.call("structural_hash", lambda: t.structural_hash())
                if ok:
                    self.counters["observations"] += 1
                    if self.shash_by_skey.setdefault(M.skey(m), h) != h:
                        self.bad("structural_hash:differs_for_structurally_equal_trees")
            elif name == "to_parse_tree":
                self.cmp("to_parse_tree", lambda: norm_pt(t.to_parse_tree()), M.parse_tree(m))
            elif name == "trie":
                w = self.wc(m)
                ok, tr = self.call("trie", lambda: t.trie(), width=w)
                if ok:
                    want = [p for p, _, _ in ex]
                    self.cmp("trie:keys:" + w, lambda: list(tr.keys()), want)
                    self.cmp("trie:items:" + w, lambda: [(k, v[0], v[1].value, v[1].id) for k, v in tr.items()],
                             [(p, p, n[0], n[2]) for p, n, _ in ex])
                    self.cmp("trie:values:" + w, lambda: [(v[0], v[1].id) for v in tr.values()],
                             [(p, n[2]) for p, n, _ in ex])
            elif name == "traverse":
                DT = self.DT

                def trav(kind, rev):
                    out = []
                    t.traverse(lambda p, n: out.append((p, n.id)), kind=kind, reverse=rev)
                    return out

                self.cmp("traverse:pre", lambda: trav(DT.TRAVERSE_PREORDER, False), [(p, n[2]) for p, n in M.preorder(m)])
                self.cmp("traverse:pre_rev", lambda: trav(DT.TRAVERSE_PREORDER, True),
                         [(p, n[2]) for p, n in M.preorder(m, True)])
                self.cmp("traverse:post", lambda: trav(DT.TRAVERSE_POSTORDER, False), [(p, n[2]) for p, n in M.postorder(m)])
                self.cmp("traverse:post_rev", lambda: trav(DT.TRAVERSE_POSTORDER, True),
                         [(p, n[2]) for p, n in M.postorder(m, True)])

                def bfs():
                    out = []
                    t.bfs(lambda p, n: out.append((p, n.id)))
                    return out

                self.cmp("bfs", bfs, [(p, n[2]) for p, n in M.bfs(m)])

    def sample(self, ex, limit=90):
        n = len(ex)
        if n <= limit:
            return list(range(n))
        idx = set(range(10)) | set(range(n - 10, n)) | set(range(0, n, max(1, n // 25)))
        extra = [i for i, (p, _, _) in enumerate(ex) if p and (p[-1] in BOUNDARY or any(x >= 253 for x in p))]
        idx.update(extra[:80])
        idx.update(extra[-40:])
        return sorted(idx)

    def heavy(self, e):
        t, m = e["t"], e["m"]
        ex = self.exp(e)
        n = len(ex)
        w = self.wc(m)
        paths = [p for p, _, _ in ex]
        index_of = {p: i for i, p in enumerate(paths)}
        sizes = [s for _, _, s in ex]
        first_of = {}
        cnt = Counter()
        for p, nd, _ in ex:
            first_of.setdefault(nd[2], p)
            cnt[nd[2]] += 1
        if len(cnt) != n:
            self.labels.add("dup_ids")
        self.touched()
        ok, tr = self.call("trie", lambda: t.trie(), width=w)
        sam = self.sample(ex)
        subtries = 0
        for i in sam:
            p, nd, sz = ex[i]
            self.counters["path_checks"] += 1
            if any(x >= 253 for x in p):
                self.labels.add("escape_path_checked")
            kids = None if nd[1] is None else len(nd[1])

            def gs():
                s = t.get_subtree(p)
                return None if s is None else (s.value, s.id, None if s.children is None else len(s.children))

            self.cmp("get_subtree", gs, (nd[0], nd[2], kids), path=p)
            self.cmp("is_valid_path:valid", lambda: bool(t.is_valid_path(p)), True, path=p)
            q = p + ((kids or 0),)
            self.cmp("is_valid_path:invalid", lambda: bool(t.is_valid_path(q)), False, path=q)
            if not kids:
                q2 = p + (0, 0)
                self.cmp("is_valid_path:invalid", lambda: bool(t.is_valid_path(q2)), False, path=q2)
            if cnt[nd[2]] == 1:
                self.cmp("find_node:id", lambda: t.find_node(nd[2]), p, path=p)
                if i % 3 == 0:
                    self.cmp("find_node:node", lambda: t.find_node(_walk(t, p)), p, path=p)
                    self.cmp("filter:id_unique", lambda: [(a, b.id) for a, b in t.filter(lambda x: x.id == nd[2], enforce_unique=True)],
                             [(p, nd[2])], path=p)
            else:
                def fn_dup():
                    r = t.find_node(nd[2])
                    return None if r is None else _walk(t, r).id

                self.cmp("find_node:dup_id", fn_dup, nd[2], path=p)
            if ok:
                def gi():
                    v = tr[p]
                    return (v[0], v[1].value, v[1].id)

                self.cmp("trie:getitem:" + w, gi, (p, nd[0], nd[2]), path=p)
                if subtries < 30 and (kids or i % 4 == 0 or any(x >= 253 for x in p)):
                    subtries += 1
                    rel = [(q[len(p):], x[2]) for q, x, _ in ex[i:i + sz]]

                    def si():
                        st = tr.get_subtrie(p)
                        return ([(k, v[0], v[1].id) for k, v in st.items()], list(st.keys()),
                                [(v[0], v[1].id) for v in st.values()])

                    self.cmp("trie:subtrie:" + w, si, ([(a, a, b) for a, b in rel], [a for a, _ in rel], rel), path=p)
            # successor in document order
            if n <= 200 or i % 5 == 0:
                self.cmp("next_path", lambda: t.next_path(p), M.next_path(paths, index_of, sizes, p, False), path=p)
                if i + sz < n:  # the code asserts on the last path only without skip_children
                    self.cmp("next_path:skip_children", lambda: t.next_path(p, skip_children=True),
                             M.next_path(paths, index_of, sizes, p, True), path=p)
        # has_unique_ids() is deliberately NOT judged: the property lists strings, openness, path lookup, node
        # search, the trie view, structural hashes and path replacement; has_unique_ids is an assertion helper
        # (it reports True for a node *object* shared between two paths) and lies outside that list.
        # filter by label
        for lab in sorted({nd[0] for _, nd, _ in ex})[:5]:
            self.cmp("filter:label", lambda: [(p, x.id) for p, x in t.filter(lambda x: x.value == lab)],
                     [(p, nd[2]) for p, nd, _ in ex if nd[0] == lab], label=lab)

    def full(self, e):
        d = dt_diff(e["t"], e["m"])
        if d is not None:
            self.bad("%s:pool_tree_changed" % self.opname, path=d)
            return
        self.light(e)
        self.heavy(e)
        self.counters["full_checks"] += 1

    def pairs(self):
        es = self.pool
        for i in range(len(es)):
            for j in range(i + 1, len(es)):
                a, b = es[i], es[j]
                seq = M.skey(a["m"]) == M.skey(b["m"])
                ieq = M.ikey(a["m"]) == M.ikey(b["m"])
                self.labels.add("pair:equal" if ieq else ("pair:structurally_equal" if seq else "pair:different"))
                self.touched()
                self.cmp("structurally_equal", lambda: (bool(a["t"].structurally_equal(b["t"])),
                                                        bool(b["t"].structurally_equal(a["t"]))), (seq, seq))
                self.cmp("eq", lambda: (bool(a["t"] == b["t"]), bool(b["t"] == a["t"]), bool(a["t"] != b["t"])),
                         (ieq, ieq, not ieq))
                if seq:
                    self.light(a, ["shash"])
                    self.light(b, ["shash"])
                if ieq:
                    self.light(a, ["hash"])
                    self.light(b, ["hash"])

    # ---------------------------------------------------------- sources of replacement trees
    def source(self, src, host, hp):
        """-> (DerivationTree, model) of a replacement tree"""
        kind = src[0]
        if kind == "new":
            plain = M.expand_spec(src[1])
            if not M.well_formed(plain):
                raise _Skip("ill_formed")
            m = self.fresh_model(plain)
            self.register(m)
            return self.build_dt(m), m
        if kind == "pool":
            e = self.slot(src[1])
            i = self.resolve(src[2], e)
            p = self.exp(e)[i][0]
            return _walk(e["t"], p), M.sub(e["m"], p)
        if kind == "copy":
            e = self.slot(src[1])
            i = self.resolve(src[2], e)
            p = self.exp(e)[i][0]
            sm = M.sub(e["m"], p)
            ok, c = self.call("new_ids", lambda: _walk(e["t"], p).new_ids())
            if not ok:
                raise _Skip("new_ids_failed")
            want = strip(sm)
            d = dt_diff(c, want)
            if d is not None:
                self.bad("new_ids:structure_wrong", path=d)
                raise _Skip("new_ids_failed")
            m = adopt(c, want)
            self.check_fresh("new_ids", want, m)
            self.register(m)
            return c, m
        if kind == "self":
            return _walk(host["t"], hp), M.sub(host["m"], hp)
        raise _Skip("bad_src")

    def size_ok(self, host_m, p, s_m):
        total = len(M.nodes(host_m)) - len(M.nodes(M.sub(host_m, p))) + len(M.nodes(s_m))
        if total > MAX_NODES or len(p) + M.depth(s_m) > MAX_DEPTH:
            raise _Skip("size_cap")

    # ---------------------------------------------------------- operations
    def run_op(self, op):
        name = op[0]
        self.opname = name
        try:
            fn = getattr(self, "op_" + name, None)
            if fn is None:
                raise _Skip("unknown_op")
            involved = fn(*op[1:]) or []
            self.executed += 1
            self.labels.add("op:" + self.opname)
            return involved
        except _Skip as s:
            self.labels.add("skip:" + str(s))
            self.counters["skipped_ops"] += 1
            return []

    def op_build(self, spec, how="ctor", dst=0):
        plain = M.expand_spec(spec)
        if not M.well_formed(plain):
            raise _Skip("ill_formed")
        if len(M.nodes(plain)) > MAX_NODES:
            raise _Skip("size_cap")
        if how == "pt":
            self.opname = "build_pt"

            def to_pt(n):
                return (n[0], None if n[1] is None else [to_pt(c) for c in n[1]])

            ok, t = self.call("from_parse_tree", lambda: self.DT.from_parse_tree(to_pt(plain)))
            if not ok:
                raise _Skip("failed")
            want = strip(plain)
            d = dt_diff(t, want)
            if d is not None:
                self.bad("from_parse_tree:structure_wrong", path=d)
                raise _Skip("failed")
            m = adopt(t, want)
            self.check_fresh("from_parse_tree", want, m)
        else:
            m = self.fresh_model(plain)
            t = self.build_dt(m)
        return [self.add(t, m, dst)]

    def op_replace(self, slot, sel, src, retain=False, dst=0):
        e = self.slot(slot)
        i = self.resolve(sel, e)
        p, old, _ = self.exp(e)[i]
        s_t, s_m = self.source(src, e, p)
        self.size_ok(e["m"], p, s_m)
        retain = bool(retain)
        self.opname = "replace_retain" if retain else "replace"
        want = M.replace(e["m"], p, M.reid(s_m, old[2]) if retain else s_m)
        self.mutated()
        if retain:
            ok, r = self.call("replace_path", lambda: e["t"].replace_path(p, s_t, retain_id=True), path=p)
        else:
            ok, r = self.call("replace_path", lambda: e["t"].replace_path(p, s_t), path=p)
        if not ok:
            raise _Skip("failed")
        d = dt_diff(r, want)
        if d is not None:
            where = "at_path" if d == p else ("inside_wrong" if d[:len(p)] == p else "outside_changed")
            self.bad("replace_path:%s%s" % ("retain_id:" if retain else "", where), path=p, differs_at=d)
            raise _Skip("failed")
        d = dt_diff(s_t, s_m)
        if d is not None:
            self.bad("replace_path:replacement_tree_changed", path=d)
        if src[0] == "self":
            self.labels.add("identity_replacement")
        return [self.idx(e), self.add(r, want, dst)]

    def op_subst(self, slot, ents, dst=0):
        e = self.slot(slot)
        ex = self.exp(e)
        host_ids = [n[2] for _, n, _ in ex]
        if len(set(host_ids)) != len(host_ids):
            raise _Skip("dup_ids")
        chosen = {}
        foreign = []
        for sel, src in ents:
            i = self.resolve(sel, e)
            p, old, _ = ex[i]
            kind = src[0]
            if kind == "selfid":
                kids = [M.expand_spec(c) for c in src[1]]
                if not is_nt(old[0]) or not all(M.well_formed(c) for c in kids):
                    continue
                km = []
                for c in kids:
                    km.append(self.fresh_model(c))
                s_m = [old[0], km, old[2]]
                self.register(s_m)
                chosen[p] = (self.build_dt(s_m), s_m)
            elif kind == "new":
                chosen[p] = self.source(src, e, p)
            elif kind == "foreign":
                foreign.append((self.source(["new", [NT[0], None]], e, p)[0], self.source(["new", src[1]], e, p)[0]))
            elif kind == "self" and len(ents) == 1:
                chosen[p] = self.source(src, e, p)
        if not chosen and not foreign:
            raise _Skip("empty_subst")
        outer = M.outermost(list(chosen))
        nested = len(outer) != len(chosen)
        want = e["m"]
        for p in outer:
            self.size_ok(want, p, chosen[p][1])
            want = M.replace(want, p, chosen[p][1])
        subst = {}
        for p, (s_t, _) in chosen.items():
            subst[_walk(e["t"], p)] = s_t
        for k, v in foreign:
            subst[k] = v
        self.touched()  # building the dict hashes the key nodes
        self.mutated()
        self.opname = "subst%d%s%s" % (len(chosen), "_nested" if nested else "", "_foreign" if foreign else "")
        ok, r = self.call("substitute", lambda: e["t"].substitute(subst))
        if not ok:
            raise _Skip("failed")
        d = dt_diff(r, want)
        if d is not None:
            self.bad("substitute:%swrong" % ("nested_targets:" if nested else ""), differs_at=d, targets=sorted(chosen))
            raise _Skip("failed")
        self.opname = "subst_multi" if len(chosen) > 1 else "subst"
        if nested:
            self.labels.add("subst_nested")
        return [self.idx(e), self.add(r, want, dst)]

    def op_expand(self, slot, sel, kids, dst=0):
        """expansion of one open leaf, done the way expand_one_step does it"""
        e = self.slot(slot)
        i = self.resolve(sel, e)
        p, old, _ = self.exp(e)[i]
        if old[1] is not None:
            raise _Skip("no_open_leaf")
        km = [self.fresh_model([s, None if is_nt(s) else []]) for s in kids]
        s_m = [old[0], km, old[2]]
        self.register(s_m)
        self.size_ok(e["m"], p, s_m)
        DT = self.DT
        s_t = DT(old[0], [self.build_dt(c) for c in km], old[2])
        want = M.replace(e["m"], p, s_m)
        self.mutated()
        ok, r = self.call("replace_path", lambda: e["t"].replace_path(p, s_t), path=p)
        if not ok:
            raise _Skip("failed")
        d = dt_diff(r, want)
        if d is not None:
            self.bad("replace_path:expansion_wrong", path=p, differs_at=d)
            raise _Skip("failed")
        return [self.idx(e), self.add(r, want, dst)]

    def op_expand1(self, slot, grammar, which=0, dst=0):
        e = self.slot(slot)
        ex = self.exp(e)
        opens = [(p, n) for p, n, _ in ex if n[1] is None]
        cg = {k: [list(a) for a in alts] for k, alts in grammar.items()}
        if any(n[0] not in cg or not cg[n[0]] for _, n in opens):
            raise _Skip("grammar_incomplete")
        total = 1
        for _, n in opens:
            total *= len(cg[n[0]])
        if total > 12:
            cg = {k: alts[:1] for k, alts in cg.items()}
            total = 1
        if len(ex) + sum(max(len(a) for a in cg[n[0]]) for _, n in opens) > MAX_NODES:
            raise _Skip("size_cap")
        # all combinations
        combos = [[]]
        for p, n in opens:
            combos = [c + [(p, n, a)] for c in combos for a in cg[n[0]]]
        wants = []
        if opens:
            for c in combos:
                w = e["m"]
                for p, n, alt in c:
                    w = M.replace(w, p, [n[0], [[s, None if is_nt(s) else [], None] for s in alt], n[2]])
                wants.append(w)
        self.mutated()
        ok, rs = self.call("expand_one_step", lambda: list(e["t"].expand_one_step(cg)))
        if not ok:
            raise _Skip("failed")
        if len(rs) != len(wants):
            self.bad("expand_one_step:number_of_results", expected=len(wants), observed=len(rs))
            raise _Skip("failed")
        remaining = list(wants)
        got = []
        for r in rs:
            hit = None
            for k, w in enumerate(remaining):
                if dt_diff(r, w) is None:
                    hit = k
                    break
            if hit is None:
                self.bad("expand_one_step:unexpected_result", open_leaves=len(opens))
                raise _Skip("failed")
            w = remaining.pop(hit)
            m = adopt(r, w)
            self.check_fresh("expand_one_step", w, m)
            got.append((r, m))
        if not got:
            self.labels.add("expand1_closed_tree")
            return [self.idx(e)]
        r, m = got[int(which) % len(got)]
        return [self.idx(e), self.add(r, m, dst)]

    def op_new_ids(self, slot, sel, dst=0):
        e = self.slot(slot)
        i = self.resolve(sel, e)
        p = self.exp(e)[i][0]
        r, m = self.source(["copy", self.idx(e), ["x", i]], e, p)
        return [self.idx(e), self.add(r, m, dst)]

    def op_roundtrip(self, slot, sel, dst=0):
        e = self.slot(slot)
        i = self.resolve(sel, e)
        p = self.exp(e)[i][0]
        sm = M.sub(e["m"], p)
        node = _walk(e["t"], p)
        ok, pt = self.call("to_parse_tree", lambda: node.to_parse_tree())
        if not ok:
            raise _Skip("failed")
        if norm_pt(pt) != M.parse_tree(sm):
            self.bad("to_parse_tree:wrong", expected=M.parse_tree(sm), observed=norm_pt(pt))
            raise _Skip("failed")
        ok, r = self.call("from_parse_tree", lambda: self.DT.from_parse_tree(pt))
        if not ok:
            raise _Skip("failed")
        want = strip(sm)
        d = dt_diff(r, want)
        if d is not None:
            self.bad("from_parse_tree:structure_wrong", path=d)
            raise _Skip("failed")
        m = adopt(r, want)
        self.check_fresh("from_parse_tree", want, m)
        return [self.idx(e), self.add(r, m, dst)]

    def op_sub(self, slot, sel, via="walk", dst=0):
        e = self.slot(slot)
        i = self.resolve(sel, e)
        p, nd, _ = self.exp(e)[i]
        t = e["t"]
        self.opname = "sub_" + via
        if via == "get_subtree":
            self.touched()
            ok, s = self.call("get_subtree", lambda: t.get_subtree(p), path=p)
        elif via == "trie":
            self.touched()
            ok, s = self.call("trie:getitem:" + self.wc(e["m"]), lambda: t.trie()[p][1], path=p)
        elif via == "paths":
            self.touched()
            ok, s = self.call("paths", lambda: t.paths()[i][1], path=p)
        else:
            ok, s = True, _walk(t, p)
        if not ok:
            raise _Skip("failed")
        sm = M.sub(e["m"], p)
        d = dt_diff(s, sm) if s is not None and hasattr(s, "children") else ()
        if d is not None:
            name = {"get_subtree": "get_subtree", "trie": "trie:getitem:" + self.wc(e["m"]), "paths": "paths"}.get(via, "walk")
            self.bad("%s:wrong_subtree" % name, path=p, differs_at=d)
            raise _Skip("failed")
        return [self.idx(e), self.add(s, sm, dst)]

    def op_touch(self, slot, sel, names):
        e = self.slot(slot)
        i = self.resolve(sel, e)
        p = self.exp(e)[i][0]
        if p:
            sub_e = self.entry(_walk(e["t"], p), M.sub(e["m"], p))
            self.labels.add("touch_on_inner_object")
        else:
            sub_e = e
        self.light(sub_e, [n for n in names if n in LIGHT])
        return []

    def op_check(self, slot):
        self.full(self.slot(slot))
        return []

    # ---------------------------------------------------------- per step / end
    def after_step(self, involved):
        for e in self.pool:
            d = dt_diff(e["t"], e["m"])
            if d is not None:
                self.bad("%s:pool_tree_changed" % self.opname, path=d)
        if self.mode == "every":
            for k, e in enumerate(self.pool):
                self.light(e)
                if k in involved:
                    self.heavy(e)
            self.pairs()

    def finish(self):
        self.opname = "final"
        self.step_no = -1
        for e in self.pool:
            self.full(e)
        self.pairs()


def _clear_caches(DT):
    for nm in ("paths", "trie", "get_subtree", "to_string", "depth"):
        f = getattr(getattr(DT, nm, None), "cache_clear", None)
        if f is not None:
            f()


def judge(case):
    from isla.derivation_tree import DerivationTree as DT
    _clear_caches(DT)
    cx = _Ctx(case, DT)
    ops = case.get("ops", [])
    for i, op in enumerate(ops):
        cx.step_no = i
        involved = cx.run_op(op)
        cx.after_step(involved)
    cx.finish()
    _clear_caches(DT)
    labels = set(cx.labels)
    labels.add("mode:" + cx.mode)
    labels.add("branch:" + cx.wc(cx.max_idx))
    labels.add("nodes>=100" if cx.max_nodes >= 100 else ("nodes>=20" if cx.max_nodes >= 20 else "nodes<20"))
    labels.add("depth>=6" if cx.max_depth >= 6 else "depth<6")
    labels.add("steps>=15" if cx.executed >= 15 else "steps<15")
    nontrivial = cx.nt_state == 3
    if nontrivial:
        labels.add("touch-mutate-touch")
    cnt = dict(cx.counters)
    cnt["executed_ops"] = cx.executed
    return {"labels": sorted(labels), "nontrivial": nontrivial, "violations": list(cx.viol.values()), "inconclusive": None,
            "counters": cnt,
            "sample": {"mode": cx.mode, "ops": [o[0] for o in ops], "max_nodes": cx.max_nodes, "max_child_index": cx.max_idx,
                       "pool_strings": [M.mstr(e["m"], True)[:60] for e in cx.pool][:6]}}


def health(stats, tier):
    n = max(1, stats["evaluations"])
    c = stats["classes"]
    if n < 100:
        return None
    wide = c.get("branch:idx28-252", 0) + c.get("branch:idx>=253", 0)
    if wide < 0.3 * n:
        return "only %d of %d histories contain a node with more than 28 children" % (wide, n)
    if c.get("escape_path_checked", 0) < 0.03 * n:
        return "only %d of %d histories check a path with a child index >= 253" % (c.get("escape_path_checked", 0), n)
    if stats["distinct_nontrivial"] < 0.5 * n:
        return "only %d of %d histories are non-trivial" % (stats["distinct_nontrivial"], n)
    for must in ("op:replace", "op:replace_retain", "op:subst", "op:expand", "op:expand1", "op:new_ids", "op:roundtrip",
                 "mode:lazy", "mode:every", "pair:structurally_equal", "pair:equal"):
        if c.get(must, 0) == 0:
            return "no history with label %s" % must
    return None


# ================================================================ oracle self-test

def selftest():
    t = ["<a>", [["<b>", [["x", []], ["<c>", None]]], ["<c>", []], ["yy", []], ["<b>", [["<c>", [["z", []]]]]]]]
    m, nxt = M.with_ids(t, 100)
    assert nxt == 109
    ex = M.nodes(m)
    assert [p for p, _, _ in ex] == [(), (0,), (0, 0), (0, 1), (1,), (2,), (3,), (3, 0), (3, 0, 0)]
    assert [s for _, _, s in ex] == [9, 3, 1, 1, 1, 1, 3, 2, 1]
    assert [n[2] for _, n, _ in ex] == list(range(100, 109))
    assert M.mstr(m) == "xyyz" and M.mstr(m, True) == "x<c>yyz" and M.mstr(m, True, True) == "x<c> [103]yyz"
    assert M.mopen(m) and not M.mopen(M.sub(m, (3,))) and M.depth(m) == 4
    assert [p for p, _ in M.postorder(m)] == [(0, 0), (0, 1), (0,), (1,), (2,), (3, 0, 0), (3, 0), (3,), ()]
    assert [p for p, _ in M.preorder(m, True)] == [(), (3,), (3, 0), (3, 0, 0), (2,), (1,), (0,), (0, 1), (0, 0)]
    assert [p for p, _ in M.postorder(m, True)] == [(3, 0, 0), (3, 0), (3,), (2,), (1,), (0, 1), (0, 0), (0,), ()]
    assert [p for p, _ in M.bfs(m)] == [(), (0,), (1,), (2,), (3,), (0, 0), (0, 1), (3, 0), (3, 0, 0)]
    s = ["<c>", [["q", [], 501]], 500]
    r = M.replace(m, (0, 1), s)
    assert M.mstr(r) == "xqyyz" and not M.mopen(r) and M.first_diff(m, r) == (0, 1) and M.first_diff(r, r) is None
    assert M.mstr(m, True) == "x<c>yyz", "replace must not touch its input"
    assert M.sub(r, (3,)) is M.sub(m, (3,))
    assert M.first_diff(m, M.replace(m, (2,), ["yy", [], 7])) == (2,)
    assert M.skey(m) == M.skey(M.with_ids(t, 7)[0]) and M.ikey(m) != M.ikey(M.with_ids(t, 7)[0])
    assert M.skey(["<c>", None, 1]) != M.skey(["<c>", [], 1])
    assert M.outermost([(0,), (0, 1), (3, 0), (2,)]) == [(0,), (3, 0), (2,)]
    paths = [p for p, _, _ in ex]
    io = {p: i for i, p in enumerate(paths)}
    sz = [x for _, _, x in ex]
    assert M.next_path(paths, io, sz, (0,), False) == (0, 0) and M.next_path(paths, io, sz, (0,), True) == (1,)
    assert M.next_path(paths, io, sz, (3, 0, 0), False) is None and M.next_path(paths, io, sz, (3,), True) is None
    w = M.expand_spec(["<a>", {"n": 300, "pat": [["x", []], ["<b>", None]], "sp": [[253, ["<c>", [["y", []]]]]]}])
    assert len(w[1]) == 300 and w[1][253] == ["<c>", [["y", []]]] and w[1][1] == ["<b>", None] and w[1][2] == ["x", []]
    assert M.max_index(w + [0]) == 299
    assert M.well_formed(w) and not M.well_formed(["x", [["y", []]]]) and not M.well_formed(["x", None])
    # the judge itself: a hand-written touch / replace / touch history must count as non-trivial
    res = judge({"mode": "lazy", "ops": [["build", t, "ctor", 0], ["touch", 0, ["r", 0], ["is_open", "str"]],
                                         ["replace", 0, ["o", 0], ["new", ["<c>", [["q", []]]]], True, 1],
                                         ["touch", 1, ["r", 0], ["is_open", "paths"]]]})
    assert res["nontrivial"], res["labels"]
