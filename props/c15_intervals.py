"""C15 -- integer intervals inferred from a regex are exactly the numbers it matches;
compressing a regex concatenation keeps the language.

Two kinds of cases:
  {"kind": "intervals", "regex": AST}      -> isla.z3_helpers.numeric_intervals_from_regex
  {"kind": "compress", "elements": [AST]}  -> isla.z3_helpers.compress_concatenation_elements
(AST format: vlib/c15_regex.py)
"""
import re
import sys
import itertools

from vlib import c15_regex as rx
from vlib.gen import chance, pick

ID = "C15"
CASES = {"quick": 4000, "thorough": 200000}
SOFT = 30
HARD = 120
RULE = ("case = (a) a Z3 regex AST derived from the grammar printed in the docstring of numeric_intervals_from_regex "
        "(singles, ordered ranges, 0*/0+, [0-9]*/[0-9]+, unions, sequences with literal/optional/union signs and all "
        "listed zero-padding forms; class 'strict'), the same with the variations shown in its doctests (Range(c,c) for "
        "Re(c), re-associated nested concatenations, r* r / r r* spellings of r+; class 'ext'), or a near miss outside "
        "the grammar (class 'outside', no claim); or (b) a list of 1-6 non-concatenation regex elements biased to runs "
        "of r, r*, r+ of one r. Oracle (a): the harness' own automaton for the AST (cross-checked in every case against its "
        "translation to Python re and a second matcher); for every v in [-1200,1200], 50 "
        "further values up to 10^25 and every returned bound +-1: v lies in the returned intervals (bounds +-sys.maxsize "
        "open) iff some spelling [+-]?0{0..z}digits(v) is matched (z = zero-capable atoms + 2). Oracle (b): input and "
        "output concatenation accept the same strings among all strings up to length 4-8 over the atoms' characters. "
        "Non-trivial = (a) regex in the documented shape, Some(intervals) returned and >= 2 constructors, (b) the list "
        "was actually rewritten; distinct by regex / element list")
ASSUMPTIONS = ["value comparison is bounded: [-1200,1200], 50 listed large values, and the returned bounds +-1",
               "compression: exhaustive only up to string length 4-8 over the characters occurring in the elements",
               "regexes outside the documented grammar (incl. any result on them) carry no claim",
               "Nothing on a documented shape is 'no inference' and carries no claim (rate reported as a class)",
               "membership oracle = harness' Thompson-NFA matcher; agreement with Python re and an end-position-set matcher is asserted on a sample of strings in every case"]

M = sys.maxsize
R09 = ["range", "0", "9"]
R19 = ["range", "1", "9"]
DIGITS = "0123456789"

EXTRA = sorted(set(
    [s * (10 ** k + d) for k in range(3, 20) for d in (-1, 0, 1) for s in (1, -1) if k in (3, 4, 6, 9, 12, 18, 19)]
    + [s * (M + d) for d in (-1, 0, 1, 2) for s in (1, -1)] + [10 ** 25, -10 ** 25, 12345, -12345, 99999, -99999]))


# ------------------------------------------------------------------ domain recogniser
# (the grammar of the docstring, written down independently of the generator)

def _is_pm(a):
    return a in (["re", "+"], ["re", "-"])


def _is_optpm(a):
    return _is_pm(a) or (a[0] == "opt" and _is_pm(a[1]))


def _is_zero_lit(a):
    return a == ["re", "0"]


def _is_zeroes(a):
    return a[0] in ("star", "plus") and _is_zero_lit(a[1])


def _is_zeroish(a):
    return _is_zero_lit(a) or _is_zeroes(a)


def _is_full(a):
    return a[0] in ("star", "plus") and a[1] == R09


def _is_single(a):
    return a[0] == "re" and len(a[1]) == 1 and a[1] in DIGITS


def _is_range(a):
    return (a[0] == "range" and len(a[1]) == 1 and len(a[2]) == 1 and a[1] in DIGITS and a[2] in DIGITS
            and a[1] <= a[2])


def _is_first_union(a):
    return a[0] == "union" and len(a) >= 3 and all(_is_pm(c) or _is_zeroish(c) for c in a[1:])


def _is_regex(a, ext):
    if _is_single(a) or _is_range(a) or _is_zeroes(a) or _is_full(a):
        return True
    if a[0] == "union":
        return len(a) >= 3 and all(_is_regex(c, ext) for c in a[1:])
    if a[0] == "concat":
        return _is_sequence(a[1:], ext)
    return False


def _tail_digits(rest, ext):
    """<one-or-zero-nine> <zero-nines>; ext: the zero-nines may be spelled r* r / r r* / r+ r* ... (r = [0-9])"""
    if len(rest) < 2 or rest[0] not in (R09, R19):
        return False
    if not ext:
        return len(rest) == 2 and _is_full(rest[1])
    run = rest[1:]
    return all(e == R09 or _is_full(e) for e in run) and any(_is_full(e) for e in run)


def _tail_regex(rest, ext):
    if len(rest) == 1:
        return _is_regex(rest[0], ext)
    return ext and len(rest) >= 2 and _is_sequence(rest, ext)


def _is_sequence(ch, ext):
    if len(ch) < 2:
        return False
    if _is_first_union(ch[0]):
        rest = ch[1:]
        if _tail_digits(rest, ext) or _tail_regex(rest, ext):
            return True
        # a union of zeroes/"0" only is also a <regex> that may be ... no: <seq-zeroes> has no union
        return False
    i = 1 if _is_optpm(ch[0]) else 0
    j = i
    while j < len(ch) and _is_zeroish(ch[j]):
        j += 1
    for z in range(i, j + 1):
        rest = ch[z:]
        if not rest:
            continue
        if _tail_digits(rest, ext):
            return True
        # the grammar demands zero padding between the sign and a general <regex>; the doctests
        # (Concat(Option(Re("-")), Range("0", "9"))) show the sign directly in front of it: class 'ext'
        if (z > i or (ext and i == 1)) and _tail_regex(rest, ext):
            return True
    return False


def _normalise(a):
    """the variations shown in the doctests: Range(c, c) == Re(c); nesting of Concat is immaterial"""
    def go(x):
        if x[0] == "range" and x[1] == x[2]:
            return ["re", x[1]]
        if x[0] in ("re", "range"):
            return list(x)
        return [x[0]] + [go(c) for c in x[1:]]
    return rx.flat(go(a))


def domain(ast):
    if _is_regex(ast, False):
        return "strict"
    if _is_regex(_normalise(ast), True):
        return "ext"
    return "outside"


def bare_full(ast):
    """normalised AST contains [0-9]* / [0-9]+ (possibly spelled [0-9] [0-9]* etc.) in a position where it
    stands for the whole number: at the top, as a union member, or as all that remains of a sequence
    after signs and zero padding"""
    if _is_full(ast):
        return True
    if ast[0] == "union":
        return any(bare_full(c) for c in ast[1:])
    if ast[0] == "concat":
        ch = ast[1:]
        i = 0
        while i < len(ch) and (_is_optpm(ch[i]) or _is_zeroish(ch[i]) or _is_first_union(ch[i])):
            i += 1
        rest = ch[i:]
        if len(rest) == 1:
            return bare_full(rest[0])
        # [0-9] [0-9]*, [0-9]* [0-9]*, ... are compressed to the single element [0-9]+ / [0-9]* first
        if rest and all(e == R09 or _is_full(e) for e in rest) and any(_is_full(e) for e in rest):
            return sum(1 for e in rest if e == R09 or e[0] == "plus") <= 1
    return False


# ------------------------------------------------------------------ generator

def unit(rnd):
    """uniform on {0.00, ..., 0.99} for branch selection (the Hypothesis-backed random() puts ~20 % of its
    mass on 0.0 and randint over wide ranges is biased towards 0; randint(0, 99) is uniform)"""
    return rnd.randint(0, 99) / 100.0


def g_single(rnd):
    return ["re", DIGITS[rnd.randint(0, 9)]]


def g_range(rnd):
    a, b = rnd.randint(0, 9), rnd.randint(0, 9)
    if a > b:
        a, b = b, a
    return ["range", str(a), str(b)]


def g_zeroes(rnd):
    return [pick(rnd, ["star", "plus"]), ["re", "0"]]


def g_full(rnd):
    return [pick(rnd, ["star", "plus"]), list(R09)]


def g_pm(rnd):
    return ["re", pick(rnd, ["-", "+"])]


def g_optpm(rnd):
    c = unit(rnd)
    if c < 0.4:
        return []
    if c < 0.7:
        return [g_pm(rnd)]
    return [["opt", g_pm(rnd)]]


def g_seqzeroes(rnd):
    return [(g_zeroes(rnd) if chance(rnd, 0.5) else ["re", "0"]) for _ in range(pick(rnd, [1, 1, 2, 3]))]


def g_oz9(rnd):
    return list(pick(rnd, [R19, R09]))


def g_first_union(rnd):
    n = pick(rnd, [2, 2, 3])
    return ["union"] + [pick(rnd, [g_pm, g_pm, g_zeroes, lambda r: ["re", "0"]])(rnd) for _ in range(n)]


def g_regex(rnd, d, p_full):
    c = unit(rnd)
    if d >= 3:
        c *= 0.45
    if c < 0.12:
        return g_single(rnd)
    if c < 0.27:
        return g_range(rnd)
    if c < 0.33:
        return g_zeroes(rnd)
    if c < 0.33 + p_full:
        return g_full(rnd)
    if c < 0.60:
        return ["union"] + [g_regex(rnd, d + 1, p_full) for _ in range(pick(rnd, [2, 2, 3]))]
    return g_sequence(rnd, d, p_full)


def g_sequence(rnd, d, p_full, ext=False):
    c = unit(rnd)
    if ext and c < 0.12:
        return ["concat", pick(rnd, [g_pm(rnd), ["opt", g_pm(rnd)]]), g_regex(rnd, d + 1, p_full)]
    if c < 0.35:
        el = g_optpm(rnd) + (g_seqzeroes(rnd) if chance(rnd, 0.5) else []) + [g_oz9(rnd), g_full(rnd)]
    elif c < 0.65:
        el = g_optpm(rnd) + g_seqzeroes(rnd) + [g_regex(rnd, d + 1, p_full)]
    elif c < 0.8:
        el = [g_first_union(rnd), g_oz9(rnd), g_full(rnd)]
    else:
        el = [g_first_union(rnd), g_regex(rnd, d + 1, p_full)]
    return ["concat"] + el


def vary(rnd, ast):
    """doctest variations: Range(c,c) for Re(c) (digits), r+ spelled r r* / r* r, re-association of concats"""
    k = ast[0]
    if k == "re":
        if ast[1] in DIGITS and len(ast[1]) == 1 and chance(rnd, 0.25):
            return ["range", ast[1], ast[1]]
        return list(ast)
    if k == "range":
        return list(ast)
    if k in ("star", "plus", "opt", "union"):
        return [k] + [vary(rnd, c) for c in ast[1:]]
    ch = []
    prev = None
    for c in rx.flat(ast)[1:]:
        after_digit = prev in (R09, R19)
        prev = c
        if c == ["plus", R09] and after_digit and chance(rnd, 0.4):
            ch.extend(pick(rnd, [[list(R09), ["star", list(R09)]], [["star", list(R09)], list(R09)]]))
        elif c == ["plus", R09] and chance(rnd, 0.3):
            ch.extend([list(R09), ["star", list(R09)]])
        elif c == ["star", R09] and after_digit and chance(rnd, 0.15):
            ch.extend([["star", list(R09)], ["star", list(R09)]])
        else:
            ch.append(vary(rnd, c))
    # random association
    while len(ch) > 2 and chance(rnd, 0.6):
        i = rnd.randint(0, len(ch) - 2)
        j = rnd.randint(i + 2, len(ch)) if i + 2 <= len(ch) else len(ch)
        if j - i >= len(ch):
            break
        ch[i:j] = [["concat"] + ch[i:j]]
    return ["concat"] + ch


NEAR_MISSES = [
    lambda r: ["range", "7", "2"],
    lambda r: ["re", pick(r, ["a", "x", " 5", "1_0", "", "12", "-5"])],
    lambda r: ["concat", list(R19), list(R09)],
    lambda r: ["concat", ["re", DIGITS[r.randint(1, 9)]], g_single(r)],
    lambda r: ["star", list(R19)],
    lambda r: ["plus", ["re", DIGITS[r.randint(1, 9)]]],
    lambda r: ["opt", g_single(r)],
    lambda r: ["concat", list(R19), ["star", list(R09)], g_pm(r)],
    lambda r: ["concat", ["range", str(r.randint(2, 4)), str(r.randint(5, 8))], g_full(r)],
    lambda r: ["union", g_single(r), ["re", "a"]],
    lambda r: ["concat", ["re", "0"], ["range", "a", "f"]],
    lambda r: ["concat", list(R19), ["star", ["range", "0", "8"]]],
    lambda r: ["star", ["union", ["re", "0"], ["re", "1"]]],
]

ATOMS_AB = [["re", "a"], ["re", "b"], ["range", "a", "b"]]


def g_elem(rnd, d=0):
    c = rnd.randint(0, 9 if d < 2 else 3)
    if c <= 2:
        return list(ATOMS_AB[c])
    if c == 3:
        return ["re", pick(rnd, ["a", "ab", "ba", ""])]
    if c == 4:
        return ["star", g_elem(rnd, d + 1)]
    if c == 5:
        return ["plus", g_elem(rnd, d + 1)]
    if c == 6:
        return ["opt", g_elem(rnd, d + 1)]
    if c == 7:
        return ["union", g_elem(rnd, d + 1), g_elem(rnd, d + 1)]
    if c == 8:
        return [pick(rnd, ["star", "plus"]), ["concat", g_elem(rnd, d + 1), g_elem(rnd, d + 1)]]
    return [pick(rnd, ["star", "plus"]), [pick(rnd, ["star", "plus", "opt"]), g_elem(rnd, d + 1)]]


def g_run(rnd, base):
    return [pick(rnd, [base, ["star", base], ["plus", base], base, ["star", base]]) for _ in range(rnd.randint(2, 4))]


def g_elements(rnd):
    c = unit(rnd)
    if c < 0.25:
        els = [g_elem(rnd) for _ in range(rnd.randint(1, 5))]
    elif c < 0.75:
        els = g_run(rnd, g_elem(rnd, 1))
        if chance(rnd, 0.4):
            els = [g_elem(rnd)] + els
        if chance(rnd, 0.4):
            els = els + [g_elem(rnd)]
    elif c < 0.9:
        b1 = g_elem(rnd, 1)
        b2 = g_elem(rnd, 1)
        els = g_run(rnd, b1)[:3] + g_run(rnd, b2)[:3]
    else:
        # the shapes the caller passes: children of a documented sequence
        seq = rx.flat(vary(rnd, g_sequence(rnd, 1, 0.1)))
        els = [e for e in seq[1:] if e[0] != "concat"]
    els = [e for e in els if e[0] != "concat"][:6]
    return els or [["re", "a"]]


def generate(rnd, tier):
    c = unit(rnd)
    if c < 0.33:
        return {"kind": "compress", "elements": g_elements(rnd)}
    if c < 0.37:
        return {"kind": "intervals", "regex": pick(rnd, NEAR_MISSES)(rnd), "gen": "outside"}
    p_full = pick(rnd, [0.0, 0.0, 0.04, 0.1])
    ext = chance(rnd, 0.4)
    ast = g_sequence(rnd, 0, p_full, ext) if chance(rnd, 0.55) else g_regex(rnd, 0, p_full)
    if ext:
        return {"kind": "intervals", "regex": vary(rnd, ast), "gen": "ext"}
    return {"kind": "intervals", "regex": ast, "gen": "strict"}


# ------------------------------------------------------------------ oracle

def spellings(v, z, signed):
    """numerals denoting v: optional sign, 0..z leading zeros, decimal digits"""
    d = str(abs(v))
    for k in range(z + 1):
        base = "0" * k + d
        if v >= 0:
            yield base
            if signed:
                yield "+" + base
        if v <= 0 and signed:
            yield "-" + base


class ValueOracle:
    """v in V(r)  iff  some numeral [+-]? 0{0..z} digits(|v|) with the right sign is matched.
    The automaton states after the sign and after each number of padding zeros are computed once."""

    def __init__(self, ast, z):
        self.m = rx.Matcher(ast)
        self.pre = {}
        for sg in ("", "+", "-"):
            S = self.m.run(self.m.start, sg)
            row = []
            for _k in range(z + 1):
                if not S:
                    break
                row.append(S)
                S = self.m.step(S, "0")
            self.pre[sg] = row

    def denotes(self, v):
        d = str(abs(v))
        signs = ("", "+") if v > 0 else (("-",) if v < 0 else ("", "+", "-"))
        m = self.m
        for sg in signs:
            for S in self.pre[sg]:
                if m.accepting(m.run(S, d)):
                    return True
        return False


def denotes(pat, v, z, signed):
    """the same by direct matching of every spelling (pat: anything with fullmatch); used for cross-checks"""
    return any(pat.fullmatch(s) is not None and pat.fullmatch(s) is not False for s in spellings(v, z, signed))


def claimed(ivs, v):
    for lo, hi in ivs:
        if (lo <= -M or lo <= v) and (hi >= M or v <= hi):
            return True
    return False


LENIENT = re.compile(r"(?:[+-]|0)*[0-9]*")


def lenient_value(s):
    """value under the reading 'signs and zero padding may be interleaved in front of the digits'
    (only used to attribute a spurious value to the known mid-concatenation-sign defect)"""
    if not LENIENT.fullmatch(s):
        return None
    digits = s.replace("+", "").replace("-", "")
    if not digits:
        return None
    v = int(digits)
    return -v if s.count("-") % 2 else v


def explained_by_midsign(ast, v):
    """a matched string that is not a numeral (it has a sign at an index >= 1) and whose lenient value is v,
    or None.  Complete up to the unrolling bound: such a string only has characters from digits(v), 0, + and -."""
    chars = set(str(abs(v))) | set("0+-")
    strs, _complete = rx.enum_strings(ast, loop_max=len(str(abs(v))) + 2, cap=30000, chars=chars)
    for s in strs:
        if any(c in "+-" for c in s[1:]) and lenient_value(s) == v:
            return s
    return None


def judge_intervals(case):
    import z3  # noqa: F401
    import isla.language  # noqa: F401  (as in real use: the solver imports it before z3_helpers is used)
    from isla.z3_helpers import numeric_intervals_from_regex
    from returns.maybe import Nothing

    ast = case["regex"]
    dom = domain(ast)
    if case.get("gen") and case["gen"] != "outside" and dom == "outside":
        raise RuntimeError("harness: generated regex not recognised as documented shape: %s" % rx.show(ast))
    if case.get("gen") == "strict" and dom != "strict":
        raise RuntimeError("harness: strict generator output not strict: %s" % rx.show(ast))
    labels = ["intervals", "dom:" + dom]
    zr = rx.to_z3(ast)
    if rx.flat(rx.from_z3(zr)) != rx.flat(ast):
        raise RuntimeError("harness: Z3 construction changed the regex: %s vs %s" % (zr, rx.show(ast)))
    out = {"labels": labels, "nontrivial": False, "violations": [], "inconclusive": None,
           "key": "I:" + rx.show(ast), "sample": {"regex": rx.show(ast)}}
    try:
        res = numeric_intervals_from_regex(zr)
    except Exception as e:
        # the property makes no statement about exceptions; reported as a class, not a violation
        labels.append("raises:" + type(e).__name__)
        out["inconclusive"] = "raises:" + type(e).__name__
        return out
    if res == Nothing:
        labels.append(("nothing" if dom != "outside" else "outside:nothing"))
        return out
    ivs = [tuple(iv) for iv in res.unwrap()]
    out["sample"]["intervals"] = [list(iv) for iv in ivs]
    if dom == "outside":
        labels.append("outside:some")
        return out
    labels.append("some")
    if not all(isinstance(b, int) and not isinstance(b, bool) for iv in ivs for b in iv) or not all(len(iv) == 2 for iv in ivs):
        out["violations"].append({"sig": "intervals:malformed", "intervals": repr(ivs)})
        return out
    if any(lo > hi for lo, hi in ivs):
        labels.append("empty_interval")
    if list(ivs) != sorted(ivs):
        labels.append("unsorted_result")
    n_ast = _normalise(ast)
    pat = rx.compile_ast(ast)
    z = rx.zero_capable_atoms(ast) + 2
    signed = rx.has_sign_literal(ast)
    _ne, _sf, sign_later = rx.sign_facts(ast)
    if sign_later:
        labels.append("sign_not_in_front_possible")
    if bare_full(n_ast):
        labels.append("bare_digit_run")
    if any(lo <= -M or hi >= M for lo, hi in ivs):
        labels.append("unbounded")
    if len(ivs) > 1:
        labels.append("several_intervals")
    if signed:
        labels.append("signed")
    vals = set(range(-1200, 1201)) | set(EXTRA)
    for lo, hi in ivs:
        for b in (lo, hi):
            if -M < b < M:
                vals.update((b - 1, b, b + 1))
    oracle = ValueOracle(ast, z)
    # continuous cross-check of the three matchers (automaton, Python re, end-position sets) on short strings
    fz = rx.freeze(ast)
    for v in (0, 1, -1, 5, -7, 9, 10, -10, 12, 100, -305):
        a = oracle.denotes(v)
        if a != denotes(pat, v, z, True) or any(rx.fullmatch(fz, s) != oracle.m.fullmatch(s) for s in spellings(v, 2, True)):
            raise RuntimeError("harness: matchers disagree on %s for value %d" % (rx.show(ast), v))
    spurious, missing = [], []
    n_true = 0
    for v in sorted(vals, key=lambda x: (abs(x), x)):
        t = oracle.denotes(v)
        c = claimed(ivs, v)
        n_true += t
        if t and not c:
            missing.append(v)
        elif c and not t:
            spurious.append(v)
    out["nontrivial"] = rx.size(ast) >= 2
    labels.append("values:none" if n_true == 0 else ("values:all" if n_true == len(vals) else "values:some"))
    if missing:
        out["violations"].append({"sig": "intervals:missing_value", "regex": rx.show(ast), "intervals": [list(i) for i in ivs],
                                  "matched_but_not_in_intervals": missing[:8], "python_re": pat.pattern})
    if spurious:
        # attribution to the two known root causes (each as narrow as the harness can make it):
        #  A  the result contains (-maxsize, maxsize) and the regex has a digit run standing for the whole number
        #  B  a sign can occur behind the first character and the smallest spurious values are the lenient
        #     values of matched non-numerals
        a_applies = (-M, M) in ivs and bare_full(n_ast)
        b_applies, wit = False, []
        if sign_later:
            probes = [spurious[0]] + [v for v in spurious if abs(v) >= 10][:1]
            wit = [explained_by_midsign(ast, v) for v in probes]
            b_applies = all(w is not None for w in wit)
        why = []
        if a_applies:
            why.append("[0-9]*/[0-9]+ standing alone is mapped to (-maxsize, maxsize)")
        if b_applies:
            why.append("value comes from matched non-numerals such as %r" % (wit[0],))
        sig = ("intervals:spurious:digit_run_or_sign_not_in_front" if a_applies and b_applies
               else "intervals:spurious:bare_digit_run_is_all_integers" if a_applies
               else "intervals:spurious:sign_not_in_front" if b_applies
               else "intervals:spurious:other")
        why = "; ".join(why) or None
        out["violations"].append({"sig": sig, "regex": rx.show(ast), "intervals": [list(i) for i in ivs],
                                  "in_intervals_but_no_matched_numeral": spurious[:8], "why": why,
                                  "python_re": pat.pattern})
    return out


def alphabet_of(asts):
    cs = set()
    for a in asts:
        for at in rx.atoms(a):
            if at[0] == "re":
                cs.update(at[1])
            else:
                cs.update((at[1], at[2]))
                if ord(at[2]) - ord(at[1]) >= 2:
                    cs.add(chr(ord(at[1]) + 1))
    return "".join(sorted(cs)) or "a"


def all_strings(alpha, budget=6000):
    out = [""]
    total, n, level = 1, 0, [""]
    while True:
        n += 1
        if total + len(alpha) ** n > budget or n > 8:
            break
        level = [s + c for s in level for c in alpha]
        out.extend(level)
        total += len(level)
    return out, n - 1


class concat_pattern:
    """membership in the concatenation of a list of elements ([] denotes {""}) by the harness' automaton
    matcher -- element lists contain nested quantifiers, on which Python's backtracking `re` is exponential"""

    def __init__(self, asts):
        whole = ["concat"] + list(asts) + [["re", ""], ["re", ""]]
        self.f = rx.freeze(whole)
        self.m = rx.Matcher(whole)

    def fullmatch(self, s):
        return self.m.fullmatch(s)

    def fullmatch2(self, s):
        return rx.fullmatch(self.f, s)


def judge_compress(case):
    import isla.language  # noqa: F401
    from isla.z3_helpers import compress_concatenation_elements
    els = case["elements"]
    if any(e[0] == "concat" for e in els) or not els:
        raise RuntimeError("harness: precondition (no element is a concatenation) not met by the generator")
    zs = [rx.to_z3(e) for e in els]
    for e, zr in zip(els, zs):
        if rx.flat(rx.from_z3(zr)) != rx.flat(e):
            raise RuntimeError("harness: Z3 construction changed the regex: %s" % zr)
    shown = " ++ ".join(rx.show(e) for e in els)
    labels = ["compress", "n=%d" % len(els)]
    out = {"labels": labels, "nontrivial": False, "violations": [], "inconclusive": None,
           "key": "C:" + shown, "sample": {"elements": shown}}
    try:
        res = compress_concatenation_elements(zs)
    except Exception as e:
        out["violations"].append({"sig": "compress:raises:" + type(e).__name__, "elements": shown, "detail": str(e)[:300]})
        return out
    try:
        res_ast = [rx.from_z3(r) for r in res]
    except ValueError as e:
        out["violations"].append({"sig": "compress:result_not_a_regex_list", "elements": shown, "detail": str(e)[:300]})
        return out
    rshown = " ++ ".join(rx.show(e) for e in res_ast)
    out["sample"]["compressed"] = rshown
    changed = [rx.flat(a) for a in res_ast] != [rx.flat(e) for e in els]
    labels.append("rewritten" if changed else "unchanged")
    if len(res_ast) < len(els):
        labels.append("shorter")
    p2 = concat_pattern(res_ast)
    p1 = concat_pattern(els)
    alpha = alphabet_of(els + res_ast)
    strs, maxlen = all_strings(alpha)
    labels.append("maxlen=%d" % maxlen)
    m1 = [p1.fullmatch(s) for s in strs]
    m2 = [p2.fullmatch(s) for s in strs]
    for i in range(0, len(strs), max(1, len(strs) // 40)):
        if p1.fullmatch2(strs[i]) != m1[i] or p2.fullmatch2(strs[i]) != m2[i]:
            raise RuntimeError("harness: matchers disagree on %r" % strs[i])
    lost = [s for s, a, b in zip(strs, m1, m2) if a and not b]
    gained = [s for s, a, b in zip(strs, m1, m2) if b and not a]
    n_in = sum(m1)
    labels.append("lang:%s" % ("empty" if n_in == 0 else "all" if n_in == len(strs) else "proper"))
    out["nontrivial"] = changed
    if lost or gained:
        out["violations"].append({"sig": "compress:language_changed", "elements": shown, "compressed": rshown,
                                  "lost": lost[:5], "gained": gained[:5]})
    return out


def judge(case):
    if case["kind"] == "intervals":
        return judge_intervals(case)
    return judge_compress(case)


# ------------------------------------------------------------------ self-test, health

def selftest():
    import random
    # translator / enumerator / Z3 round trip agree
    rnd = random.Random(5)
    for _ in range(150):
        ast = vary(rnd, g_regex(rnd, 0, 0.1)) if rnd.random() < 0.7 else ["concat"] + g_elements(rnd) + [["re", "a"]]
        pat = rx.compile_ast(ast)
        strs, _ = rx.enum_strings(ast, loop_max=2, cap=3000)
        assert strs, rx.show(ast)
        for s in list(strs)[:200]:
            assert pat.fullmatch(s), (rx.show(ast), s)
        assert rx.flat(rx.from_z3(rx.to_z3(ast))) == rx.flat(ast)
        fz = rx.freeze(ast)
        mt = rx.Matcher(ast)
        for s in list(strs)[:60]:
            assert rx.fullmatch(fz, s) and mt.fullmatch(s), (rx.show(ast), s)
        alpha = alphabet_of([ast])[:4]
        for s in all_strings(alpha, 400)[0]:
            assert mt.fullmatch(s) == rx.fullmatch(fz, s), (rx.show(ast), s)
            if not rx.nested_quantifier(ast):
                assert bool(pat.fullmatch(s)) == mt.fullmatch(s), (rx.show(ast), s)
        _ne, sf, sl = rx.sign_facts(ast)
        full, complete = rx.enum_strings(ast, loop_max=3, cap=20000)
        if complete:
            assert sf == any(s[:1] in ("+", "-") and s for s in full), rx.show(ast)
            assert sl == any(c in "+-" for s in full for c in s[1:]), rx.show(ast)
    # enumerator against brute force
    ast = ["concat", ["opt", ["re", "-"]], ["star", ["re", "0"]], ["range", "1", "2"]]
    pat = rx.compile_ast(ast)
    brute = {"".join(p) for n in range(5) for p in itertools.product("-012", repeat=n) if pat.fullmatch("".join(p))}
    enum, _ = rx.enum_strings(ast, loop_max=4)
    assert {s for s in enum if len(s) <= 4} == brute
    # value oracle on hand-computed examples
    def vset(ast, vals):
        pat = rx.compile_ast(ast)
        z = rx.zero_capable_atoms(ast) + 2
        o = ValueOracle(ast, z)
        a = {v for v in vals if denotes(pat, v, z, True)}
        assert a == {v for v in vals if o.denotes(v)}
        return a
    rng = range(-30, 31)
    assert vset(["concat", ["re", "-"], R19, ["plus", R09]], rng) == set(range(-30, -9))
    assert vset(["concat", ["opt", ["re", "-"]], R09], rng) == set(range(-9, 10))
    assert vset(["concat", ["plus", ["re", "0"]], ["re", "0"], ["range", "2", "4"]], rng) == {2, 3, 4}
    assert vset(["star", R09], rng) == set(range(0, 31))
    assert vset(["concat", ["re", "0"], ["concat", ["re", "-"], R19]], rng) == set()
    assert vset(["union", ["re", "6"], ["range", "1", "4"]], rng) == {1, 2, 3, 4, 6}
    assert claimed([(-M, -10)], -10 ** 30) and not claimed([(-M, -10)], -9) and claimed([(3, 3)], 3)
    assert not claimed([(1, M)], 0) and claimed([(1, M)], 10 ** 30)
    assert lenient_value("0-05") == -5 and lenient_value("+-5") == -5 and lenient_value("--5") == 5 and lenient_value("1-5") is None
    # domain recogniser on the docstring's own examples and on near misses
    assert domain(["concat", ["union", ["re", "+"], ["re", "-"]], R09]) == "strict"
    assert domain(["concat", ["opt", ["re", "-"]], R09]) == "ext"  # doctest, not derivable from the grammar
    assert domain(["concat", ["star", ["re", "0"]], R19, ["star", R09]]) == "strict"
    assert domain(["concat", ["re", "-"], R19, ["plus", R09]]) == "strict"
    assert domain(["concat", ["concat", R19, ["star", R09]], R09]) == "ext"
    assert domain(["concat", ["plus", ["re", "0"]], ["re", "0"], ["star", ["range", "0", "0"]]]) == "ext"
    assert domain(["concat", R19, R09]) == "outside" and domain(["range", "7", "2"]) == "outside"
    for mk in NEAR_MISSES:
        for _ in range(5):
            a = mk(rnd)
            assert domain(a) == "outside", rx.show(a)
    for _ in range(300):
        a = g_regex(rnd, 0, 0.1)
        assert domain(a) == "strict", rx.show(a)
        assert domain(vary(rnd, a)) in ("strict", "ext"), rx.show(a)
    assert bare_full(["concat", ["re", "+"], R09, ["star", R09]]) and not bare_full(["concat", ["re", "+"], R09, R09, ["star", R09]])
    assert bare_full(["concat", ["re", "-"], ["re", "0"], ["star", R09]]) and not bare_full(["concat", ["opt", ["re", "-"]], R19, ["star", R09]])
    # compression oracle catches a language change
    p1 = concat_pattern([["re", "a"], ["star", ["re", "a"]]])
    p2 = concat_pattern([["star", ["re", "a"]]])
    strs, n = all_strings("ab")
    assert n == 8 and len(strs) == 511 and [s for s in strs if bool(p1.fullmatch(s)) != bool(p2.fullmatch(s))] == [""]


def health(stats, tier):
    cl = stats["classes"]
    n = stats["evaluations"]
    if n < 300:
        return None
    if cl.get("some", 0) < 0.3 * n:
        return "only %d of %d cases produced intervals on a documented shape" % (cl.get("some", 0), n)
    if cl.get("rewritten", 0) < 0.05 * n:
        return "only %d of %d cases were rewritten by the compression" % (cl.get("rewritten", 0), n)
    for need in ("dom:strict", "dom:ext", "signed", "unbounded", "several_intervals", "values:some"):
        if cl.get(need, 0) < 0.03 * n:
            return "class %s under-represented: %d of %d" % (need, cl.get(need, 0), n)
    return None
