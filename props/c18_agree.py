"""C18 -- check, parse, repair and mutate agree with the constraint and with each other."""
import random as pyrandom

from vlib.runner import reraise_if_timeout

from vlib import rt, gen, fml, solvergen
from vlib.gen import chance, pick
from props import c01_solver as c01
from props import c03_evaluate as c03

ID = "C18"
CASES = {"quick": 480, "thorough": 20000}
SOFT = 45
HARD = 150
RULE = ("case = (grammar, constraint from the C01 template family or the C03 generator, input, mode); inputs are made "
        "on purpose in three classes: harness-generated trees (valid or semantically invalid as the reference semantics "
        "says) and single-edit mutants / random strings (syntactically invalid when the recogniser says so); mode "
        "check_parse (85%): check(str), parse(str), check(tree); mode repair / mutate (15%): repair(tree), "
        "mutate(tree, seeded); oracle: check(s) <=> member(s) and the reference satisfies the constraint on the tree "
        "ISLa's parser returns first (the harness' own tree when the derivation is unique); parse raises SyntaxError "
        "iff not member, SemanticError iff member and not satisfied, else returns a valid tree spelling s; for a unique "
        "derivation check(tree) == check(str(tree)); repair(valid) returns the same string; repair(invalid) returns "
        "Nothing or a grammar-valid tree satisfying the constraint; mutate returns a grammar-valid tree satisfying the "
        "constraint; non-trivial = the constraint is discriminating on the harness' sample trees; distinct by case hash")
ASSUMPTIONS = ["UnknownResultError from check() is allowed by its docstring and counted as inconclusive (after a retry with a 20 s Z3 budget)",
               "constraints whose reference verdict is not judged strictly (ambiguous match expressions etc.) are skipped",
               "mutate() loops until it succeeds: runs under the cooperative watchdog, a budget hit is inconclusive"]


def selftest():
    c03.selftest()


def generate(rnd, tier):
    name, g = c01.gen_grammar(rnd)
    amb = chance(rnd, 0.08)
    if amb:
        # an ambiguous grammar and a structure-sensitive constraint (match expressions): check/repair on a tree speak
        # about THAT derivation, which need not be the one the parser finds first for its string
        name, g = "amb", gen.ZOO["amb"]
    cg = rt.canon(g)
    md = rt.min_depths(cg)
    trees = [gen.tree(rnd, cg, "<start>", rnd.randint(1, 6), md, bias=0.8) for _ in range(5)]
    lits = fml.sample_lits(cg, trees)
    if amb:
        fg = fml.FGen(rnd, cg, lits, dict(numq=0.0, unused=0.0, mexpr=0.9, mexpr_depth=pick(rnd, [2, 3]), connectives=("and", "or", "not")))
        big = [x for x in trees if rt.tyield(x).count("+") >= 2] or trees
        t = pick(rnd, big)
        # two derivations of one string (left- and right-nested sums) and, if one of a few candidates does, a constraint
        # that tells them apart
        ds = [pick(rnd, ["1", "2", "3"]) for _ in range(rnd.randint(3, 4))]

        def leaf(d):
            return ["<e>", [["<d>", [[d, []]]]]]

        def plus(a, b):
            return ["<e>", [a, ["+", []], b]]

        L = leaf(ds[0])
        for d in ds[1:]:
            L = plus(L, leaf(d))
        R = leaf(ds[-1])
        for d in reversed(ds[:-1]):
            R = plus(leaf(d), R)
        L, R = ["<start>", [L]], ["<start>", [R]]
        lits2 = fml.sample_lits(cg, [L, R])
        fg2 = fml.FGen(rnd, cg, lits2, dict(numq=0.0, unused=0.0, mexpr=0.9, mexpr_depth=pick(rnd, [2, 3]), connectives=("and", "or", "not")))
        for _ in range(12):
            f2 = fg2.formula([("start", "<start>")], rnd.randint(1, 2))
            try:
                a, fa, _ = fml.sat(cg, L, f2)
                b, fb, _ = fml.sat(cg, R, f2)
            except fml.Undecided:
                continue
            if not fa and not fb and a != b:
                t = pick(rnd, [L, R])
                return {"grammar": g, "gname": name, "template": "amb_split", "formula": f2,
                        "mode": "check_parse" if chance(rnd, 0.6) else "repair", "tree": t, "string": rt.tyield(t), "rseed": rnd.randint(0, 10 ** 6)}
        return {"grammar": g, "gname": name, "template": "amb_fgen", "formula": fg.formula([("start", "<start>")], rnd.randint(1, 2)),
                "mode": "check_parse" if chance(rnd, 0.7) else "repair", "tree": t, "string": rt.tyield(t), "rseed": rnd.randint(0, 10 ** 6)}
    if chance(rnd, 0.6):
        tname, f = solvergen.template(rnd, cg, lits, name)
    else:
        fg = fml.FGen(rnd, cg, lits, dict(numq=0.1, unused=0.0, connectives=("and", "or", "not", "implies")))
        tname, f = "fgen", fg.formula([("start", "<start>")], rnd.randint(1, 3))
    mode = "check_parse" if rnd.random() > 0.3 else pick(rnd, ["repair", "repair", "repair", "mutate"])
    t = pick(rnd, trees)
    if mode == "repair" and chance(rnd, 0.6):
        # a conjunction of two constraints and an input that violates exactly ONE conjunct: a repair has to keep the
        # other conjunct intact
        more = trees + [gen.tree(rnd, cg, "<start>", rnd.randint(1, 5), md, bias=0.8) for _ in range(6)]
        for _ in range(6):
            n1, f1 = solvergen.template(rnd, cg, lits, name)
            n2, f2 = solvergen.template(rnd, cg, lits, name)
            f1, f2 = solvergen.rename_bound(f1, "a"), solvergen.rename_bound(f2, "b")
            hit = None
            for cand in more:
                try:
                    v1, fl1, _ = fml.sat(cg, cand, f1)
                    v2, fl2, _ = fml.sat(cg, cand, f2)
                except fml.Undecided:
                    continue
                if not fl1 and not fl2 and v1 != v2:
                    hit = cand
                    break
            if hit is not None:
                tname, f, t = "conj(%s,%s)" % (n1, n2), ["and", f1, f2], hit
                break
    s = rt.tyield(t)
    cls = "tree"
    if mode == "check_parse" and chance(rnd, 0.3):
        chars = sorted({ch for alts in cg.values() for a in alts for x in a if not rt.is_nt(x) for ch in x}) or ["a"]
        if s and chance(rnd, 0.7):
            i = rnd.randint(0, len(s) - 1)
            k = rnd.randint(0, 2)
            s = s[:i] + s[i + 1:] if k == 0 else s[:i] + pick(rnd, chars) + s[i:] if k == 1 else s[:i] + pick(rnd, chars) + s[i + 1:]
        else:
            s = "".join(pick(rnd, chars) for _ in range(rnd.randint(0, 6)))
        cls = "string"
    return {"grammar": g, "gname": name, "template": tname, "formula": f, "mode": mode, "tree": t if cls == "tree" else None,
            "string": s, "rseed": rnd.randint(0, 10 ** 6)}


def judge(case):
    from isla.solver import ISLaSolver, SemanticError, UnknownResultError
    from returns.maybe import Some, Nothing
    g, f, s, mode = case["grammar"], case["formula"], case["string"], case["mode"]
    cg = rt.canon(g)
    text = fml.pr(f)
    labels = ["mode:" + mode, "template:" + case["template"].split("(")[0]]
    member = rt.member(cg, "<start>", s)
    nder = rt.count_trees(cg, "<start>", s, cap=2) if member else 0
    labels.append("syntactically_invalid" if not member else "unique_derivation" if nder == 1 else "ambiguous_input")
    try:
        solver = ISLaSolver(g, text)
    except Exception as e:
        return {"labels": labels + ["ctor_error"], "nontrivial": False, "violations": [], "inconclusive": "ctor_error",
                "sample": {"constraint": text, "error": "%s: %s" % (type(e).__name__, str(e)[:200])}}
    viol = []

    def bad(sig, **kw):
        if sig.endswith(":result_violates_constraint"):
            # open finding (filed under C01): the solver instantiates numeric quantifiers that are universal in negation
            # normal form with a few chosen values only; repair and mutate inherit its answers
            from props import c01_solver as _c01
            if _c01.universal_numq(f):
                sig += ":universal_numq"
        viol.append(dict(sig=sig, constraint=text, string=s, **kw))

    def ref(tree):
        """reference verdict on a closed ref tree, or None when not judged"""
        try:
            v, flags, _ = fml.sat(cg, tree, f)
        except fml.Undecided:
            return None
        if flags:
            return None
        if fml.has_kind(f, ("forallint", "existsint")):
            try:
                if fml.sat(cg, tree, f, numq_min=1)[0] != v or fml.sat(cg, tree, f, numq_all_ints=True)[0] != v:
                    return None  # zero-dependent, or inside the known numq-all-strings finding
            except fml.Undecided:
                return None
        return v

    # the tree ISLa's parser returns first (used as the judged tree for ambiguous inputs)
    isla_tree = None
    if member:
        try:
            isla_tree = rt.from_dt(solver.parse(s, skip_check=True, silent=True))
        except SyntaxError:
            bad("parse:rejects_member")
        except Exception as e:
            bad("parse(skip_check):raises:" + type(e).__name__, detail=str(e)[:200])
        if isla_tree is not None:
            why = rt.why_invalid(cg, isla_tree, "<start>")
            if why or rt.tyield(isla_tree) != s:
                bad("parse:unfaithful_tree", detail=why or rt.tyield(isla_tree))
                isla_tree = None
    own_tree = case["tree"] if case.get("tree") is not None and nder == 1 else None
    if case.get("tree") is not None and nder > 1 and mode in ("repair", "mutate") and rt.tyield(case["tree"]) == s:
        # repair/mutate are handed a TREE: for a string with several derivations they are judged on the derivation they get
        own_tree = case["tree"]
    judged_tree = own_tree or isla_tree
    exp_sat = ref(judged_tree) if judged_tree is not None else None
    if member and exp_sat is None and not viol:
        return {"labels": labels + ["reference_not_judged"], "nontrivial": False, "violations": [], "inconclusive": "reference_not_judged"}
    if member:
        labels.append("semantically_valid" if exp_sat else "semantically_invalid")
    inconclusive = None

    def do_check(arg):
        try:
            return bool(solver.check(arg))
        except UnknownResultError:
            with c03.long_z3_timeout():
                try:
                    return bool(solver.check(arg))
                except UnknownResultError:
                    return "unknown"

    if mode == "check_parse" and not viol:
        exp_check = bool(member and exp_sat)
        try:
            got = do_check(s)
            if got == "unknown":
                inconclusive = "check_unknown"
            elif got != exp_check:
                bad("check(str):%s" % ("true_but_%s" % ("not_member" if not member else "violates") if got else "false_but_valid"),
                    expected=exp_check, observed=got)
        except Exception as e:
            reraise_if_timeout(e)
            bad("check(str):raises:" + type(e).__name__, detail=str(e)[:200])
        # parse
        try:
            with c03.long_z3_timeout():
                r = solver.parse(s, silent=True)
            outcome = "tree"
        except SyntaxError:
            outcome = "SyntaxError"
        except SemanticError:
            outcome = "SemanticError"
        except UnknownResultError:
            outcome = "unknown"
            inconclusive = inconclusive or "parse_unknown"
        except Exception as e:
            reraise_if_timeout(e)
            outcome = "raises:" + type(e).__name__
        exp_outcome = "SyntaxError" if not member else "tree" if exp_sat else "SemanticError"
        if outcome != exp_outcome and outcome != "unknown":
            bad("parse:%s_instead_of_%s" % (outcome, exp_outcome))
        elif outcome == "tree":
            rr = rt.from_dt(r)
            if rt.why_invalid(cg, rr, "<start>") or rt.tyield(rr) != s:
                bad("parse:unfaithful_tree")
        # check(tree) == check(str(tree)) for a unique derivation
        if member and nder == 1 and judged_tree is not None:
            try:
                got_t = do_check(rt.to_dt(rt.assign_ids(judged_tree)[0]))
                if got_t == "unknown":
                    inconclusive = inconclusive or "check_unknown"
                elif got_t != bool(exp_sat):
                    bad("check(tree):wrong", expected=bool(exp_sat), observed=got_t)
            except Exception as e:
                reraise_if_timeout(e)
                bad("check(tree):raises:" + type(e).__name__, detail=str(e)[:200])
        # for an input with several derivations check(tree) still speaks about the tree it is given: the harness' own
        # derivation (not necessarily the parser's first one) against its own reference verdict
        if member and nder > 1 and case.get("tree") is not None and rt.tyield(case["tree"]) == s:
            own_sat = ref(case["tree"])
            if own_sat is not None:
                labels.append("check(tree):ambiguous_own_derivation")
                try:
                    got_t = do_check(rt.to_dt(rt.assign_ids(case["tree"])[0]))
                    if got_t != "unknown" and got_t != bool(own_sat):
                        bad("check(tree):wrong_for_given_derivation", expected=bool(own_sat), observed=got_t)
                except Exception as e:
                    reraise_if_timeout(e)
                    bad("check(tree):raises:" + type(e).__name__, detail=str(e)[:200])
    elif mode in ("repair", "mutate") and member and judged_tree is not None and not viol:
        dt = rt.to_dt(rt.assign_ids(judged_tree)[0])
        pyrandom.seed(case["rseed"])
        if mode == "repair":
            try:
                res = solver.repair(dt, fix_timeout_seconds=2)
            except Exception as e:
                reraise_if_timeout(e)
                res = None
                # the property speaks about what repair returns; a crash is recorded, not judged
                labels.append("crash:repair:" + type(e).__name__)
                inconclusive = "crash:repair"
            if res is not None:
                if res == Nothing:
                    labels.append("repair:nothing")
                    if exp_sat:
                        bad("repair:nothing_for_valid_input")
                else:
                    rr = rt.from_dt(res.unwrap())
                    if exp_sat:
                        labels.append("repair:valid_input")
                        if rt.tyield(rr) != s:
                            bad("repair:valid_input_changed", result=rt.tyield(rr))
                    else:
                        labels.append("repair:repaired" if rt.tyield(rr) != s else "repair:returned_unchanged")
                        why = rt.why_invalid(cg, rr, "<start>")
                        if why:
                            bad("repair:result_not_grammar_valid", detail=why, result=rt.tyield(rr))
                        else:
                            v = ref(rr)
                            if v is False:
                                bad("repair:result_violates_constraint", result=rt.tyield(rr))
        elif not exp_sat:
            labels.append("mutate:skipped_invalid_input")
        else:
            try:
                res = solver.mutate(dt, fix_timeout_seconds=1)
                rr = rt.from_dt(res)
                labels.append("mutate:changed" if rt.tyield(rr) != s else "mutate:same_string")
                why = rt.why_invalid(cg, rr, "<start>")
                if why:
                    bad("mutate:result_not_grammar_valid", detail=why, result=rt.tyield(rr))
                else:
                    v = ref(rr)
                    if v is False:
                        bad("mutate:result_violates_constraint", result=rt.tyield(rr))
            except Exception as e:
                reraise_if_timeout(e)
                labels.append("crash:mutate:" + type(e).__name__)
                inconclusive = "crash:mutate"
    disc = c01.discriminating({"rseed": case["rseed"], "formula": f}, cg, "<start>")
    return {"labels": labels, "nontrivial": disc and not inconclusive, "violations": viol, "inconclusive": inconclusive if not viol else None,
            "sample": {"constraint": text, "string": s[:60], "mode": mode, "member": member, "reference": exp_sat}}


def health(stats, tier):
    c = stats["classes"]
    n = max(1, stats["evaluations"])
    rm = c.get("mode:repair", 0) + c.get("mode:mutate", 0)
    crashes = sum(v for k, v in c.items() if k.startswith("crash:"))
    if rm >= 20 and crashes > 0.5 * rm:
        # (observed on the unchanged tree: 10-30% of repair calls on conjunctive constraints trip internal
        # assertions of the solver -- transform_smt_formula, expand_to_match_quantifiers; the property speaks
        # about what repair returns, so those are recorded, not judged; a majority of crashes means repair is
        # broken as a whole)
        return "repair/mutate crashed in %d of %d cases: %s" % (crashes, rm, {k: v for k, v in c.items() if k.startswith("crash:")})
    for k in ("syntactically_invalid", "semantically_valid", "semantically_invalid"):
        if c.get(k, 0) < 0.05 * n:
            return "input class %s occurs in only %d of %d cases" % (k, c.get(k, 0), n)
    return None
