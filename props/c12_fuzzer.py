"""C12 -- fuzzer expansions/completions and mutations produce valid trees of the same kind."""
import signal
import time
from vlib import rt, gen
from vlib.gen import chance, pick

ID = "C12"
CASES = {"quick": 24000, "thorough": 600000}
SOFT = 40
HARD = 150
CALL_BUDGET = 3.0  # seconds per call into ISLa; a hit is inconclusive (liveness is not part of the property)
FUZZ_BUDGET = 1.0  # expand_tree normally takes milliseconds; min_nonterminals > 0 on linear recursion never ends
RULE = ("case = (random well-formed grammar with epsilon rules, left/right recursion, unit cycles, multi-character "
        "terminals, or a zoo grammar) + one of: [complete] an open tree (root <start> or any nonterminal, epsilon nodes "
        "in both representations) completed 1-3 times by one GrammarFuzzer/GrammarCoverageFuzzer object "
        "(min_nonterminals 0-3, max_nonterminals 1-12) under a drawn random seed; [once] one expand_tree_once step on "
        "an open tree plus expansion_to_children on every alternative of the grammar; [mutate] a closed tree given to "
        "Mutator.mutate (min/max mutations varied) or to replace_subtree_randomly / generalize_subtree / swap_subtrees "
        "directly. Oracle = the harness' own validator (vlib.rt.valid): result closed (complete, mutate) resp. valid "
        "open tree with exactly one more expanded node (once), derivation tree of the grammar with the input's root "
        "label, every expanded node of the input found at the same path with the same label and child-label sequence, "
        "every open leaf of the input the root of a subtree with its label; an exception escaping the call on a valid "
        "input is a violation. Non-trivial = open tree with >= 1 open leaf and >= 1 expanded inner node "
        "(complete/once); mutated tree structurally different from its input (mutate). Distinct by case hash")
ASSUMPTIONS = ["'unchanged' is read structurally (labels and child-label sequences at the same paths); node ids are not compared",
               "trees are handed to ISLa with ids assigned by ISLa itself (unique), as every caller does",
               "a call that exceeds its budget (%.1f s for fuzzer calls, %.0f s for mutator calls) or Python's default recursion depth is inconclusive (liveness is not claimed)" % (FUZZ_BUDGET, CALL_BUDGET),
               "a strategy returning Nothing (no candidate position) is not a mutation and is not judged"]

ALPHA = ["a", "b", "c", "0", "1", " ", ";", "=", "(", ")", "x", "ab", "9", "-", ",", "\n", "\"", "ä", "{", "\\"]
OPS = ["mutate", "replace", "generalize", "swap"]
OP_METHOD = {"replace": "replace_subtree_randomly", "generalize": "generalize_subtree", "swap": "swap_subtrees"}


# ---------------------------------------------------------------- oracle

def prefix_defect(p, r, path=()):
    """None iff p is a prefix of r: every expanded node of p sits in r at the same path with the same label and
    the same child-label sequence; every open leaf of p is the root of a subtree of r carrying its label."""
    if p[0] != r[0]:
        return "label %r became %r at %r" % (p[0], r[0], list(path))
    if p[1] is None:
        return None
    if r[1] is None:
        return "expanded node %r at %r is open in the result" % (p[0], list(path))
    pl, rl = [c[0] for c in p[1]], [c[0] for c in r[1]]
    if pl != rl:
        return "children of %r at %r changed from %r to %r" % (p[0], list(path), pl, rl)
    for i, (a, b) in enumerate(zip(p[1], r[1])):
        d = prefix_defect(a, b, path + (i,))
        if d:
            return d
    return None


def id_defect(p, r, path=()):
    """None iff every expanded node of the DerivationTree p has the same id as the node of r at the same path
    (call only after prefix_defect found the shapes compatible)"""
    try:
        if p.children is None:
            return None
        if p.id != r.id:
            return "expanded node %r at %r had id %r and has id %r in the result" % (p.value, list(path), p.id, r.id)
        for i, (a, b) in enumerate(zip(p.children, r.children or ())):
            d = id_defect(a, b, path + (i,))
            if d:
                return d
    except AttributeError:
        return None
    return None


def open_paths(t):
    return [p for p, n in rt.nodes(t) if n[1] is None]


def inner_expanded(t):
    return sum(1 for _, n in rt.nodes(t) if rt.is_nt(n[0]) and n[1] is not None)


def plain(t):
    """drop ids: [label, children|None]"""
    return [t[0], None if t[1] is None else [plain(c) for c in t[1]]]


def selftest():
    g = {"<start>": ["<a>"], "<a>": ["x<a>", "", "<b>y"], "<b>": ["b"]}
    cg = rt.canon(g)
    p = ["<start>", [["<a>", [["x", []], ["<a>", None]]]]]
    good = ["<start>", [["<a>", [["x", []], ["<a>", [["", []]]]]]]]
    good2 = ["<start>", [["<a>", [["x", []], ["<a>", [["<b>", [["b", []]]], ["y", []]]]]]]]
    assert prefix_defect(p, good) is None and prefix_defect(p, good2) is None and prefix_defect(p, p) is None
    assert rt.valid(cg, good, "<start>") and rt.valid(cg, good2, "<start>")
    assert not rt.valid(cg, p, "<start>") and rt.valid(cg, p, "<start>", allow_open=True)
    # expanded part altered / relabelled / reopened / shifted
    assert prefix_defect(p, ["<start>", [["<a>", [["<b>", [["b", []]]], ["y", []]]]]]) is not None
    assert prefix_defect(p, ["<start>", [["<a>", [["x", []], ["<b>", [["b", []]]]]]]]) is not None
    assert prefix_defect(good, p) is not None
    assert prefix_defect(["<a>", []], ["<a>", [["", []]]]) is not None
    # validator rejects: wrong alternative, terminal with children, open terminal, unknown nonterminal
    assert not rt.valid(cg, ["<start>", [["<a>", [["x", []]]]]], "<start>")
    assert not rt.valid(cg, ["<start>", [["<a>", [["x", [["x", []]]], ["<a>", []]]]]], "<start>")
    assert not rt.valid(cg, ["<start>", [["<a>", [["x", None], ["<a>", []]]]]], "<start>", allow_open=True)
    assert not rt.valid(cg, ["<start>", [["<c>", []]]], "<start>")
    assert not rt.valid(cg, ["<a>", [["<b>", []], ["y", []]]], "<a>")  # <b> has no epsilon alternative
    assert open_paths(p) == [(0, 1)] and inner_expanded(p) == 2
    assert plain(["<a>", [["x", [], 3]], 1]) == ["<a>", [["x", []]]]


# ---------------------------------------------------------------- generator

def _eps_forms(rnd, t, p):
    """epsilon nodes come as [] (parser) or as a single "" leaf (fuzzer): mix both"""
    if t[1] is None:
        return [t[0], None]
    if rt.is_nt(t[0]) and not t[1] and chance(rnd, p):
        return [t[0], [["", []]]]
    return [t[0], [_eps_forms(rnd, c, p) for c in t[1]]]


def _big_tree(rnd, cg, root, md, lo, hi):
    """largest of four closed trees (Hypothesis-backed draws favour tiny ones) below 150 nodes"""
    t = None
    for _ in range(4):
        c = gen.tree(rnd, cg, root, rnd.randint(lo, hi), md, bias=0.95)
        if t is None or rt.size(t) < rt.size(c) <= 150 or rt.size(c) < 150 < rt.size(t):
            t = c
    return t


def generate(rnd, tier):
    import random as pyrandom
    draw = "hyp"
    if rnd.randint(0, 9) >= 3:
        # Hypothesis-backed draws repeat themselves and favour tiny structures (median tree: 3 nodes, 2/3 of the
        # cases duplicates); the larger share of the cases is therefore drawn from a uniform generator whose
        # seed (eight float draws) is the only value taken from Hypothesis.  The rest stays directly
        # Hypothesis-backed (shrinkable).
        rnd = pyrandom.Random(",".join(repr(rnd.random()) for _ in range(8)))
        draw = "uniform"
    if chance(rnd, 0.4):
        gname = pick(rnd, ["lang", "eps", "xml", "int", "csv", "blk", "rec"])
        g = gen.ZOO[gname]
    else:
        gname = "rnd"
        g = gen.grammar(rnd, max_nts=6, alphabet=ALPHA if chance(rnd, 0.3) else None, wide=chance(rnd, 0.1))
    cg = rt.canon(g)
    md = rt.min_depths(cg)
    nts = list(g.keys())
    root = "<start>" if chance(rnd, 0.65) else pick(rnd, nts)
    # (Hypothesis-backed draws are far from uniform: rare variants are written as chance(small))
    kind = "mutate" if chance(rnd, 0.45) else "once" if chance(rnd, 0.2) else "complete"
    case = {"kind": kind, "gname": gname, "draw": draw, "grammar": g, "rseed": rnd.randint(0, 10 ** 6)}
    if kind in ("complete", "once"):
        mode = 0 if chance(rnd, 0.04) else 1 if chance(rnd, 0.2) else 2
        if mode == 0:
            t = [root, None]
        elif mode == 1:
            t = gen.tree(rnd, cg, root, rnd.randint(2, 6), md, p_open=pick(rnd, [0.15, 0.3, 0.5]), bias=0.85)
        else:
            t = plain(gen.cut(rnd, gen.with_ids(_big_tree(rnd, cg, root, md, 3, 8)), p_cut=pick(rnd, [0.15, 0.3, 0.5])))
        if mode > 0 and not rt.is_open(t):
            # closed by chance: cut one nonterminal node (not the root if there is another) back to an open leaf
            cands = [p for p, n in rt.nodes(t) if rt.is_nt(n[0]) and p] or [()]
            p = pick(rnd, cands)
            t = rt.replace(t, p, [rt.sub(t, p)[0], None])
        case["tree"] = _eps_forms(rnd, t, pick(rnd, [0.0, 0.5, 1.0]))
        case["fuzzer"] = pick(rnd, ["coverage", "plain"])
        case["min_nt"] = rnd.randint(1, 3) if chance(rnd, 0.1) else 0
        case["max_nt"] = pick(rnd, [10, 3, 1, 5, 12])
        case["reps"] = 1 if kind == "once" else pick(rnd, [1, 1, 2, 3])
    else:
        t = _big_tree(rnd, cg, root, md, 2, 7)
        if not any(n[1] for _, n in rt.nodes(t)) and chance(rnd, 0.8):
            # a lone childless root (epsilon in parser form, root other than <start>) is kept only rarely
            t = gen.tree(rnd, cg, "<start>", rnd.randint(1, 4), md)
        case["tree"] = _eps_forms(rnd, t, pick(rnd, [0.0, 0.5, 1.0]))
        case["op"] = pick(rnd, OPS)
        lo = pick(rnd, [2, 1, 0, 3])
        case["min_mut"] = lo
        case["max_mut"] = lo + pick(rnd, [3, 0, 1])
    return case


# ---------------------------------------------------------------- judge

_CALLS = {"n": 0, "timeouts": 0}


def _timed(fn, budget=CALL_BUDGET):
    """run fn() under its own cooperative budget; restores the runner's outer timer afterwards.
    -> ("ok", value) | ("timeout", None) | ("recursion", None) | ("raises", exception)
    Storm breaker: when more than 5% of this process' calls (and more than 30) ran out of budget -- which only
    happens when the code under test has stopped terminating -- the budget shrinks to 0.25 s, so that such a run
    still ends (with the health check's "too many inconclusive" error or a violation) instead of taking hours.
    Only the boundary between "inconclusive" and a verdict depends on it, never a verdict itself."""
    _CALLS["n"] += 1
    if _CALLS["timeouts"] > 30 and _CALLS["timeouts"] > 0.05 * _CALLS["n"]:
        budget = min(budget, 0.25)
    import sys
    from vlib import runner
    outer = signal.getitimer(signal.ITIMER_REAL)[0]
    reclimit = sys.getrecursionlimit()
    # inputs are < 20 levels deep and the fuzzer adds a few dozen: a tree that reaches depth ~1000 (Python's
    # default recursion limit) is a non-terminating expansion (min_nonterminals > 0 on linear recursion)
    sys.setrecursionlimit(min(reclimit, 1300))
    t0 = time.time()
    signal.signal(signal.SIGALRM, runner._alarm)
    if outer > 0:
        budget = min(budget, max(outer - 0.5, 0.1))
    try:
        try:
            # re-arming interval: an alarm that goes off inside a gc callback (Hypothesis installs one) is
            # swallowed as "Exception ignored"; the next one, 0.5 s later, gets through
            signal.setitimer(signal.ITIMER_REAL, budget, 0.5)
            try:
                return "ok", fn()
            finally:
                signal.setitimer(signal.ITIMER_REAL, 0)
        except runner.SoftTimeout:
            _CALLS["timeouts"] += 1
            return "timeout", None
        except RecursionError:
            return "recursion", None
        except Exception as e:
            return "raises", e
    finally:
        sys.setrecursionlimit(reclimit)
        if outer > 0:
            signal.setitimer(signal.ITIMER_REAL, max(outer - (time.time() - t0), 0.05))


def _brief(t, depth=0):
    if t[1] is None:
        return t[0] + "?"
    if not t[1]:
        return repr(t[0]) if not rt.is_nt(t[0]) else t[0] + "()"
    if depth > 4:
        return t[0] + "(...)"
    return t[0] + "(" + " ".join(_brief(c, depth + 1) for c in t[1]) + ")"


def judge(case):
    import random as pyrandom
    from isla.derivation_tree import DerivationTree
    g = case["grammar"]
    cg = rt.canon(g)
    t = plain(case["tree"])
    kind = case["kind"]
    root = t[0]
    labels = ["kind:" + kind, "g:" + case.get("gname", "?"), "draw:" + case.get("draw", "?"), "root:start" if root == "<start>" else "root:other"]
    viol = []
    inconclusive = None

    def bad(sig, **kw):
        if not any(v["sig"] == sig for v in viol):
            viol.append(dict(sig=sig, **kw))

    # the generated input must itself be in the property's domain (harness error otherwise)
    w = rt.why_invalid(cg, t, None, allow_open=kind != "mutate")
    if w is not None:
        raise AssertionError("harness: generated input tree is not a derivation tree: " + w)
    if any(n[0] == "" for _, n in rt.nodes(t)):
        labels.append("eps_as_empty_leaf")
    if any(rt.is_nt(n[0]) and n[1] is not None and not n[1] for _, n in rt.nodes(t)):
        labels.append("eps_as_no_children")
    size = rt.size(t)
    labels.append("in_nodes:" + ("1" if size == 1 else "2-9" if size < 10 else "10-39" if size < 40 else "40+"))
    sample = {"kind": kind, "input": _brief(t)}

    def as_tree(x, what):
        if not isinstance(x, DerivationTree):
            bad(what + ":not_a_tree", observed=repr(x)[:200])
            return None
        return plain(rt.from_dt(x))

    if kind in ("complete", "once"):
        from isla import fuzzer as F
        cls = F.GrammarCoverageFuzzer if case["fuzzer"] == "coverage" else F.GrammarFuzzer
        labels.append("fuzzer:" + case["fuzzer"])
        labels.append("min_nt:%s" % ("0" if case["min_nt"] == 0 else ">0"))
        opens = open_paths(t)
        nontrivial = len(opens) >= 1 and inner_expanded(t) >= 1
        labels.append("open_leaves:" + ("0" if not opens else "1" if len(opens) == 1 else "2-5" if len(opens) <= 5 else "6+"))
        st, fz = _timed(lambda: cls(g, min_nonterminals=case["min_nt"], max_nonterminals=case["max_nt"]))
        if st != "ok":
            if st == "raises":
                bad("fuzz:ctor:raises:" + type(fz).__name__, detail=str(fz)[:300])
            else:
                inconclusive = st
            return {"labels": labels, "nontrivial": False, "violations": viol, "inconclusive": inconclusive}
        if kind == "complete":
            for rep in range(case.get("reps", 1)):
                dt = rt.to_dt(t, with_ids=False)
                pyrandom.seed(case["rseed"] + rep)
                st, r = _timed(lambda: fz.expand_tree(dt), FUZZ_BUDGET)
                if st in ("timeout", "recursion"):
                    inconclusive = st
                    labels.append("complete:" + st)
                    break
                if st == "raises":
                    bad("complete:raises:" + type(r).__name__, detail=str(r)[:300], rep=rep)
                    break
                raw_result = r
                r = as_tree(r, "complete")
                if r is None:
                    break
                sample["result"] = _brief(r)
                if rt.is_open(r):
                    bad("complete:result_open", result=r, rep=rep)
                else:
                    w = rt.why_invalid(cg, r, root)
                    if w is not None:
                        bad("complete:invalid_tree", detail=w, result=r, rep=rep)
                d = prefix_defect(t, r)
                if d is not None:
                    bad("complete:input_part_changed", detail=d, result=r, rep=rep)
                else:
                    # "unchanged" under the library's own notion of equality: DerivationTree.__eq__ compares node ids,
                    # and find_node / substitute address nodes by id -- every expanded node of the input keeps its id
                    d = id_defect(dt, raw_result)
                    if d is not None:
                        bad("complete:input_node_identity_changed", detail=d, rep=rep)
                # the input object must still be what was handed in (trees are immutable values)
                if plain(rt.from_dt(dt)) != t:
                    bad("complete:input_object_modified", rep=rep)
                if viol:
                    break
                labels.append("grew" if rt.size(r) > size else "same_size")
        else:
            # expansion_to_children on every alternative
            for A, alts in g.items():
                for alt in alts:
                    st, kids = _timed(lambda: fz.expansion_to_children(alt))
                    if st != "ok":
                        if st == "raises":
                            bad("etc:raises:" + type(kids).__name__, alt=alt, detail=str(kids)[:300])
                        continue
                    ks = [as_tree(k_, "etc") for k_ in kids]
                    if any(k_ is None for k_ in ks):
                        continue
                    want = rt.split_alt(alt)
                    labs = [k_[0] for k_ in ks]
                    if not (labs == want or (not want and labs == [""])):
                        bad("etc:wrong_symbols", alt=alt, observed=labs)
                    for k_ in ks:
                        if rt.is_nt(k_[0]) and k_[1] is not None:
                            bad("etc:nonterminal_child_not_open", alt=alt, observed=ks)
                        if not rt.is_nt(k_[0]) and k_[1] != []:
                            bad("etc:terminal_child_not_closed_leaf", alt=alt, observed=ks)
            if opens:
                dt = rt.to_dt(t, with_ids=False)
                pyrandom.seed(case["rseed"])
                st, r = _timed(lambda: fz.expand_tree_once(dt), FUZZ_BUDGET)
                if st in ("timeout", "recursion"):
                    inconclusive = st
                elif st == "raises":
                    bad("once:raises:" + type(r).__name__, detail=str(r)[:300])
                else:
                    r = as_tree(r, "once")
                    if r is not None:
                        sample["result"] = _brief(r)
                        w = rt.why_invalid(cg, r, root, allow_open=True)
                        if w is not None:
                            bad("once:invalid_tree", detail=w, result=r)
                        d = prefix_defect(t, r)
                        if d is not None:
                            bad("once:input_part_changed", detail=d, result=r)
                        elif w is None:
                            done = [p for p in opens if rt.sub(r, p)[1] is not None]
                            if len(done) != 1:
                                bad("once:not_exactly_one_expansion", expanded=done, result=r)
                        if plain(rt.from_dt(dt)) != t:
                            bad("once:input_object_modified")
            else:
                nontrivial = False
        return {"labels": sorted(set(labels)), "nontrivial": nontrivial and not viol, "violations": viol,
                "inconclusive": inconclusive, "sample": sample}

    # ------------------------------------------------------------ mutate
    from isla.mutator import Mutator
    op = case["op"]
    labels.append("op:" + op)
    lone = not any(n[1] for _, n in rt.nodes(t))
    if lone:
        labels.append("lone_childless_root")
    st, mut = _timed(lambda: Mutator(g, min_mutations=case["min_mut"], max_mutations=case["max_mut"]))
    if st != "ok":
        if st == "raises":
            bad("mutate:ctor:raises:" + type(mut).__name__, detail=str(mut)[:300])
        else:
            inconclusive = st
        return {"labels": labels, "nontrivial": False, "violations": viol, "inconclusive": inconclusive}
    dt = rt.to_dt(t, with_ids=False)
    pyrandom.seed(case["rseed"])
    if op == "mutate":
        st, m = _timed(lambda: mut.mutate(dt))
    else:
        st, m = _timed(lambda: getattr(mut, OP_METHOD[op])(dt))
    nontrivial = False
    if st in ("timeout", "recursion"):
        inconclusive = st
        labels.append("mutate:" + st)
    elif st == "raises":
        bad("mutate:%s%s:raises:%s" % ("lone_childless_root:" if lone else "", op, type(m).__name__), detail=str(m)[:300])
    else:
        if op != "mutate":
            # Maybe[DerivationTree]: Some(tree) or Nothing
            if not hasattr(m, "value_or"):
                bad("mutate:%s:not_a_maybe" % op, observed=repr(m)[:200])
                m = None
            else:
                m = m.value_or(None)
                if m is None:
                    labels.append("result:nothing")
        if m is not None:
            m = as_tree(m, "mutate:" + op)
        if m is not None:
            sample["result"] = _brief(m)
            if m[0] != root:
                bad("mutate:%s:root_changed" % op, observed=m[0], result=m)
            elif rt.is_open(m):
                bad("mutate:%s:result_open" % op, result=m)
            else:
                w = rt.why_invalid(cg, m, root)
                if w is not None:
                    bad("mutate:%s:invalid_tree" % op, detail=w, result=m)
            if plain(rt.from_dt(dt)) != t:
                bad("mutate:%s:input_object_modified" % op)
            nontrivial = m != t
            labels.append("result:changed" if nontrivial else "result:same")
    return {"labels": sorted(set(labels)), "nontrivial": nontrivial and not viol, "violations": viol,
            "inconclusive": inconclusive, "sample": sample}


def health(stats, tier):
    c = stats["classes"]
    n = max(1, stats["evaluations"])
    if n < 300:
        return None
    inc = sum(stats["inconclusive"].values())
    if inc > 0.10 * n:
        return "more than 10%% of the cases inconclusive: %s" % stats["inconclusive"]
    for lab in ["kind:complete", "kind:once", "kind:mutate", "fuzzer:plain", "fuzzer:coverage", "op:mutate", "op:replace",
                "op:generalize", "op:swap", "eps_as_empty_leaf", "eps_as_no_children", "root:other", "result:changed"]:
        if c.get(lab, 0) < 0.01 * n:
            return "class %s nearly absent: %s of %s" % (lab, c.get(lab, 0), n)
    if stats["distinct_nontrivial"] < 0.25 * n:
        return "fewer than 25%% distinct non-trivial cases: %s of %s" % (stats["distinct_nontrivial"], n)
    return None
