"""C14 -- solver helpers that build trees to a target meet that target.

One ISLa call per case (the fixed-length DFS and the count completion search may not terminate;
the runner's SOFT watchdog turns that into `inconclusive`).  Modes:

  len         create_fixed_length_tree(nt | DerivationTree(nt), canonical(G), L)
  len_solver  ISLaSolver(G).safe_create_fixed_length_tree / extract_model_value("length" variable)
              with a Z3 model assigning L
  int         ISLaSolver(G).extract_model_value("int" variable) with a Z3 model assigning v
  count       isla_predicates.count(graph, partial tree, needle, DerivationTree(str(k)))

Oracle: a validity predicate over the returned tree, computed with vlib.rt only.  `None`, "not
ready", boolean verdicts of `count`, and the two documented RuntimeError refusals are no-claims.
"""
import os
import random
import hashlib
import json

from vlib import rt, gen, c14_lib
from vlib.gen import chance, pick

ID = "C14"
CASES = {"quick": 2000, "thorough": 60000}
SOFT = 6
HARD = 90
RULE = ("case = one call of a target-meeting builder: (a) create_fixed_length_tree(nonterminal, grammar, L in 0..14) on "
        "random acyclic grammars with nullable/recursive/multi-character-terminal rules and zoo grammars, directly and "
        "through ISLaSolver.safe_create_fixed_length_tree/extract_model_value with a Z3 model; (b) "
        "ISLaSolver.extract_model_value for an 'int' variable, integer v (zero, negative, large) on generated numeric "
        "grammars (signs, '+', zero padding, fixed width, near misses) ; (c) count(graph, partial tree, needle, k) on "
        "random partial trees with explicit ids.  Oracle = own tree validator + yield length / sign-aware numeral value "
        "/ needle count and harness reachability of open leaves.  non-trivial = a tree was returned; distinct by "
        "(mode, grammar, nonterminal, target, partial tree) hash")
ASSUMPTIONS = ["generated grammars have no unit/nullable cycles and <start> has one alternative (the zoo grammar 'eps' "
               "has a nullable cycle; non-termination there is inconclusive like everywhere else)",
               "None / 'not ready' / True / False results and the documented RuntimeError refusals "
               "('Could not create a tree ...', 'Could not parse a numeric solution ...') make no claim",
               "non-termination (watchdog) is inconclusive, other exceptions are counted, not violations",
               "retention of the partial tree's nodes by (id, label) in a count completion is taken from DESIGN C14 / "
               "the C13 contract of insert_tree, which count() is built on"]

# A None from create_fixed_length_tree makes no claim (brief/DESIGN).  With C14_STRICT_NONE=1 a None for a length the
# nonterminal CAN produce is reported when ISLa's one deliberate source of incompleteness (keeping a single random
# single-terminal alternative per leaf) cannot explain it.  Off by default; 0 such cases on the current tree.
STRICT_NONE = os.environ.get("C14_STRICT_NONE") == "1"

ID_BASE = 10 ** 9   # explicit node ids far away from DerivationTree.next_id


# ------------------------------------------------------------------------------ self test

def selftest():
    # anchors exist (and their import cost is paid once, before the workers fork)
    from isla.solver import create_fixed_length_tree, ISLaSolver   # noqa
    from isla.isla_predicates import count                           # noqa
    assert hasattr(ISLaSolver, "safe_create_fixed_length_tree") and hasattr(ISLaSolver, "extract_model_value")
    g = {"<start>": ["<a>"], "<a>": ["", "b<a>", "<c>"], "<c>": ["cc", "ccc"]}
    cg = rt.canon(g)
    S = c14_lib.length_set(cg, 6)
    lang = rt.enumerate_strings(cg, "<start>", 6)
    assert S["<start>"] == {len(s) for s in lang} == set(range(7)), S
    g2 = {"<start>": ["<a>"], "<a>": ["ab<a>", "ab"]}
    assert c14_lib.length_set(rt.canon(g2), 7)["<start>"] == {2, 4, 6}
    nv = c14_lib.numeral_value
    assert nv("+005") == 5 and nv("-005") == -5 and nv("0") == 0 and nv("-0") == 0 and nv("12") == 12
    assert nv("") is None and nv("1_0") is None and nv(" 1") is None and nv("+-1") is None and nv("1x") is None
    assert nv("123456789012345678901234567890") == 123456789012345678901234567890
    lang_g = gen.ZOO["lang"]
    lcg = rt.canon(lang_g)
    R = rt.reach(lcg)
    t = ["<start>", [["<stmt>", [["<assgn>", None, 1], [" ; ", [], 2], ["<stmt>", None, 3]], 4]], 5]
    assert c14_lib.count_label(t, "<assgn>") == 1
    assert c14_lib.open_leaves_reaching(R, t, "<assgn>") == [((0, 2), "<stmt>")]
    assert c14_lib.open_leaves_reaching(R, t, "<var>") == [((0, 0), "<assgn>"), ((0, 2), "<stmt>")]
    t2 = ["<start>", [["<stmt>", [["<assgn>", None, 1]], 4]], 5]
    assert c14_lib.open_leaves_reaching(R, t2, "<assgn>") == []      # <assgn> is not recursive
    assert rt.valid(lcg, t2, "<start>", allow_open=True) and not rt.valid(lcg, t2, "<start>")
    # the judge itself on hand-made outputs
    v = _check_len(lcg, "<rhs>", 1, ["<rhs>", [["<var>", [["a", [], 1]], 2]], 3])
    assert v == [], v
    assert _check_len(lcg, "<rhs>", 2, ["<rhs>", [["<var>", [["a", [], 1]], 2]], 3])[0]["sig"] == "len:wrong_length"
    assert _check_len(lcg, "<rhs>", 1, ["<rhs>", [["a", [], 1]], 3])[0]["sig"] == "len:invalid_tree"
    assert _check_len(lcg, "<rhs>", 0, ["<rhs>", [["<var>", None, 2]], 3])[0]["sig"] == "len:invalid_tree"
    part = ["<start>", [["<stmt>", None, 7]], 8]
    good = ["<start>", [["<stmt>", [["<assgn>", None, 1], [" ; ", [], 2], ["<stmt>", [["<assgn>", None, 9]], 3]], 7]], 8]
    assert _check_count(lcg, R, part, "<assgn>", 2, good) == []
    assert _check_count(lcg, R, part, "<assgn>", 3, good)[0]["sig"] == "count:wrong_number"
    bad = ["<start>", [["<stmt>", [["<assgn>", None, 1], [" ; ", [], 2]], 7]], 8]
    assert _check_count(lcg, R, part, "<assgn>", 1, bad)[0]["sig"] == "count:invalid_tree"
    t3 = ["<start>", [["<stmt>", [["<assgn>", None, 1], [" ; ", [], 2], ["<stmt>", None, 3]], 7]], 8]
    assert _check_count(lcg, R, part, "<assgn>", 1, t3)[0]["sig"] == "count:open_leaf_reaches_needle"
    t4 = ["<start>", [["<stmt>", [["<assgn>", None, 1]], 70]], 8]
    assert _check_count(lcg, R, part, "<assgn>", 1, t4)[0]["sig"] == "count:lost_node"


# ------------------------------------------------------------------------------ generation

NUM_ALPHA = ["0", "1", "9", "-", "+", "00", "12", "5", "7", "a"]


def _grammar(rnd):
    k = rnd.randint(0, 9)
    if k <= 5:
        return gen.acyclic_grammar(rnd, max_nts=5)
    if k == 6:
        return gen.acyclic_grammar(rnd, max_nts=4, alphabet=["a", "b", "ab", "abc", "c", "(", ")"])
    return dict(gen.ZOO[pick(rnd, sorted(gen.ZOO))])


def _cut_some(rnd, t, p, R):
    """open at least one nonterminal node of the closed tree t (ids kept), preferably one that can still derive
    other nonterminals; the root only if nothing else can be opened"""
    inner = [pth for pth, n in rt.nodes(t) if pth and rt.is_nt(n[0])]
    if not inner or chance(rnd, 0.05):
        return [t[0], None, t[2]]
    rich = [pth for pth in inner if R[rt.sub(t, pth)[0]]]
    forced = pick(rnd, rich if rich and chance(rnd, 0.8) else inner)

    def go(n, pth):
        if pth and rt.is_nt(n[0]) and (pth == forced or chance(rnd, p)):
            return [n[0], None, n[2]]
        return [n[0], [go(c, pth + (i,)) for i, c in enumerate(n[1])], n[2]]

    return go(t, ())


def generate(rnd, tier):
    m = rnd.randint(0, 19)   # len 35 %, len_solver 10 %, int 25 %, count 30 %
    rseed = rnd.randint(0, 10 ** 6)
    if m >= 18:
        m = 12  # more of the int mode (histories on one solver object need the case count)
    if m <= 8:
        m = min(m, 7)
    if m <= 9:
        g = _grammar(rnd)
        cg = rt.canon(g)
        nts = list(g)
        A = pick(rnd, nts)
        if chance(rnd, 0.6):
            # a length that is certainly achievable: the yield length of a random tree
            L = len(rt.tyield(gen.tree(rnd, cg, A, rnd.randint(0, 4))))
            if L > 14:
                L = rnd.randint(0, 14)
        else:
            L = rnd.randint(0, 14)
        if m <= 7:
            return {"mode": "len", "grammar": g, "nt": A, "L": L, "as_tree": chance(rnd, 0.25), "rseed": rseed}
        if chance(rnd, 0.1):
            L = -rnd.randint(1, 3)
        return {"mode": "len_solver", "grammar": g, "nt": A, "L": L, "via": pick(rnd, ["safe", "extract"]), "rseed": rseed}
    if m <= 12:
        if chance(rnd, 0.8):
            g, A = c14_lib.numeric_grammar(rnd)
        else:
            g = gen.acyclic_grammar(rnd, max_nts=4, alphabet=NUM_ALPHA)
            A = pick(rnd, list(g))
        v = c14_lib.int_value(rnd)
        if chance(rnd, 0.65):
            # a value the type can certainly spell: read it off the yield of a random tree
            cg = rt.canon(g)
            w = c14_lib.numeral_value(rt.tyield(gen.tree(rnd, cg, A, rnd.randint(1, 6))))
            if w is not None:
                v = -w if rnd.randint(0, 2) == 0 else w
        case = {"mode": "int", "grammar": g, "nt": A, "v": v, "rseed": rseed}
        if chance(rnd, 0.7):
            # a short history on ONE solver object: further values of other digit counts for the same type
            # (per-solver caches must not make a later result depend on an earlier one)
            cg = rt.canon(g)
            more = []
            for _ in range(rnd.randint(1, 2)):
                w = c14_lib.numeral_value(rt.tyield(gen.tree(rnd, cg, A, rnd.randint(1, 6))))
                if w is not None:
                    more.append(-w if rnd.randint(0, 3) == 0 else w)
            case["more"] = more
        return case
    # count
    g = _grammar(rnd)
    cg = rt.canon(g)
    md = rt.min_depths(cg)
    nts = list(g)
    R = rt.reach(cg)
    branching = [x for x in nts if R[x]]
    root = pick(rnd, branching if branching and chance(rnd, 0.85) else nts)
    t = gen.with_ids(gen.tree(rnd, cg, root, rnd.randint(1, 4), md), ID_BASE)
    t = _cut_some(rnd, t, 0.6 * rnd.random(), R)
    opens = [n[0] for _, n in rt.nodes(t) if n[1] is None]
    cand = sorted({x for o in opens for x in R[o]})
    if cand and chance(rnd, 0.85):
        needle = pick(rnd, cand)
    else:
        needle = pick(rnd, nts)
    have = c14_lib.count_label(t, needle)
    k = have + pick(rnd, [1, 1, 2, 2, 3, 0, 4])
    return {"mode": "count", "grammar": g, "tree": t, "needle": needle, "k": k, "rseed": rseed}


# ------------------------------------------------------------------------------ oracles

def _check_len(cg, A, L, t):
    why = rt.why_invalid(cg, t, A)
    if why is not None:
        return [dict(sig="len:invalid_tree", detail=why, tree=t)]
    s = rt.tyield(t)
    if len(s) != L:
        return [dict(sig="len:wrong_length", expected=L, observed=len(s), string=s, tree=t)]
    return []


def _check_int(cg, A, v, t):
    why = rt.why_invalid(cg, t, A)
    if why is not None:
        return [dict(sig="int:invalid_tree", detail=why, tree=t)]
    s = rt.tyield(t)
    got = c14_lib.numeral_value(s)
    if got is None:
        return [dict(sig="int:not_a_numeral", string=s, expected=v)]
    if got != v:
        return [dict(sig="int:wrong_value", string=s, expected=v, observed=got)]
    return []


def _check_count(cg, R, part, needle, k, t):
    why = rt.why_invalid(cg, t, part[0], allow_open=True)
    if why is not None:
        return [dict(sig="count:invalid_tree", detail=why, tree=t)]
    out = []
    n = c14_lib.count_label(t, needle)
    if n != k:
        out.append(dict(sig="count:wrong_number", expected=k, observed=n, tree=t))
    opens = c14_lib.open_leaves_reaching(R, t, needle)
    if opens:
        out.append(dict(sig="count:open_leaf_reaches_needle", leaves=[[list(p), l] for p, l in opens[:5]], tree=t))
    have = {}
    for _, nd in rt.nodes(t):
        have.setdefault(nd[2], []).append(nd[0])
    lost = [[nd[2], nd[0]] for _, nd in rt.nodes(part) if nd[0] not in have.get(nd[2], ())]
    if lost:
        out.append(dict(sig="count:lost_node", lost=lost[:5], tree=t))
    else:
        # a node of the partial tree that was already expanded keeps its expansion
        byid = {nd[2]: nd for _, nd in rt.nodes(t)}
        for _, nd in rt.nodes(part):
            if nd[1] is not None and rt.is_nt(nd[0]):
                new = byid[nd[2]]
                if new[1] is None or [c[0] for c in new[1]] != [c[0] for c in nd[1]]:
                    out.append(dict(sig="count:expansion_changed", node=[nd[2], nd[0]], tree=t))
                    break
    return out


def _model(name, v):
    import z3
    x = z3.Int(name)
    s = z3.Solver()
    s.add(x >= v, x <= v)     # (z3's == is patched to structural equality by isla.language)
    if s.check() != z3.sat:
        return None, None
    return x, s.model()


def _exc_label(e):
    import traceback
    tb = traceback.extract_tb(e.__traceback__)
    return "exc:%s@%s" % (type(e).__name__, tb[-1].name if tb else "?")


def _key(*parts):
    return hashlib.sha1(json.dumps(parts, sort_keys=True, default=str).encode()).hexdigest()[:16]


# ------------------------------------------------------------------------------ judge

def _rearm_watchdog():
    """The runner's watchdog is a one-shot SIGALRM.  When it fires inside a __del__ or a gc callback (the DFS under
    test allocates a lot), Python prints and swallows the exception and the call would run on unguarded.  Give the
    pending timer a 1 s repeat interval so that the timeout is raised again; the runner disarms it on exit."""
    import signal
    if callable(signal.getsignal(signal.SIGALRM)):
        remaining, _ = signal.getitimer(signal.ITIMER_REAL)
        if remaining > 0:
            signal.setitimer(signal.ITIMER_REAL, remaining, 1.0)


def judge(case):
    _rearm_watchdog()
    mode = case["mode"]
    g = case["grammar"]
    cg = rt.canon(g)
    labels = [mode]
    res = {"labels": labels, "nontrivial": False, "violations": [], "inconclusive": None}
    if rt.nullable(cg):
        labels.append("has_nullable")
    if any(len(s) > 1 for alts in cg.values() for a in alts for s in a if not rt.is_nt(s)):
        labels.append("multichar_terminal")

    if mode in ("len", "len_solver"):
        return _judge_len(case, cg, res)
    if mode == "int":
        return _judge_int(case, cg, res)
    if mode == "count":
        return _judge_count(case, cg, res)
    raise ValueError("unknown mode %r" % (mode,))


def _judge_len(case, cg, res):
    from isla.solver import create_fixed_length_tree, ISLaSolver
    from isla.helpers import canonical
    from isla.derivation_tree import DerivationTree
    from isla import language
    labels = res["labels"]
    g, A, L = case["grammar"], case["nt"], case["L"]
    res["key"] = _key("len", g, A, L)
    S = c14_lib.length_set(cg, max(L, 0))
    exists = L in S[A]
    labels.append("len_exists" if exists else "len_impossible")
    R = rt.reach(cg)
    if A in R[A] or any(x in R[x] for x in R[A]):
        labels.append("recursive")
    refused = False
    if case["mode"] == "len":
        start = DerivationTree(A, None) if case.get("as_tree") else A
        cang = canonical(g)
        random.seed(case["rseed"])
        try:
            r = create_fixed_length_tree(start, cang, L)
        except Exception as e:
            labels.append(_exc_label(e))
            res["inconclusive"] = "exception"
            return res
    else:
        x, model = _model("x_0", L)
        try:
            solver = ISLaSolver(g)
        except Exception as e:
            labels.append("ctor_" + _exc_label(e))
            res["inconclusive"] = "ctor_error"
            return res
        var = language.Variable("x", A)
        random.seed(case["rseed"])
        try:
            if case.get("via") == "safe":
                r = solver.safe_create_fixed_length_tree(var, model, {var: x})
            else:
                r = solver.extract_model_value(var, model, {var: x}, {var}, set())
        except RuntimeError as e:
            if str(e).startswith("Could not create a tree with the start symbol"):
                r = None
                refused = True
            else:
                labels.append(_exc_label(e))
                res["inconclusive"] = "exception"
                return res
        except Exception as e:
            labels.append(_exc_label(e))
            res["inconclusive"] = "exception"
            return res
        if r is None and not refused:
            res["violations"].append(dict(sig="len_solver:returned_none", detail="documented to raise RuntimeError"))
            return res
    if r is None:
        labels.append("none")
        if exists:
            # incompleteness; the property makes no claim.  ISLa keeps only one randomly chosen single-terminal
            # alternative per expanded leaf, which explains a None when such alternatives differ in length.
            labels.append("none_but_length_exists")
            multi = any(len({len(a[0]) for a in cg[x] if len(a) == 1 and not rt.is_nt(a[0])}) > 1
                        for x in {A} | R[A])
            if not multi:
                labels.append("none_unexplained")
                if STRICT_NONE:
                    res["violations"].append(dict(sig="len:none_for_achievable_length", nt=A, L=L))
        return res
    t = rt.from_dt(r)
    labels += ["tree", case["mode"] + ":tree"]
    labels.append("L=0" if L == 0 else ("L<=4" if L <= 4 else "L>4"))
    res["nontrivial"] = True
    res["violations"] = [dict(v, mode=case["mode"]) for v in _check_len(cg, A, L, t)]
    if not res["violations"] and not exists:
        raise AssertionError("harness: valid tree of length %d but length oracle says impossible" % L)
    res["sample"] = {"mode": case["mode"], "grammar": g, "nt": A, "L": L, "string": rt.tyield(t)}
    return res


def _judge_int(case, cg, res):
    from isla.solver import ISLaSolver
    from isla import language
    labels = res["labels"]
    g, A, v = case["grammar"], case["nt"], case["v"]
    res["key"] = _key("int", g, A, v)
    labels.append("v=0" if v == 0 else ("v<0" if v < 0 else "v>0"))
    if abs(v) >= 2 ** 63:
        labels.append("v_big")
    x, model = _model("i_0", v)
    try:
        solver = ISLaSolver(g)
    except Exception as e:
        labels.append("ctor_" + _exc_label(e))
        res["inconclusive"] = "ctor_error"
        return res
    var = language.Variable("i", A)
    random.seed(case["rseed"])
    try:
        r = solver.extract_model_value(var, model, {var: x}, set(), {var})
    except RuntimeError as e:
        if str(e).startswith("Could not parse a numeric solution"):
            labels.append("refused")
            if rt.member(cg, A, str(v)):
                labels.append("refused_but_plain_numeral_is_member")
            return res
        labels.append(_exc_label(e))
        res["inconclusive"] = "exception"
        return res
    except Exception as e:
        labels.append(_exc_label(e))
        res["inconclusive"] = "exception"
        return res
    if r is None:
        labels.append("none")
        return res
    t = rt.from_dt(r)
    s = rt.tyield(t)
    labels += ["tree", "int:tree"]
    labels.append("plain" if s == str(v) else "reformatted")
    res["nontrivial"] = True
    res["violations"] = _check_int(cg, A, v, t)
    res["sample"] = {"mode": "int", "grammar": g, "nt": A, "v": v, "string": s}
    # history: the same solver object is asked for further values; each answer must be what a fresh solver gives
    for j, w in enumerate(case.get("more") or []):
        if res["violations"]:
            break
        labels.append("int:history")
        xw, mw = _model("i_0", w)

        def ask(sv):
            try:
                return ("tree", sv.extract_model_value(var, mw, {var: xw}, set(), {var}))
            except RuntimeError as e:
                if str(e).startswith("Could not parse a numeric solution"):
                    return ("refused", None)
                return ("raises:" + type(e).__name__, None)
            except Exception as e:
                from vlib.runner import reraise_if_timeout
                reraise_if_timeout(e)
                return ("raises:" + type(e).__name__, None)

        same = ask(solver)
        if same[0] == "tree":
            res["violations"] += _check_int(cg, A, w, rt.from_dt(same[1]))
            continue
        fresh = ask(ISLaSolver(g))  # only needed when the used solver did not answer with a tree
        if fresh[0] == "tree":
            res["violations"].append({"sig": "int:history_dependent:%s" % same[0], "grammar": g, "nt": A, "values": [v] + list(case["more"][:j + 1]),
                                      "fresh_solver_gives": rt.tyield(rt.from_dt(fresh[1]))})
    return res


def _judge_count(case, cg, res):
    from isla.isla_predicates import count
    from isla.derivation_tree import DerivationTree
    import grammar_graph.gg as gg
    labels = res["labels"]
    g, part, needle, k = case["grammar"], case["tree"], case["needle"], case["k"]
    res["key"] = _key("count", g, rt.strip_ids(part), needle, k)
    R = rt.reach(cg)
    have = c14_lib.count_label(part, needle)
    labels.append("k-have=%d" % min(k - have, 3))
    if not c14_lib.open_leaves_reaching(R, part, needle):
        labels.append("needle_unreachable")
    graph = gg.GrammarGraph.from_grammar(g)
    dt = rt.to_dt(part)
    random.seed(case["rseed"])
    try:
        out = count(graph, dt, needle, DerivationTree(str(k), None))
    except Exception as e:
        labels.append(_exc_label(e))
        res["inconclusive"] = "exception"
        return res
    r = out.result
    if not isinstance(r, dict):
        labels.append("verdict:%s" % ("not_ready" if r is None else r))
        return res
    if len(r) != 1:
        res["violations"].append(dict(sig="count:result_shape", detail="%d bindings" % len(r)))
        return res
    (key, val), = r.items()
    if key is not dt:
        res["violations"].append(dict(sig="count:result_shape", detail="key is not the given tree"))
        return res
    t = rt.from_dt(val)
    labels += ["tree", "count:tree"]
    labels.append("open_result" if rt.is_open(t) else "closed_result")
    res["nontrivial"] = True
    res["violations"] = _check_count(cg, R, part, needle, k, t)
    res["sample"] = {"mode": "count", "grammar": g, "partial": str(rt.strip_ids(part))[:400], "needle": needle, "k": k,
                     "result_nodes": rt.size(t)}
    return res


def health(stats, tier):
    c = stats["classes"]
    n = max(1, stats["evaluations"])
    if n < 400:
        return None
    for mode, floor in (("len", 0.10), ("len_solver", 0.02), ("int", 0.05), ("count", 0.03)):
        if c.get(mode + ":tree", 0) < floor * n:
            return "mode %s returned a tree in fewer than %.0f%% of all cases: %s" % (mode, 100 * floor, c)
    if c.get("tree", 0) < 0.25 * n:
        return "fewer than 25%% of the cases returned a tree: %s" % c
    return None
