"""C06 -- three-valued verdicts on partial trees never contradict a completion."""
from vlib import rt, gen, fml
from vlib.gen import chance, pick
from props import c03_evaluate as c03

ID = "C06"
CASES = {"quick": 2500, "thorough": 100000}
SOFT = 40
HARD = 240
RULE = ("case = (grammar, closed tree T with explicit node ids, cut set, constraint, completions); P = T with the chosen "
        "subtrees cut back to open leaves (all surviving nodes keep their ids); completions = T itself plus 5 trees "
        "obtained by filling P's open leaves with harness-generated subtrees; constraint from the C03 generator (numeric "
        "quantifiers in 20% of the cases), biased towards quantifiers over types reachable from an open leaf, plus templates: match-expression "
        "instance cut inside the matched region, nth after an open leaf, witness in the closed part, count of a recursive needle on a prefix "
        "whose open leaves carry the needle's label; oracle: if "
        "evaluate(constraint, P) is TRUE or FALSE then the reference semantics gives every completion the same verdict "
        "(UNKNOWN is always allowed; an exception is recorded as inconclusive); non-trivial = P has an open leaf, the verdict is definite "
        "and the constraint quantifies over a type reachable from an open leaf; distinct by case hash")
ASSUMPTIONS = ["completions are sampled (6 per prefix), not enumerated",
               "constraints whose reference verdict is not judged strictly (ambiguous match expressions, nth/level corner cases) are skipped",
               "narrow grammars only (< 28 children per node)"]

N_COMPLETIONS = 5


def selftest():
    c03.selftest()
    g = gen.ZOO["lang"]
    cg = rt.canon(g)
    import random
    rnd = random.Random(1)
    t = rt.assign_ids(gen.tree(rnd, cg, "<start>", 5))[0]
    p = gen.cut(rnd, t, 0.5)
    c = gen.complete(rnd, cg, p)
    assert rt.valid(cg, c, "<start>") and not rt.is_open(c)
    # every expanded node of p is found at the same path in c with the same label and id
    for path, n in rt.nodes(p):
        m = rt.sub(c, path)
        assert m[0] == n[0] and (n[1] is None or m[2] == n[2])


def _pt_depth(pt):
    return 0 if not pt[1] else 1 + max(_pt_depth(c) for c in pt[1])


def mexpr_instance_case(rnd, g, cg, md, name):
    """A tree that contains an *instance of a deep match expression* with an open leaf cut INSIDE the region the
    match expression constrains: whether the quantifier matches then depends on how the leaf is expanded, on one
    or several levels of a (possibly recursive) nonterminal.  Returns a case dict or None."""
    R = rt.reach(cg)
    inner = [k for k in cg if k != "<start>" and any(rt.is_nt(x) for a in cg[k] for x in a)]
    if not inner:
        return None
    rec = [k for k in inner if k in R[k]]
    fg = fml.FGen(rnd, cg, {}, dict(mexpr_depth=rnd.randint(3, 5)))
    for _ in range(8):
        T = pick(rnd, rec) if rec and chance(rnd, 0.7) else pick(rnd, inner)
        pt = fg.rand_prefix(T, fg.o["mexpr_depth"])
        if _pt_depth(pt) < 2:
            continue
        mx, binds = fg.prefix_to_mexpr(pt)
        if not mx or not binds or any(e[0] == "text" and not set(e[1]) <= fml.SAFE_MEXPR_CHARS for e in mx):
            continue
        if len(fml.abstract_parses(cg, T, fml.mexpr_word(mx), cap=3)) != 1:
            continue

        def fill(n):
            if n[1] is None:
                return gen.tree(rnd, cg, n[0], rnd.randint(1, 3), md)
            return [n[0], [fill(c) for c in n[1]]]

        inst = fill(pt)
        host = gen.tree(rnd, cg, "<start>", rnd.randint(2, 5), md, bias=0.85)
        spots = [p for p, n in rt.nodes(host) if n[0] == T]
        if not spots:
            continue
        at = pick(rnd, spots)
        Tfull = rt.assign_ids(rt.replace(host, at, inst))[0]
        # cut inside the instance where the match-expression tree has structure (inner nonterminal nodes)
        inner_paths = [p for p, n in rt.nodes(list(pt) if False else pt) if p and rt.is_nt(n[0]) and n[1]]
        if not inner_paths:
            continue
        cp = pick(rnd, inner_paths)
        node = rt.sub(Tfull, tuple(at) + tuple(cp))
        P = rt.replace(Tfull, tuple(at) + tuple(cp), [node[0], None, node[2]])
        if chance(rnd, 0.3):
            P = gen.cut(rnd, P, 0.1)
        comps = [gen.complete(rnd, cg, P, depth=rnd.randint(1, 4), md=md) for _ in range(N_COMPLETIONS)]
        lits = fml.sample_lits(cg, [Tfull] + comps)
        fg2 = fml.FGen(rnd, cg, lits)
        fg2.cnt = 50
        body = fg2.atom(binds)
        if len(binds) >= 2 and chance(rnd, 0.5):
            body = ["smt", ["=", ["var", binds[0][0]], ["var", binds[1][0]]]]
        if chance(rnd, 0.5):
            body = ["not", body]
        f = [pick(rnd, ["forall", "exists"]), T, "q1", "start", mx, body]
        if chance(rnd, 0.25):
            f = ["not", f]
        return {"grammar": g, "gname": name, "tree": Tfull, "prefix": P, "completions": comps, "formula": f, "template": "mexpr_instance"}
    return None


def count_recursive_needle_case(rnd, g, cg, md, name):
    """count(start, "<N>", "k") for a recursive <N> on a prefix whose open leaves are all labelled <N>: an open <N>
    leaf is one occurrence now and any number of occurrences later, so only 'already too many' is definite"""
    R = rt.reach(cg)
    rec = sorted(k for k in cg if k != "<start>" and k in R.get(k, set()))
    if not rec:
        return None
    N = pick(rnd, rec)
    T = None
    for _ in range(4):
        c = gen.tree(rnd, cg, "<start>", rnd.randint(3, 7), md, bias=0.9)
        if sum(1 for _, n in rt.nodes(c) if n[0] == N) >= 2 and rt.size(c) <= 90:
            T = c
            break
    if T is None:
        return None
    T = rt.assign_ids(T)[0]
    cands = [p for p, n in rt.nodes(T) if p and n[0] == N and n[1]]
    if not cands:
        return None
    P = T
    for p in sorted(rnd.sample(cands, min(len(cands), rnd.randint(1, 2))), key=len, reverse=True):
        try:
            n = rt.sub(P, p)
        except Exception:
            continue
        if n is not None and n[0] == N and n[1]:
            P = rt.replace(P, p, [n[0], None, n[2]])
    if not rt.is_open(P):
        return None
    have = sum(1 for _, n in rt.nodes(P) if n[0] == N)
    k = max(0, have + pick(rnd, [-1, 0, 0, 1, 1, 2]))
    f = ["count", "start", N, ["s", str(k)]]
    if chance(rnd, 0.3):
        f = ["not", f]
    comps = [gen.complete(rnd, cg, P, depth=rnd.randint(1, 5), md=md) for _ in range(N_COMPLETIONS)]
    return {"grammar": g, "gname": name, "tree": T, "prefix": P, "completions": comps, "formula": f, "template": "count_recursive_needle"}


def generate(rnd, tier):
    r = rnd.random()
    if r > 0.4:
        name = pick(rnd, ["lang", "blk", "eps", "csv", "xml", "rec", "int", "lang", "xml"])
        g = gen.ZOO[name]
    else:
        name = "random"
        g = gen.grammar(rnd, max_nts=5, alphabet=c03.ALPHA)
    cg = rt.canon(g)
    md = rt.min_depths(cg)
    if chance(rnd, 0.25):
        case = mexpr_instance_case(rnd, g, cg, md, name)
        if case is not None:
            return case
    if chance(rnd, 0.08):
        case = count_recursive_needle_case(rnd, g, cg, md, name)
        if case is not None:
            return case
    T = None
    for _ in range(3):
        c = gen.tree(rnd, cg, "<start>", rnd.randint(2, 6), md, bias=0.85)
        if T is None or rt.size(T) < rt.size(c) <= 70:
            T = c
    T = rt.assign_ids(T)[0]
    P = gen.cut(rnd, T, pick(rnd, [0.0, 0.05, 0.15, 0.3]))
    if not rt.is_open(P):
        # force one cut: the deepest-first nonterminal node that is not the root
        cands = [p for p, n in rt.nodes(T) if p and rt.is_nt(n[0]) and n[1]]
        if cands:
            p = pick(rnd, cands)
            n = rt.sub(T, p)
            P = rt.replace(T, p, [n[0], None, n[2]])
    comps = [gen.complete(rnd, cg, P, depth=rnd.randint(1, 4), md=md) for _ in range(N_COMPLETIONS)]
    trees = [T] + comps
    lits = fml.sample_lits(cg, trees)
    fg = fml.FGen(rnd, cg, lits, dict(numq=(0.9 if chance(rnd, 0.2) else 0.0), unused=0.03, count=chance(rnd, 0.25), mexpr=0.5, p_forall=pick(rnd, [0.2, 0.35, 0.5]), mexpr_depth=pick(rnd, [2, 2, 3, 4, 5]),
                                      connectives=("and", "or", "not", "implies", "iff", "xor")[:rnd.randint(3, 6)]))
    f = fg.formula([("start", "<start>")], rnd.randint(1, 3))
    if chance(rnd, 0.2):
        # position-sensitive template: a closed node that comes after an open leaf, addressed by its
        # occurrence index -- definite on the prefix, but the index shifts when the leaf is expanded
        order = list(rt.nodes(P))
        first_open = next((i for i, (_, n) in enumerate(order) if n[1] is None), None)
        cands = [(i, p, n) for i, (p, n) in enumerate(order) if first_open is not None and i > first_open and rt.is_nt(n[0])
                 and n[1] and not rt.is_open(n) and n[0] != "<start>"]
        if cands:
            _, p, n = pick(rnd, cands)
            k = 1 + sum(1 for q, m in order if m[0] == n[0] and q < p and not (p[:len(q)] == q))
            k = 1 + sum(1 for q, m in order[:[x[0] for x in order].index(p)] if m[0] == n[0])
            body = ["and", ["pred", "nth", ["s", str(k)], ["v", "w1"], ["v", "start"]],
                    ["smt", ["=", ["var", "w1"], ["str", rt.tyield(n)]]]]
            f = ["exists", n[0], "w1", "start", None, body]
            if chance(rnd, 0.3):
                f = ["not", f]
    elif chance(rnd, 0.25):
        # witness template: an existential over a type the open leaves can still produce, with a witness in
        # the closed part (definite TRUE), combined with a random formula
        closed = [(p, n) for p, n in rt.nodes(P) if rt.is_nt(n[0]) and n[1] and not rt.is_open(n) and n[0] != "<start>"]
        if closed:
            p, n = pick(rnd, closed)
            w = ["exists", n[0], "w1", "start", None, ["smt", ["=", ["var", "w1"], ["str", rt.tyield(n)]]]]
            if chance(rnd, 0.3):
                w = ["not", w]
            f = [pick(rnd, ["and", "or"]), w, f] if chance(rnd, 0.6) else w
    return {"grammar": g, "gname": name, "tree": T, "prefix": P, "completions": comps, "formula": f}


def judge(case):
    from isla.evaluator import evaluate
    from isla.language import parse_isla
    from isla.isla_predicates import STANDARD_STRUCTURAL_PREDICATES as SP, STANDARD_SEMANTIC_PREDICATES as MP
    g, T, P, f = case["grammar"], case["tree"], case["prefix"], case["formula"]
    cg = rt.canon(g)
    text = fml.pr(f)
    labels = []
    open_labels = {n[0] for _, n in rt.nodes(P) if n[1] is None}
    if not open_labels:
        return {"labels": ["closed_prefix"], "nontrivial": False, "violations": [], "inconclusive": None}
    R = rt.reach(cg)
    qtypes = {x[1] for x in fml.walk(f) if x[0] in ("forall", "exists")}
    relevant = any(q in open_labels or q in R.get(o, set()) for q in qtypes for o in open_labels)
    labels.append("relevant_quantifier" if relevant else "no_relevant_quantifier")
    if case.get("template"):
        labels.append("template:" + case["template"])
    if any(x[0] == "count" for x in fml.walk(f)):
        labels.append("count")
    has_numq = any(x[0] in ("forallint", "existsint") for x in fml.walk(f))
    labels.append("strategy:qe" if has_numq else "strategy:legacy")
    if any(x[0] in ("forall", "exists") and x[4] is not None for x in fml.walk(f)):
        labels.append("mexpr")
    try:
        pf = parse_isla(text, g, SP, MP)
    except Exception as e:
        return {"labels": labels + ["parse_rejected"], "nontrivial": False, "violations": [], "inconclusive": "parse_rejected"}
    dtP = rt.to_dt(P)
    try:
        r = evaluate(pf, dtP, g, SP, MP)
        v = True if r.is_true() else False if r.is_false() else None
    except Exception as e:
        # the property speaks about verdicts on open trees, not about exceptions (C03 covers "never raises"
        # for closed trees); seen: insert_tree's internal assertion below count() -- C13's business
        return {"labels": labels + ["raises:" + type(e).__name__], "nontrivial": False, "violations": [],
                "inconclusive": "raises:" + type(e).__name__}
    if v is None:
        # precision statistic only: do all sampled completions agree?
        try:
            vs = {fml.sat(cg, c, f)[0] for c in [T] + case["completions"]}
            labels.append("unknown_completions_agree" if len(vs) == 1 else "unknown_completions_differ")
        except fml.Undecided:
            pass
        return {"labels": labels + ["UNKNOWN"], "nontrivial": False, "violations": [], "inconclusive": None}
    labels.append("definite_true" if v else "definite_false")
    viol = []
    for i, c in enumerate([T] + case["completions"]):
        try:
            e, flags, _ = fml.sat(cg, c, f)
        except fml.Undecided:
            continue
        if flags:
            labels.append("completion_not_judged")
            continue
        if has_numq:
            # verdicts that hinge on the reading of numeric quantifiers (numerals only vs. all strings: open finding
            # numq-all-strings, filed under C03) are not judged here
            try:
                if fml.sat(cg, c, f, numq_all_ints=True)[0] != e or fml.sat(cg, c, f, numq_min=1)[0] != e:
                    labels.append("completion_not_judged")
                    continue
            except fml.Undecided:
                continue
        if e != v:
            root = "numq:" if has_numq else "nth:" if any(x[0] == "pred" and x[1] == "nth" for x in fml.walk(f)) else ""
            if not root and count_needle_on_open_leaf(P, f):
                # the open finding makes count answer False (never True) on such prefixes: where the constraint is a
                # bare (negated) count atom only that direction is explained by it
                bare_pos, bare_neg = f[0] == "count", f[0] == "not" and f[1][0] == "count"
                if not (bare_pos and v is True) and not (bare_neg and v is False):
                    root = "count_needle_labelled_open_leaf:"
            if not root and mexpr_below_open_leaf(cg, P, f):
                root = "mexpr_structure_below_open_leaf:"
            viol.append({"sig": "definite_verdict_contradicted:%s%s" % (root, "true_but_completion_false" if v else "false_but_completion_true"),
                         "text": text, "prefix": _show(P), "completion": rt.tyield(c), "completion_index": i,
                         "verdict_on_prefix": v, "reference_on_completion": e})
            break
    return {"labels": labels, "nontrivial": relevant, "violations": viol, "inconclusive": None,
            "sample": {"constraint": text, "prefix": _show(P), "verdict": v}}


def count_needle_on_open_leaf(P, f):
    """the constraint has count(.., "<N>", literal) and the prefix has an open leaf labelled <N> (open finding: the
    count predicate cannot close such a leaf without 'another' needle, gives up and answers False)"""
    needles = {x[2] for x in fml.walk(f) if x[0] == "count" and x[3][0] == "s"}
    return any(n[1] is None and n[0] in needles for _, n in rt.nodes(P))


def _through_open(n, mt):
    """n (prefix node) and mt (match-expression tree) agree wherever both are expanded and n has an open
    leaf at a position where mt is expanded further: a match may arise only by expanding that leaf."""
    if n[0] != mt[0]:
        return None  # mismatch
    if n[1] is None:
        return bool(mt[1])  # open leaf; mt continues below it?
    if not mt[1]:
        return False
    if len(n[1]) != len(mt[1]):
        return None
    found = False
    for a, b in zip(n[1], mt[1]):
        r = _through_open(a, b)
        if r is None:
            return None
        found = found or r
    return found


def mexpr_below_open_leaf(cg, P, f):
    ref = fml.Ref(cg, P)
    for x in fml.walk(f):
        if x[0] in ("forall", "exists") and x[4] is not None:
            for mt, _ in ref.mexpr_trees(x[1], x[4]):
                for _, n in rt.nodes(P):
                    if n[0] == x[1] and _through_open(n, mt):
                        return True
    return False


def _show(t):
    if t[1] is None:
        return t[0]
    if not t[1]:
        return t[0] if not rt.is_nt(t[0]) else ""
    return "".join(_show(c) for c in t[1])


def health(stats, tier):
    c = stats["classes"]
    n = max(1, stats["evaluations"])
    d = c.get("definite_true", 0) + c.get("definite_false", 0)
    if d < 0.1 * n:
        return "definite verdicts in only %d of %d cases" % (d, n)
    return None
