"""C02 -- solve() returns a tree or raises StopIteration/TimeoutError, and stays so.

Same engine and configurations as C01 (props/c01_solver.py); this module judges the *history* of calls.
"""
from vlib import rt, fml, solvergen
from vlib.gen import chance, pick
from props import c01_solver as c01

ID = "C02"
CASES = {"quick": 200, "thorough": 6000}
SOFT = c01.SOFT
HARD = c01.HARD
RULE = ("case = solver configuration as in C01 (grammar, template constraint over tree quantifiers / structural "
        "predicates / count / SMT string+integer atoms incl. prefixof, suffixof, contains, mod, arithmetic; all "
        "setting bits; rseed), plus an operator-coverage family that puts every SMT-LIB operator of ISLa's lexer into a "
        "constraint; solve() is called up to 10 times and, after the first StopIteration/TimeoutError, 3 more times; "
        "oracle over the history: every call returns a tree or raises StopIteration/TimeoutError, nothing else; after "
        "the first StopIteration (TimeoutError) every later call raises StopIteration (TimeoutError) again; "
        "non-trivial = at least two solve() calls were made and the constraint contains an SMT or predicate atom; "
        "distinct by case hash")
ASSUMPTIONS = ["exceptions from the ISLaSolver constructor are recorded (class ctor_error) but not judged: the property speaks about solve()",
               "RuntimeError('Could not create a tree with the start symbol ... of length ...') / ('Could not parse a numeric solution ...') with optimized Z3 queries enabled is the documented refusal of that mode (its message tells the user to switch the mode off) and is recorded as class documented_refusal, not judged",
               "'never raises' cannot be established by search: the claim is 'did not on the configurations generated'"]

# operator coverage: (name, atom builder over a string variable v of a given type)
OPS = [
    ("div", lambda v, s: ["=", ["div", ["str.len", ["var", v]], ["int", 2]], ["int", 1]]),
    ("mod", lambda v, s: ["=", ["mod", ["str.len", ["var", v]], ["int", 2]], ["int", 0]]),
    ("str.prefixof", lambda v, s: ["str.prefixof", ["str", s[:1]], ["var", v]]),
    ("str.suffixof", lambda v, s: ["str.suffixof", ["str", s[-1:]], ["var", v]]),
    ("str.contains", lambda v, s: ["str.contains", ["var", v], ["str", s[:1]]]),
    ("str.++", lambda v, s: ["=", ["str.++", ["var", v], ["str", "!"]], ["str", s + "!"]]),
    ("distinct", lambda v, s: ["distinct", ["var", v], ["str", s]]),
    ("str.len", lambda v, s: ["<=", ["str.len", ["var", v]], ["int", len(s) + 1]]),
    ("*", lambda v, s: ["<", ["*", ["str.len", ["var", v]], ["int", 2]], ["int", 2 * len(s) + 3]]),
    ("-", lambda v, s: [">=", ["-", ["str.len", ["var", v]], ["int", 1]], ["int", 0]]),
]
RAW_OPS = [
    # printed directly in concrete syntax (operators the harness AST does not model)
    ("str.at", 'str.at({v}, 0) = "{c}"'),
    ("str.substr", 'str.substr({v}, 0, 1) = "{c}"'),
    ("str.indexof", 'str.indexof({v}, "{c}", 0) >= 0'),
    ("str.replace", 'str.replace({v}, "{c}", "{c}") = {v}'),
    ("str.in_re", '(str.in_re {v} (re.++ (str.to_re "{c}") (re.* re.allchar)))'),
    ("re.range", 'str.in_re(str.at({v}, 0), re.range("{c}", "{c}"))'),
    ("re.union", '(str.in_re {v} (re.++ (re.union (str.to_re "{c}") (str.to_re "zz")) (re.* re.allchar)))'),
    ("re.+", 'str.in_re({v}, re.+(re.allchar))'),
    ("re.opt", '(str.in_re {v} (re.++ (re.opt (str.to_re "zz")) (re.+ re.allchar)))'),
    ("str.<=", '(str.<= "{c}" {v})'),
    ("str.is_digit", 'not(str.is_digit(str.at({v}, 0))) or str.is_digit(str.at({v}, 0))'),
    ("str.to_code", 'str.to_code(str.at({v}, 0)) >= 0'),
    ("str.from_int", 'str.len(str.from_int(str.len({v}))) >= 1'),
    ("abs", 'abs(str.len({v}) - 3) >= 0'),
    ("ite", '(ite (> (str.len {v}) 2) (> (str.len {v}) 1) true)'),
    ("=>", '(=> (> (str.len {v}) 2) (> (str.len {v}) 1))'),
    ("unary-", '(> (str.len {v}) (- 1))'),
]


def selftest():
    c01.selftest()


def generate(rnd, tier):
    case = c01.generate(rnd, tier)
    # "timeout configured": also the smallest budgets (0 and 1 second), which make TimeoutError histories common
    r = rnd.randint(0, 9)
    case["timeout"] = 0 if r == 0 else 1 if r in (1, 2) else c01.SOLVER_TIMEOUT
    if chance(rnd, 0.3):
        # operator coverage: replace the constraint by  Q <T> v in start: atom(op)
        g = case["grammar"] if not case.get("start_symbol") else c01.restrict_grammar(case["grammar"], case["start_symbol"])
        cg = rt.canon(g)
        nts = [k for k in cg if k != "<start>"]
        T = pick(rnd, nts)
        md = rt.min_depths(cg)
        from vlib import gen
        y = rt.tyield(gen.tree(rnd, cg, T, rnd.randint(1, 4), md)) or "a"
        q = pick(rnd, ["forall", "exists", "exists"])
        if chance(rnd, 0.5):
            name, b = pick(rnd, OPS)
            atom = ["smt", b("v1", y)]
            if chance(rnd, 0.3):
                atom = ["not", atom]
            case["formula"] = [q, T, "v1", "start", None, atom]
            case["template"] = "op:" + name
        else:
            name, txt = pick(rnd, RAW_OPS)
            c = y[:1]
            c = c if c.isalnum() else "a"
            case["formula"] = None
            case["raw_text"] = "%s %s v1 in start: (%s)" % (q, T, txt.format(v="v1", c=c))
            case["template"] = "op:" + name
    return case


def judge(case):
    labels = ["template:" + case["template"].split("(")[0]] + ["set:%s" % k for k in sorted(case["settings"])]
    labels.append("timeout_seconds:%s" % case.get("timeout", c01.SOLVER_TIMEOUT))
    if case.get("formula") is None:
        # raw text: give run_config a formula-less case
        import types
        text = case["raw_text"]
        orig_pr = fml.pr
        obs = _run_raw(case, text)
    else:
        obs = c01.run_config(case)
    if obs["ctor_error"]:
        return {"labels": labels + ["ctor_error"], "nontrivial": False, "violations": [], "inconclusive": "ctor_error",
                "sample": {"constraint": obs["text"], "ctor_error": obs["ctor_error"]}}
    ev = obs["events"]
    labels.append("ended:" + obs["ended"])
    viol = []
    documented = False
    for e in ev:
        if e.startswith("raises:"):
            if (e.startswith("raises:RuntimeError@") and case["settings"].get("enable_optimized_z3_queries", True)
                    and ("Could not create a tree with the start symbol" in obs.get("error_detail", "")
                         or "Could not parse a numeric solution" in obs.get("error_detail", ""))):
                # both messages end with "try running the solver without optimized Z3 queries or make sure that
                # lengths/ranges are restricted to syntactically valid ones": the documented refusal of that mode
                spurious = _numeric_refusal_is_spurious(case, obs.get("error_detail", ""))
                if spurious:
                    # ... unless the refusal contradicts its own contract: extract_model_value_int_var promises a tree
                    # "whenever the grammar recognizes" the value in the format [+-]0*<digits>
                    viol.append({"sig": "solve:raises:RuntimeError:numeric_refusal_although_value_is_writable", "constraint": obs["text"],
                                 "settings": case["settings"], "detail": obs.get("error_detail"), "writable_as": spurious,
                                 "events": ev, "template": case["template"]})
                    break
                documented = True
                continue
            sig = "solve:" + e.split(":")[0] + ":" + e.split(":", 1)[1]
            if sig.endswith("RuntimeError@k_paths") and _unit_alternative_shadowed(case, obs.get("error_detail", "")):
                sig += ":unit_alternative_shadowed"
            viol.append({"sig": sig, "constraint": obs["text"], "settings": case["settings"],
                         "detail": obs.get("error_detail"), "events": ev, "template": case["template"]})
            break
        if e == "tree_after_end":
            viol.append({"sig": "solve:returns_tree_after_%s" % obs["ended"], "constraint": obs["text"], "settings": case["settings"], "events": ev})
            break
    if obs["ended"] in ("StopIteration", "TimeoutError"):
        i = ev.index(obs["ended"])
        later = ev[i + 1:]
        if any(x != obs["ended"] for x in later) and not viol:
            viol.append({"sig": "solve:%s_not_sticky" % obs["ended"], "constraint": obs["text"], "settings": case["settings"], "events": ev})
        labels.append("history:tree*,%s+" % obs["ended"])
    if documented:
        labels.append("documented_refusal")
    ncalls = len(ev)
    has_atom = True
    return {"labels": labels, "nontrivial": ncalls >= 2 and has_atom and not documented, "violations": viol, "inconclusive": None,
            "sample": {"constraint": obs["text"], "settings": case["settings"], "events": ev[:14]}}


def _numeric_refusal_is_spurious(case, detail):
    """'Could not parse a numeric solution (N) for variable v of type '<T>'': returns a member of L(<T>) of the form
    [+]0*N (or -0*|N|) if there is one with at most 6 padding zeroes -- the format the refused step claims to support"""
    import re
    m = re.search(r"Could not parse a numeric solution \((-?[0-9]+)\) for variable .* of type '(<[^']*>)'", detail or "")
    if not m:
        return None
    n, T = int(m.group(1)), m.group(2)
    g = case["grammar"] if not case.get("start_symbol") else c01.restrict_grammar(case["grammar"], case["start_symbol"])
    cg = rt.canon(g)
    if T not in cg:
        return None
    signs = ["-"] if n < 0 else ["", "+"]
    for sg in signs:
        for z in range(0, 7):
            cand = sg + "0" * z + str(abs(n))
            try:
                if rt.member(cg, T, cand):
                    return cand
            except Exception:
                return None
    return None


def _unit_alternative_shadowed(case, detail):
    """the shape behind grammar_graph's 'Child symbols [..] seem to be incorrect for parent <X>': the children match
    one alternative of <X> literally and another one through find_choice_node_for_children's "skipped nonterminal"
    heuristic (a symbol <Y> of the alternative counts as matched by c if <Y> has the one-symbol alternative c), e.g.
    <X> ::= s | <Y> with <Y> ::= s, or <X> ::= <X>a | <Z>a with <Z> ::= <X>; two matching choice nodes -> it refuses"""
    import re, ast
    m = re.search(r"Child symbols (\[.*\]) seem to be incorrect for parent (<[^>]*>)", detail or "")
    if not m:
        return False
    try:
        cs = list(ast.literal_eval(m.group(1)))
    except Exception:
        return False
    x = m.group(2)
    cg = rt.canon(case["grammar"])
    if cs == [""]:
        cs = []

    def unit_of(sym, c):
        return sym in cg and any(list(b) == [c] or (c == "" and list(b) in ([], [""])) for b in cg[sym])

    n = 0
    for a in cg.get(x, []):
        a = [y for y in a if y != ""]
        if not cs:
            if not a or (len(a) == 1 and unit_of(a[0], "")):
                n += 1
            continue
        if len(a) == len(cs) and all(a[i] == cs[i] or unit_of(a[i], cs[i]) for i in range(len(cs))):
            n += 1
    return n >= 2


def _run_raw(case, text):
    """run_config for a constraint given as text"""
    saved = fml.pr
    try:
        fml.pr = lambda f: text
        return c01.run_config(case)
    finally:
        fml.pr = saved


def health(stats, tier):
    c = stats["classes"]
    n = max(1, stats["evaluations"])
    if c.get("ctor_error", 0) > 0.15 * n:
        return "constructor rejected %d of %d configurations" % (c.get("ctor_error", 0), n)
    return None
