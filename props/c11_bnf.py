"""C11 -- BNF printing and re-parsing keeps the language (identity when no terminal contains '<')."""
import string
from vlib import rt, gen
from vlib.gen import chance, pick

ID = "C11"
CASES = {"quick": 8000, "thorough": 250000}
SOFT = 30
HARD = 120
RULE = ("case = dictionary grammar whose terminals are arbitrary strings over printable ASCII, all C0 control "
        "characters, DEL, Latin-1, BMP/astral characters, quotes, backslashes, escape look-alikes ('\\\\n' as two "
        "characters, '\\\\x41'), '<' and '>', with empty alternatives and nonterminal names including langle/langle_0; "
        "oracle = parse_bnf(unparse_grammar(g)) equals g (no '<' in terminals) or equals g after inlining the single "
        "extra '<' nonterminal, plus bounded language equality (all strings up to length 6, both directions) from "
        "every nonterminal of g using the harness' enumerator/recogniser; non-trivial = some terminal contains a "
        "character from the escape table, a quote, a backslash, a non-ASCII character or '<'; distinct by grammar hash")
ASSUMPTIONS = ["nonterminal names restricted to what both the BNF lexer and ISLa's nonterminal regex accept",
               "language comparison is bounded (strings up to length 6, capped enumeration)"]

CONTROL = [chr(i) for i in range(0, 32)] + ["\x7f"]
POOL = (list(string.ascii_letters[:6]) + list("0 1;=()|#$:") + CONTROL + ["\x80", "\xa0", "\xe4", "\xff", "λ", "€", "𝄞"]
        + ['"', '"', "\\", "\\", "<", "<", ">", "\\n", "\\t", "\\x41", "\\\\", "\\\"", "::=", "\n", "\t", "\r", "\x0b", "\x0c", "\b"])
SPECIAL = set(CONTROL) | set('"\\<') | {"\x80", "\xa0", "\xe4", "\xff", "λ", "€", "𝄞"}


def selftest():
    g = {"<start>": ["<a>"], "<a>": ["x<a>", ""]}
    assert rt.enumerate_strings(rt.canon(g), "<start>", 3) == {"", "x", "xx", "xxx"}


def generate(rnd, tier):
    k = rnd.randint(1, 4)
    names = ["n%d" % i for i in range(k)]
    if chance(rnd, 0.15):
        names[rnd.randint(0, k - 1)] = pick(rnd, ["langle", "langle_0", "a-b", "x_1", "L"])
        if chance(rnd, 0.5) and k > 1:
            j = rnd.randint(0, k - 1)
            if names[j] not in ("langle", "langle_0"):
                names[j] = "langle_0" if "langle" in names else "langle"
    names = list(dict.fromkeys(names))
    k = len(names)
    nts = ["<%s>" % n for n in names]
    g = {"<start>": [[nts[0]]]}
    for i, nt in enumerate(nts):
        alts = []
        for _a in range(rnd.randint(1, 3)):
            syms = []
            for _s in range(rnd.randint(0, 3)):
                if i + 1 < k and chance(rnd, 0.3):
                    syms.append(pick(rnd, nts[i + 1:]))
                else:
                    syms.append("".join(pick(rnd, POOL) for _ in range(rnd.randint(1, 3))))
            m = []
            for s in syms:
                if m and not rt.is_nt(m[-1]) and not rt.is_nt(s):
                    m[-1] += s
                else:
                    m.append(s)
            alts.append(m)
        g[nt] = alts
    for i in range(1, k):
        if not any(nts[i] in a for j in range(i) for a in g[nts[j]]):
            g[nts[i - 1]].append([nts[i]])
    # construction instead of rejection: a terminal that the splitter would read as containing a
    # nonterminal loses its '>' characters
    out = {}
    ntset = set(nts)
    for key, alts in g.items():
        strs = []
        for a in alts:
            fixed = []
            for s in a:
                if s not in ntset and any(rt.is_nt(x) for x in rt.split_alt(s)):
                    s = s.replace(">", "")
                fixed.append(s)
            joined = "".join(fixed)
            sp = rt.split_alt(joined)
            if sp != _merge(fixed, ntset) or any(rt.is_nt(x) and x not in ntset for x in sp):
                joined = "".join(x if x in ntset else x.replace("<", "").replace(">", "") for x in fixed)
            if joined not in strs:
                strs.append(joined)
        out[key] = strs
    return {"grammar": out}


def _merge(syms, ntset):
    m = []
    for s in syms:
        if not s:
            continue
        if m and m[-1] not in ntset and s not in ntset:
            m[-1] += s
        else:
            m.append(s)
    return m


def judge(case):
    from isla.language import parse_bnf, unparse_grammar
    g = case["grammar"]
    cg = rt.canon(g)
    terms = [s for alts in cg.values() for a in alts for s in a if not rt.is_nt(s)]
    has_lt = any("<" in s for s in terms)
    labels = ["has_lt" if has_lt else "no_lt"]
    if any(a == [] for alts in cg.values() for a in alts):
        labels.append("empty_alt")
    if any(ch in CONTROL for s in terms for ch in s):
        labels.append("control")
    if any(ord(ch) > 127 for s in terms for ch in s):
        labels.append("non_ascii")
    if any(ch in '"\\' for s in terms for ch in s):
        labels.append("quote_or_backslash")
    if any(n in g for n in ("<langle>", "<langle_0>")):
        labels.append("langle_name_taken")
    nontrivial = any(ch in SPECIAL for s in terms for ch in s)
    viol = []

    def bad(sig, **kw):
        viol.append(dict(sig=sig, **kw))

    try:
        txt = unparse_grammar(g)
    except Exception as e:
        bad("unparse:raises:" + type(e).__name__, detail=str(e)[:300])
        return {"labels": labels, "nontrivial": nontrivial, "violations": viol, "inconclusive": None}
    try:
        g2 = parse_bnf(txt)
    except BaseException as e:
        if isinstance(e, (KeyboardInterrupt,)) or type(e).__name__ == "SoftTimeout":
            raise
        bad("parse_bnf:raises:" + type(e).__name__, detail=str(e)[:300], text=txt)
        return {"labels": labels, "nontrivial": nontrivial, "violations": viol, "inconclusive": None}
    if not has_lt:
        if g2 != g or list(g2.keys()) != list(g.keys()):
            bad("no_lt:not_identical", text=txt, reparsed=g2)
    else:
        extra = [k for k in g2 if k not in g]
        missing = [k for k in g if k not in g2]
        if missing:
            bad("lt:missing_nonterminal", missing=missing, reparsed=g2)
        else:
            # structure after inlining the '<' nonterminal: a statistic only -- the property claims the
            # language, which is compared below
            if len(extra) <= 1 and all(g2[e] == ["<"] for e in extra):
                inl = {k: [a.replace(extra[0], "<") for a in alts] for k, alts in g2.items() if k in g} if extra else g2
                labels.append("lt_inline_exact" if inl == g else "lt_inline_differs")
            else:
                labels.append("lt_other_scheme")
    # bounded language equality from every nonterminal of g
    if not viol:
        cg2 = rt.canon(g2)
        for A in g:
            l1 = rt.enumerate_strings(cg, A, 6, cap=300)
            l2 = rt.enumerate_strings(cg2, A, 6, cap=300) if A in cg2 else set()
            if len(l1) >= 300 or len(l2) >= 300:
                # capped enumeration: compare by membership instead of set equality
                for s in sorted(l1)[:60]:
                    if not rt.member(cg2, A, s):
                        bad("language:lost_string", nt=A, string=s)
                        break
                for s in sorted(l2)[:60]:
                    if not rt.member(cg, A, s):
                        bad("language:gained_string", nt=A, string=s)
                        break
            elif l1 != l2:
                bad("language:differs", nt=A, only_original=sorted(l1 - l2)[:5], only_reparsed=sorted(l2 - l1)[:5])
            if viol:
                break
    return {"labels": labels, "nontrivial": nontrivial, "violations": viol, "inconclusive": None}
