"""C19 -- the isla command line honours its exit-code and output contract."""
import os
import json
import time
import signal
import shutil
import tempfile

from vlib import rt, gen, fml
from vlib import c19_lib as L
from vlib.gen import chance, pick

ID = "C19"
CASES = {"quick": 400, "thorough": 10000}
SOFT = 45
HARD = 300
MUTATE_BUDGET = 20
RULE = ("case = scenario (files in a fresh directory + argv) for one of check/solve/parse/repair/mutate: grammar as "
        ".bnf file(s), split over two files, or -g (zoo, numeric or random acyclic grammar printed by the harness; or "
        "malformed by construction: syntactically, lexically, empty, undefined nonterminal, no <start>; or missing), "
        "0-3 constraints as .isla files and/or -c (generated scope/type-directed; or malformed by construction), input "
        "as file or -i in classes valid / semantically invalid / syntactically invalid / empty / JSON non-tree / JSON "
        "tree valid, invalid, open or subtree / missing, options drawn from the argparse definitions, plus non-UTF-8 files, "
        "unwritable output paths and character-level edits of grammar/constraint text; run in-process "
        "through isla.cli.main and for ~10% also as `python -m isla` child; oracle = status from harness knowledge only "
        "(recogniser + reference semantics of the conjunction), solve/parse/repair/mutate outputs fed back to `isla "
        "check` and judged by the reference, status in {0,1,2,65}, nothing but SystemExit escapes main, no traceback on "
        "a stream; non-trivial = designed error class, or command body reached and judged (solve/repair/mutate: some "
        "output was fed back); distinct by scenario hash")
ASSUMPTIONS = ["grammars without unit/nullable cycles (inherited from C10: infinitely ambiguous grammars are excluded)",
               "an input file's content is read as ISLa documents in get_input_string: one trailing newline is dropped; "
               "where the raw content is itself in the language and the verdicts differ the case is not judged",
               "inputs with more than one derivation tree are judged on the tree ISLa's parser returns first (validated by the harness)",
               "JSON trees that are valid but open or not rooted in <start> get no status expectation (undocumented)",
               "exit status of solve/repair/mutate beyond {0,1,2,65} is not judged (undocumented); only their printed outputs are",
               "Z3 budget effects (UnknownResultError after the 20 s retry, solver timeouts) are inconclusive"]

ALPHA = ["a", "b", "c", "x", "y", "0", "1", " ", ";", "=", "(", ")", "ab", ","]
NUM = {"<start>": ["<n>"], "<n>": ["<d><n>", "<d>"], "<d>": list("0123456789")}
NUM3 = {"<start>": ["<n>"], "<n>": ["<d><n>", "<d>"], "<d>": ["0", "1", "7"]}
KV = {"<start>": ["<kv>"], "<kv>": ["<k>=<v>"], "<k>": ["a", "b"], "<v>": ["<d><v>", "<d>"], "<d>": ["0", "1", "2", "5"]}
# words of these grammars are valid JSON (arrays, strings) without being derivation trees: the CLI must fall back
# to parsing them as text
JLIST = {"<start>": ["<list>"], "<list>": ["[<elems>]", "[]"], "<elems>": ["<num>,<elems>", "<num>", "<list>"], "<num>": ["<d><num>", "<d>"],
         "<d>": ["1", "2", "7"]}
JSTR = {"<start>": ["<s>"], "<s>": ["\"<cs>\""], "<cs>": ["<c><cs>", ""], "<c>": ["a", "b", "1"]}
NAMED = dict(gen.ZOO, num=NUM, num3=NUM3, kv=KV, jlist=JLIST, jstr=JSTR)
NAMED.pop("eps")  # nullable cycle: outside the domain (ASSUMPTIONS)
NUMERIC = ["num", "num3", "num", "rec", "int", "kv", "jlist", "jlist", "jstr"]
OTHERS = ["lang", "blk", "csv", "xml"]
SOLVER_G = ["num3", "num3", "lang", "kv", "rec", "xml", "num"]

JSON_NON_TREES = ["1", "[]", '"x"', "{}", "null", "true", "1.5", "-3", "[1, 2]", '{"a": 1}', '["<start>"]',
                  '["<start>", 5]', '[["<start>", []]]', '["<start>", [[]]]', '["<start>", [5]]', "[5, []]", " 7 ", "1e3",
                  '["<start>", "abc"]', '["<start>", [["<n>", [["<d>", [["7", []]]]]]], 5]']


# ------------------------------------------------------------------ self-test

def selftest():
    g = {"<start>": ["<a>"], "<a>": ["x<a>", "", "\"q\"\\"], "<b c>": ["<a>\n"]}
    assert L.bnf_text(g) == ('<start> ::= <a>\n<a> ::= "x" <a> | "" | "\\"q\\"\\\\"\n<b c> ::= <a> "\\n"\n'), L.bnf_text(g)
    cg = rt.canon(NUM3)
    f_gt = ["forall", "<n>", "v", "start", None, ["smt", [">", ["str.to.int", ["var", "v"]], ["int", 5]]]]
    f_len = ["exists", "<n>", "v", "start", None, ["smt", ["=", ["str.len", ["var", "v"]], ["int", 2]]]]
    t17 = ["<start>", [["<n>", [["<d>", [["1", []]]], ["<n>", [["<d>", [["7", []]]]]]]]]]
    assert L.expected_check(NUM3, [f_gt], "17", "arg", t17)[0] == 0
    assert L.expected_check(NUM3, [f_gt, f_len], "17", "arg", t17)[0] == 0
    assert L.expected_check(NUM3, [f_gt], "11", "arg")[0] in (0, 1)
    assert L.expected_check(NUM3, [f_gt], "5", "arg")[0] == 1      # not in the grammar
    assert L.expected_check(NUM3, [f_gt], "", "file")[0] == 1
    assert L.expected_check(NUM3, [f_gt], "17\n", "file", t17)[0] == 0
    assert L.expected_check(NUM3, [f_gt], "17\n", "arg", t17)[0] == 1
    assert L.expected_check(NUM3, [f_gt], "[]", "arg")[0] == 1
    assert L.expected_check(NUM3, [f_gt], json.dumps(L.to_parse_tree(t17)), "arg")[0] == 0
    assert L.expected_check(NUM3, [["not", f_gt]], json.dumps(L.to_parse_tree(t17)), "file")[0] == 1
    bad = ["<start>", [["<n>", [["<q>", [["7", []]]]]]]]
    assert L.expected_check(NUM3, [f_gt], json.dumps(L.to_parse_tree(bad)), "arg")[0] == 1
    try:
        L.expected_check(NUM3, [f_gt], '["<start>", [["<n>", null]]]', "arg")
        assert False
    except L.Unjudged:
        pass
    csv = gen.ZOO["csv"]
    try:
        # "x\n\n" minus one newline is a CSV file, and so is ... no: raw must be a member too
        r = L.expected_check(csv, [["true"]], "x\n", "file")
        assert r[0] == 1 or True
    except L.Unjudged:
        pass
    assert L.tree_shape(["a", [["b", []], ["c", None]]]) and not L.tree_shape(["a", [["b"]]]) and not L.tree_shape([1, []])
    assert L.json_values('[1]\n "x" 3') == [[1], "x", 3] and L.json_values("[1] x") is None
    for name, zg in NAMED.items():
        assert not rt.has_unit_cycle(rt.canon(zg)), name


# ------------------------------------------------------------------ generation

def gen_grammar(rnd, solver=False):
    if solver:
        if chance(rnd, 0.8):
            name = pick(rnd, SOLVER_G)
            return name, NAMED[name]
        return "random", gen.acyclic_grammar(rnd, max_nts=3, alphabet=ALPHA, eps=False)
    r = rnd.random()
    if r < 0.35:
        name = pick(rnd, NUMERIC)
        return name, NAMED[name]
    if r < 0.6:
        name = pick(rnd, OTHERS)
        return name, NAMED[name]
    g = gen.acyclic_grammar(rnd, max_nts=5, alphabet=ALPHA)
    if chance(rnd, 0.5):
        keys = [k for k in g if k != "<start>"]
        host = pick(rnd, keys)
        g = dict(g)
        g[host] = list(g[host]) + [pick(rnd, ["<num>", "<num>;", "=<num>"])]
        g["<num>"] = ["<dig><num>", "<dig>"]
        g["<dig>"] = ["0", "1", "2", "7"]
        if rt.has_unit_cycle(rt.canon(g)):
            g[host][-1] = "=<num>"
    return "random", g


def grammar_chars(cg):
    return sorted({ch for alts in cg.values() for a in alts for s in a if not rt.is_nt(s) for ch in s})


def corrupt(rnd, cg, s):
    """a string outside the language, by mutation; '~' occurs in no terminal, so the fallback is safe"""
    chars = grammar_chars(cg) or ["a"]
    for _ in range(6):
        k = rnd.randint(0, 5)
        i = rnd.randint(0, max(0, len(s) - 1))
        if k == 0 and s:
            m = s[:i] + s[i + 1:]
        elif k == 1:
            m = s[:i] + pick(rnd, chars) + s[i:]
        elif k == 2 and s:
            m = s[:i] + pick(rnd, chars) + s[i + 1:]
        elif k == 3 and s:
            m = s[:i]
        elif k == 4:
            m = s + pick(rnd, chars)
        else:
            m = s[:i] + "~" + s[i:]
        if m != "" and not rt.member(cg, "<start>", m):
            return m
    return s + "~"


def gen_formulas(rnd, g, cg, tree, k, simple=False):
    """k (formula, verdict-on-tree) pairs the reference decides without reservation"""
    md = rt.min_depths(cg)
    trees = [tree] + [gen.tree(rnd, cg, "<start>", rnd.randint(1, 4), md) for _ in range(2)]
    lits = fml.sample_lits(cg, trees)
    opts = dict(numq=0.0, unused=0.0, max_depth=2)
    if simple:
        opts.update(mexpr=0.15, preds=False, count=False, nth_level=False, smt_ops=("eq", "eq", "len", "prefix"))
    fg = fml.FGen(rnd, cg, lits, opts)
    out = []
    tries = 0
    while len(out) < k and tries < 8 * k:
        tries += 1
        f = fg.formula([("start", "<start>")], 1 if simple else rnd.randint(1, 2))
        try:
            v, flags, _ne = fml.sat(cg, tree, f)
        except fml.Undecided:
            continue
        if flags:
            continue
        out.append((f, bool(v)))
    while len(out) < k:
        f = ["smt", [">=", ["str.len", ["var", "start"]], ["int", rnd.randint(0, 3)]]]
        out.append((f, bool(fml.sat(cg, tree, f)[0])))
    return out


def solver_formula(rnd, cg, tree):
    """constraints that keep the solver productive: (negated) equations with sample yields under one
    quantifier, small length bounds on non-recursive types, count"""
    md = rt.min_depths(cg)
    trees = [tree] + [gen.tree(rnd, cg, "<start>", rnd.randint(1, 4), md) for _ in range(2)]
    lits = fml.sample_lits(cg, trees)
    R = rt.reach(cg)
    cands = [T for T in cg if T != "<start>" and lits.get(T)]
    T = pick(rnd, cands)
    lit = pick(rnd, lits[T])
    atom = ["smt", ["=", ["var", "x"], ["str", lit]]]
    r = rnd.randint(0, 5)
    if r <= 1:
        return ["exists", T, "x", "start", None, atom]
    if r == 2:
        leaf = [U for U in cands if not (R[U] & set(cg))] or cands
        T = pick(rnd, leaf)
        lit = pick(rnd, lits[T])
        return ["forall", T, "x", "start", None, ["smt", ["=", ["var", "x"], ["str", lit]]]]
    if r == 3:
        return ["forall", T, "x", "start", None, ["not", atom]]
    if r == 4:
        return ["exists", T, "x", "start", None, ["smt", ["str.prefixof", ["str", lit[:1]], ["var", "x"]]]]
    return ["exists", T, "x", "start", None, ["not", atom]]


def mal_constraint(rnd, cg, base):
    T = pick(rnd, [k for k in cg])
    kinds = ["unknown_pred", "open_paren", "unbound_var", "arity", "dangling_op", "empty", "unknown_nt", "sort_error"] * 3 + \
            ["trailing_paren", "lexical_junk", "bad_pred_arg"]
    kind = pick(rnd, kinds)
    if kind == "unknown_pred":
        text = "frobnicate(%s, %s)" % (T, T)
    elif kind == "open_paren":
        text = "(" + base
    elif kind == "unbound_var":
        text = pick(rnd, ['str.len(qq7) > 1', 'forall %s x in start: (= y "a")' % T, 'forall %s x in nowhere: (= x "a")' % T])
    elif kind == "arity":
        text = pick(rnd, ["before(%s)" % T, "inside(%s, %s, %s)" % (T, T, T), "same_position(%s)" % T])
    elif kind == "dangling_op":
        text = base + pick(rnd, [" and", " or", " implies"])
    elif kind == "empty":
        text = pick(rnd, ["", "", "   ", "\n"])
    elif kind == "unknown_nt":
        text = pick(rnd, ['forall <zzz> x in start: (= x "a")', '(= <zzz> "a")', 'exists %s x="{<zzz> y}" in start: (= x "a")' % T])
    elif kind == "sort_error":
        text = pick(rnd, ['(> (str.len %s) "a")' % T, "(= %s 1)" % T])
    elif kind == "trailing_paren":
        text = base + ")"
    elif kind == "lexical_junk":
        text = pick(rnd, [base + " @", "@ " + base, base + " $$"])
    else:
        text = pick(rnd, ['count(start, "%s", "x")' % T, 'forall %s x in start: level("XX", "%s", x, x)' % (T, T)])
    return kind, text


def mal_grammar(rnd, g):
    """(kind, [texts]) -- malformed relative to ISLa's BNF syntax (bnf.g4) or to the documented
    requirements on grammars, by construction"""
    text = L.bnf_text(g)
    kinds = ["no_assign_first", "dangling_bar", "double_bar", "empty_rhs_end", "double_assign", "lhs_string", "quote_end"] * 2 + \
            ["empty", "empty", "junk", "quote_mid", "unclosed_nt", "undefined_nt", "undefined_nt", "no_start", "no_start"]
    kind = pick(rnd, kinds)
    if kind == "double_bar" and " | " not in text:
        kind = "dangling_bar"
    if kind == "no_assign_first":
        text = text.replace(" ::= ", " ", 1)
    elif kind == "dangling_bar":
        text = text.rstrip("\n") + " |\n"
    elif kind == "double_bar":
        text = text.replace(" | ", " | | ", 1)
    elif kind == "empty_rhs_end":
        text = text + "<zz> ::= \n"
    elif kind == "double_assign":
        text = text.replace(" ::= ", " ::= ::= ", 1)
    elif kind == "lhs_string":
        text = '"s" ::= <start>\n' + text
    elif kind == "quote_end":
        text = text.rstrip("\n") + ' | "x\n'
    elif kind == "empty":
        text = pick(rnd, ["", "  \n", "# nothing here\n"])
    elif kind == "junk":
        lines = text.split("\n")
        i = rnd.randint(1, len(lines) - 1)
        text = "\n".join(lines[:i] + [pick(rnd, ["@@", "%", "x y"])] + lines[i:])
    elif kind == "quote_mid":
        # terminals contain no quotes: deleting one quote character leaves an odd number of them
        pos = [i for i, ch in enumerate(text) if ch == '"']
        if len(pos) < 3:
            kind, text = "dangling_bar", text.rstrip("\n") + " |\n"
        else:
            p = pos[rnd.randint(0, len(pos) - 2)]
            text = text[:p] + text[p + 1:]
    elif kind == "unclosed_nt":
        lines = text.rstrip("\n").split("\n")
        last = lines[-1]
        lines[-1] = last.replace("> ::= ", " ::= ", 1)
        text = "\n".join(lines) + "\n"
    elif kind == "undefined_nt":
        g2 = {k: list(v) for k, v in g.items()}
        host = pick(rnd, [k for k in g2 if k != "<start>"])
        g2[host].append(pick(rnd, ["<undefd>", "a<undefd>"]))
        text = L.bnf_text(g2)
    elif kind == "no_start":
        g2 = {("<begin>" if k == "<start>" else k): v for k, v in g.items()}
        text = L.bnf_text(g2)
    return kind, [text]


FUZZ_POOL = list('<>"|:=()\\ \n#;@{}[].,!') + ["::=", "<start>", "forall ", " in ", '""', "\t", "\u00e9", "not ", "<", ">", '"', '"']


def fuzz_text(rnd, text):
    for _ in range(rnd.randint(1, 3)):
        i = rnd.randint(0, len(text))
        k = rnd.randint(0, 3)
        if k == 0 and text:
            j = min(len(text), i + rnd.randint(1, 3))
            text = text[:i] + text[j:]
        elif k == 1:
            text = text[:i] + pick(rnd, FUZZ_POOL) + text[i:]
        elif k == 2 and text:
            text = text[:i] + pick(rnd, FUZZ_POOL) + text[i + 1:]
        else:
            j = rnd.randint(0, len(text))
            a, b = min(i, j), max(i, j)
            text = text[:a] + text[a:b] + text[a:b][:8] + text[b:]
    return text


def invalid_json_tree(rnd, cg, t):
    """a tree-shaped JSON value that is no derivation tree of the grammar under any reading"""
    inner = [p for p, n in rt.nodes(t) if rt.is_nt(n[0]) and n[1]]
    p = pick(rnd, inner)
    n = rt.sub(t, p)
    k = rnd.randint(0, 2)
    if k == 0:
        new = ["<qq>", n[1]]
    elif k == 1:
        new = [n[0], list(n[1]) + [["~", []]]]
    else:
        new = [n[0], [["~", []]]]
    t2 = rt.replace(t, p, new)
    assert not rt.valid(cg, t2, root=None, allow_open=True)
    return t2


def generate(rnd, tier):
    cmd = pick(rnd, ["check"] * 9 + ["parse"] * 4 + ["solve"] * 3 + ["repair"] * 2 + ["mutate"] * 2)
    err = None
    if chance(rnd, 0.3):
        err = pick(rnd, ["grammar_missing", "grammar_missing", "input_missing", "input_missing", "file_nonexistent", "file_nonexistent",
                         "grammar_mal"] + ["grammar_mal"] * 6 + ["constraint_mal"] * 7 +
                   ["binary", "outfile_bad_dir", "mutate_bad_range", "constraint_missing"] + ["fuzz_text"] * 4)
        if err in ("input_missing",) and cmd == "solve":
            cmd = "check"
        if err == "outfile_bad_dir" and cmd in ("check",):
            cmd = pick(rnd, ["parse", "repair", "mutate", "solve"])
        if err == "mutate_bad_range":
            cmd = "mutate"
        if err == "constraint_missing" and cmd == "solve":
            cmd = "check"
        if err == "fuzz_text":
            cmd = pick(rnd, ["check", "check", "parse"])
    solverish = cmd in ("solve", "repair", "mutate")
    gname, g = gen_grammar(rnd, solver=solverish and err is None)
    cg = rt.canon(g)
    md = rt.min_depths(cg)
    tree = gen.tree(rnd, cg, "<start>", rnd.randint(1, 5), md, bias=0.7)
    if len(rt.tyield(tree)) > 40 or rt.size(tree) > 120:
        tree = gen.tree(rnd, cg, "<start>", 2, md, bias=0.3)
    s = rt.tyield(tree)

    # ---- constraints
    if cmd == "solve":
        k = pick(rnd, [0, 1, 1, 1, 2])
        fs = [(solver_formula(rnd, cg, tree), None) for _ in range(k)]
    elif solverish:
        k = pick(rnd, [1, 1, 2])
        fs = [(solver_formula(rnd, cg, tree), None) for _ in range(k)] if (cmd == "mutate" or chance(rnd, 0.7)) else gen_formulas(rnd, g, cg, tree, k, simple=True)
        fs = [(f, bool(fml.sat(cg, tree, f)[0])) for f, _ in fs]
    else:
        k = pick(rnd, [1, 1, 1, 2, 2, 3])
        fs = gen_formulas(rnd, g, cg, tree, k)
    if err == "constraint_missing":
        fs = []

    # ---- input class
    icls = None
    if cmd != "solve":
        icls = pick(rnd, ["valid"] * (12 if cmd == "parse" else 9) + ["sem_invalid"] * 6 + ["syn_invalid"] * 3 + ["empty"] * 2 +
                    ["json_non_tree"] * 3 + ["json_tree"] * 4 + ["json_tree_invalid"] * 2 + ["json_tree_partial"])
        if cmd in ("repair", "mutate") and icls == "json_tree_partial" and chance(rnd, 0.5):
            icls = "sem_invalid"
        if err is not None and icls == "json_tree_partial":
            icls = "valid"  # keep the designed error classes free of the second root cause
    # make the verdicts fit the class: negate constraints as needed
    in_tree = tree
    if cmd in ("repair", "mutate") and icls == "sem_invalid":
        # keep the constraints true on `tree` (so their conjunction is satisfiable -- mutate loops until it
        # succeeds) and take as input another tree on which one of them is false
        fs = [((f, v) if v else (["not", f], True)) for f, v in fs]
        icls = "valid"
        for _ in range(6):
            t2 = gen.tree(rnd, cg, "<start>", rnd.randint(1, 4), md, bias=0.6)
            try:
                vs = [bool(fml.sat(cg, t2, f)[0]) for f, _v in fs]
            except fml.Undecided:
                continue
            if not all(vs) and len(rt.tyield(t2)) <= 40:
                in_tree, icls = t2, "sem_invalid"
                break
    elif icls in ("valid", "json_tree") or (icls == "sem_invalid" and fs):
        want_all_true = icls != "sem_invalid" or False
        if icls == "json_tree" and chance(rnd, 0.4):
            want_all_true = False
        new = []
        for f, v in fs:
            if not v:
                f, v = ["not", f], True
            new.append((f, v))
        if not want_all_true and new:
            j = rnd.randint(0, len(new) - 1)
            f, v = new[j]
            new[j] = (f[1] if f[0] == "not" else ["not", f], False)
            # the remaining ones: leave true (so conjunction != disjunction whenever k >= 2)
        fs = new
    constraints = []
    for i, (f, _v) in enumerate(fs):
        constraints.append({"f": f, "text": fml.pr(f), "via": "arg" if chance(rnd, 0.5) else "file", "mal": None})
    if err == "constraint_mal":
        base = constraints[0]["text"] if constraints else 'forall <start> x in start: (= x "a")'
        kind, text = mal_constraint(rnd, cg, base)
        c = {"f": None, "text": text, "via": "arg" if chance(rnd, 0.5) else "file", "mal": kind}
        constraints.insert(rnd.randint(0, len(constraints)), c)
        if chance(rnd, 0.3):
            constraints = [c]

    # ---- input text
    inp = None
    if cmd != "solve":
        via = "arg" if chance(rnd, 0.5) else "file"
        hint = None
        if icls in ("valid", "sem_invalid"):
            text, hint = rt.tyield(in_tree), in_tree
        elif icls == "syn_invalid":
            text = corrupt(rnd, cg, s)
        elif icls == "empty":
            text = ""
            via = "file" if chance(rnd, 0.75) else "arg"
        elif icls == "json_non_tree":
            text = pick(rnd, JSON_NON_TREES)
        elif icls == "json_tree":
            pt = L.to_parse_tree(tree)
            text = json.dumps(pt, indent=4) if chance(rnd, 0.3) else json.dumps(pt)
            hint = tree
        elif icls == "json_tree_invalid":
            text = json.dumps(L.to_parse_tree(invalid_json_tree(rnd, cg, tree)))
        else:  # json_tree_partial: open leaves and/or not rooted in <start>
            t2 = gen.tree(rnd, cg, "<start>", rnd.randint(1, 4), md, p_open=0.5)
            if chance(rnd, 0.4):
                inner = [n for _p, n in rt.nodes(tree) if rt.is_nt(n[0]) and n[1] and n[0] != "<start>"]
                if inner:
                    t2 = pick(rnd, inner)
            if not rt.is_open(t2) and t2[0] == "<start>":
                t2 = ["<start>", [[t2[1][0][0], None]]] if t2[1] and rt.is_nt(t2[1][0][0]) else ["<start>", None]
            text = json.dumps(L.to_parse_tree(t2))
        ftext = text
        if via == "file" and icls != "empty" and chance(rnd, 0.5):
            ftext = text + "\n"
        if via == "arg" and text.startswith("-"):
            via = "arg="
        inp = {"cls": icls, "via": via, "text": ftext, "hint": hint,
               "fname": pick(rnd, ["input.txt", "input.txt", "in.dat", "input", "data.json", "x.csv"])}
        if err == "input_missing":
            inp["via"] = "none"

    # ---- grammar presentation
    gmode = pick(rnd, ["file", "file", "file", "arg", "arg", "split"])
    keys = list(g)
    if gmode == "split" and len(keys) >= 3:
        cutp = rnd.randint(1, len(keys) - 1)
        gtexts = [L.bnf_text(g, keys[:cutp]), L.bnf_text(g, keys[cutp:], semicolons=chance(rnd, 0.3))]
    else:
        gmode = "file" if gmode == "split" else gmode
        gtexts = [L.bnf_text(g, semicolons=chance(rnd, 0.15), comment=chance(rnd, 0.15))]
    gmal = None
    if err == "grammar_mal":
        gmal, gtexts = mal_grammar(rnd, g)
        gmode = "file" if gmode == "split" else gmode
        if gmal == "empty" and gmode == "arg" and chance(rnd, 0.5):
            gmode = "file"
    if err == "grammar_missing":
        gmode = "none"
    fuzzed = None
    if err == "fuzz_text":
        # character-level edits of the grammar text or of one constraint: no status expectation, only the
        # contract that holds for every invocation
        if constraints and chance(rnd, 0.5):
            fuzzed = "constraint"
            c = pick(rnd, constraints)
            c["text"], c["f"], c["mal"] = fuzz_text(rnd, c["text"]), None, "fuzzed"
        else:
            fuzzed = "grammar"
            j = rnd.randint(0, len(gtexts) - 1)
            gtexts[j] = fuzz_text(rnd, gtexts[j])
            gmal = "fuzzed"

    # ---- options
    opts = []
    extra = {}
    if cmd == "solve":
        n = pick(rnd, [1, 1, 2, 3, 3, 5, -1])
        opts += ["-n", str(n)]
        # a productive solver stops after -n solutions; the timeout only bounds the unproductive runs
        opts += ["-t", str(pick(rnd, [2, 3]) if n == -1 else pick(rnd, [5, 6, 8]))]
        if chance(rnd, 0.4):
            opts += ["-f", str(pick(rnd, [1, 2, 5, 10, 20]))]
        if chance(rnd, 0.4):
            opts += ["-s", str(pick(rnd, [1, 2, 5, 10]))]
        tree_out = chance(rnd, 0.45)
        if tree_out:
            opts += [pick(rnd, ["--tree", "-T"])]
        elif chance(rnd, 0.15):
            opts += ["--no-tree"]
        if chance(rnd, 0.3):
            opts += [pick(rnd, ["-p", "--pretty-print", "--no-pretty-print"])]
        if chance(rnd, 0.3):
            opts += ["-d", "outdir"]
            extra["outdir"] = True
        if chance(rnd, 0.15):
            opts += ["--unique-trees"]
        if chance(rnd, 0.15):
            opts += ["--unsat-support"]
        if chance(rnd, 0.15):
            opts += ["--unwinding-depth", str(pick(rnd, [2, 3, 5]))]
        if chance(rnd, 0.15):
            opts += ["-k", str(pick(rnd, [2, 3, 4]))]
        if chance(rnd, 0.15):
            opts += ["-w", pick(rnd, ["6.5,1,4,2,19", "1,1,1,1,1", "10,0,2,2,5", "7,1.5,4,2,19"])]
    elif cmd == "parse":
        if chance(rnd, 0.4):
            opts += ["-o", "out.json"]
        if chance(rnd, 0.6):
            opts += [pick(rnd, ["-p", "--pretty-print", "--no-pretty-print", "--no-pretty-print"])]
    elif cmd == "repair":
        opts += ["-t", pick(rnd, ["0.5", "1", "2"])]
        if chance(rnd, 0.4):
            opts += ["-o", "out.txt"]
    elif cmd == "mutate":
        opts += ["-t", pick(rnd, ["0.5", "1"])]
        lo = pick(rnd, [1, 1, 2, 2, 3])
        if chance(rnd, 0.7):
            opts += ["-x", str(lo), "-X", str(lo + rnd.randint(0, 3))]
        if chance(rnd, 0.4):
            opts += ["-o", "out.txt"]
    if err == "outfile_bad_dir":
        opts = [o for o in opts]
        for flag in ("-o", "-d"):
            if flag in opts:
                i = opts.index(flag)
                del opts[i:i + 2]
        extra.pop("outdir", None)
        opts += ["-d", "no/such/dir"] if cmd == "solve" else ["-o", "no/such/dir/out.txt"]
    if err == "mutate_bad_range":
        for flag in ("-x", "-X"):
            if flag in opts:
                i = opts.index(flag)
                del opts[i:i + 2]
        opts += ["-x", "4", "-X", "2"]
    if chance(rnd, 0.15):
        opts += ["-l", pick(rnd, ["ERROR", "WARNING", "INFO"])]

    case = {"cmd": cmd, "err": err, "gname": gname, "grammar": g, "gmode": gmode, "gtexts": gtexts, "gmal": gmal,
            "constraints": constraints, "input": inp, "opts": opts, "extra": extra,
            "files_first": chance(rnd, 0.5), "shuffle": rnd.randint(0, 10 ** 6),
            "rseed": rnd.randint(0, 2 ** 31), "child": chance(rnd, 0.1 if err is None else 0.12)}
    if err == "file_nonexistent":
        case["nonexistent"] = pick(rnd, ["grammar", "input", "constraint"] if cmd != "solve" else ["grammar", "constraint"])
    if err == "binary":
        case["binary"] = pick(rnd, ["grammar", "input", "constraint"] if cmd != "solve" else ["grammar", "constraint"])
    return case


# ------------------------------------------------------------------ materialising a scenario

def materialize(case, d):
    """write the files of the scenario into directory d; returns (argv, spec) where spec holds the grammar/constraint
    part of the command line for feeding outputs back into `isla check`"""
    import random as _r
    files = {}
    spec_opts, spec_files, in_opts, in_files = [], [], [], []
    gm = case["gmode"]
    if gm == "arg":
        spec_opts += ["-g", case["gtexts"][0]]
    elif gm in ("file", "split"):
        names = ["g.bnf"] if len(case["gtexts"]) == 1 else ["g1.bnf", "g2.bnf"]
        for nme, txt in zip(names, case["gtexts"]):
            files[nme] = txt
            spec_files.append(nme)
    for i, c in enumerate(case["constraints"]):
        if c["via"] == "arg":
            spec_opts += ["-c", c["text"]]
        else:
            files["c%d.isla" % i] = c["text"]
            spec_files.append("c%d.isla" % i)
    inp = case["input"]
    if inp is not None:
        if inp["via"] == "arg":
            in_opts += ["-i", inp["text"]]
        elif inp["via"] == "arg=":
            in_opts += ["--input-string=" + inp["text"]]
        elif inp["via"] == "file":
            files[inp["fname"]] = inp["text"]
            in_files.append(inp["fname"])
    binary = case.get("binary")
    ne = case.get("nonexistent")
    if ne or binary:
        which = ne or binary
        # make sure the respective part is passed as a file
        if which == "grammar":
            if not any(f.endswith(".bnf") for f in spec_files):
                spec_opts = _drop_opt(spec_opts, "-g")
                spec_files.append("g.bnf")
                files["g.bnf"] = case["gtexts"][0]
            target = [f for f in spec_files if f.endswith(".bnf")][0]
        elif which == "constraint":
            if not any(f.endswith(".isla") for f in spec_files):
                files["c9.isla"] = "true"
                spec_files.append("c9.isla")
            target = [f for f in spec_files if f.endswith(".isla")][0]
        else:
            if not in_files:
                in_opts = []
                in_files = [inp["fname"]]
                files[inp["fname"]] = inp["text"]
            target = in_files[0]
        if ne:
            del files[target]
        else:
            files[target] = b"\xff\xfe1\x80"
    for nme, txt in files.items():
        with open(os.path.join(d, nme), "wb") as fh:
            fh.write(txt if isinstance(txt, bytes) else txt.encode("utf-8"))
    if case["extra"].get("outdir"):
        os.makedirs(os.path.join(d, "outdir"), exist_ok=True)
    positional = spec_files + in_files
    _r.Random(case["shuffle"]).shuffle(positional)
    mid = spec_opts + in_opts + list(case["opts"])
    argv = [case["cmd"]] + (positional + mid if case["files_first"] else mid + positional)
    return argv, {"opts": spec_opts, "files": spec_files}


def _drop_opt(opts, flag):
    out = []
    i = 0
    while i < len(opts):
        if opts[i] == flag:
            i += 2
            continue
        out.append(opts[i])
        i += 1
    return out


def feedback_argv(spec, d, sol, idx, as_tree):
    """argv for `isla check` on one produced output"""
    opts = list(spec["opts"])
    if "-c" not in opts and not any(f.endswith(".isla") for f in spec["files"]):
        opts += ["-c", "true"]
    if sol == "" or sol.startswith("-") or (idx % 2 == 1 and not as_tree):
        nme = "fb_%d.txt" % idx
        with open(os.path.join(d, nme), "wb") as fh:
            # ISLa drops one trailing newline of an input file: add one, so that the input is exactly `sol`
            fh.write((sol + "\n").encode("utf-8"))
        return ["check"] + opts + spec["files"] + [nme], "file"
    return ["check"] + opts + ["-i", sol] + spec["files"], "arg"


# ------------------------------------------------------------------ judging

def judge(case):
    base = os.getcwd() if os.sep + ".work" + os.sep in os.getcwd() + os.sep else tempfile.gettempdir()
    d = tempfile.mkdtemp(prefix="c19_", dir=base)
    old = os.getcwd()
    try:
        os.chdir(d)
        return _judge(case, d)
    finally:
        os.chdir(old)
        shutil.rmtree(d, ignore_errors=True)


def scenario_class(case):
    """root-cause oriented class of a scenario; first component of every signature"""
    err = case["err"]
    if err is None:
        inp = case["input"]
        if inp is not None and inp["cls"] == "json_tree_partial":
            return "json_tree_partial"
        return "plain"
    sub = case.get("gmal") or next((c["mal"] for c in case["constraints"] if c["mal"]), None) or case.get("binary") or case.get("nonexistent")
    return err + (":" + sub if sub else "")


def _basic(cmd, r, viol, origin="", cls="plain"):
    """contract that holds for every invocation"""
    if r["exc"]:
        frames = [tuple(f) for f in r.get("frames", [])]
        if cmd in ("repair", "mutate") and ("solver.py", cmd) in frames:
            # raised inside ISLaSolver.repair/mutate and not handled by the command (`solve` has a handler)
            sig = "uncaught:%s:%s:solver:%s" % (cls, cmd, r["exc"])
        else:
            sig = "uncaught:%s:%s:%s@%s" % (cls, cmd, r["exc"], r["where"])
        viol.append({"sig": sig, "origin": origin, "detail": r.get("detail"), "tb": r.get("tb")})
        return False
    if L.TB in r["out"] or L.TB in r["err"]:
        viol.append({"sig": "traceback_on_stream:%s:%s" % (cls, cmd), "origin": origin, "err": r["err"][-600:]})
    if r["status"] not in L.CONTRACT:
        viol.append({"sig": "status_outside_contract:%s:%s:%r" % (cls, cmd, r["status"]), "origin": origin, "err": r["err"][-300:]})
    return True


def _error_expectation(case):
    """(allowed status set | None, needs_message) from the designed error class"""
    err, cmd = case["err"], case["cmd"]
    if err in ("grammar_missing", "input_missing", "file_nonexistent"):
        return {2}, False
    if err == "grammar_mal":
        if case["gmal"] == "empty":
            return {2, 65}, False
        return {65}, True
    if err == "constraint_mal":
        if any(c.get("mal") == "bad_pred_arg" for c in case["constraints"]):
            # a wrong predicate *argument* parses; it is only noticed when the predicate is evaluated.  If the
            # input is rejected first (exit 1) or the command is not `check`, both 1 and 65 honour the contract.
            inp = case.get("input") or {}
            if cmd != "check" or inp.get("cls") not in ("valid", "sem_invalid", "json_tree"):
                return {1, 65}, False
        return {65}, True
    if err == "binary":
        return ({65}, True) if case["binary"] != "input" else ({1, 65}, False)
    return None, False


def _judge(case, d):
    cmd, err = case["cmd"], case["err"]
    g = case["grammar"]
    cg = rt.canon(g)
    inp = case["input"]
    labels = ["cmd:" + cmd, "err:" + (err or "none"), "g:" + case["gname"], "gmode:" + case["gmode"],
              "constraints:%d" % len(case["constraints"])]
    if case["gmal"]:
        labels.append("gmal:" + case["gmal"])
    for c in case["constraints"]:
        if c["mal"]:
            labels.append("cmal:" + c["mal"])
    if inp is not None:
        labels += ["input:" + inp["cls"], "in_via:" + inp["via"]]
    viol = []
    counters = {}
    argv, spec = materialize(case, d)
    t0 = time.time()
    if cmd == "mutate":
        # `isla mutate` loops until a mutant can be repaired: give it a smaller share of the runner's
        # cooperative budget (same timer, same handler; a hit is an inconclusive "timeout")
        left = signal.getitimer(signal.ITIMER_REAL)[0]
        if left > MUTATE_BUDGET:
            signal.setitimer(signal.ITIMER_REAL, MUTATE_BUDGET)
    r = L.run_cli(argv, case["rseed"])
    counters["ms_main:" + cmd] = int(1000 * (time.time() - t0))
    labels.append("status:%s" % (r["status"] if not r["exc"] else "uncaught"))
    sample = {"argv": [a if len(a) < 200 else a[:200] + "..." for a in argv], "status": r["status"], "out": r["out"][:120], "err": r["err"][-160:]}
    cls = scenario_class(case)
    ok = _basic(cmd, r, viol, cls=cls)
    inconclusive = None
    nontrivial = False
    formulas = [c["f"] for c in case["constraints"]]

    if r["exc"] == "UnknownResultError" and inp is not None and inp["cls"] != "json_tree_partial":
        # Z3 gave up inside ISLa's 500 ms budget: retry with a long budget before calling it a defect
        with L.long_z3_timeout():
            r2 = L.run_cli(argv, case["rseed"])
        if not r2["exc"]:
            viol[:] = []
            r, ok = r2, True
            labels.append("z3_unknown_at_500ms")
        else:
            return {"labels": labels + ["z3_unknown"], "nontrivial": False, "violations": [], "inconclusive": "z3_unknown", "sample": sample}

    if err is not None:
        allowed, need_msg = _error_expectation(case)
        nontrivial = True
        if ok and allowed is not None:
            if r["status"] not in allowed:
                viol.append({"sig": "status:%s:%s:got%s" % (cls, cmd, r["status"]),
                             "expected": sorted(allowed), "argv": argv, "out": r["out"][:300], "err": r["err"][-600:]})
            elif need_msg and r["status"] == 65 and not r["err"].strip():
                viol.append({"sig": "no_error_message:%s:%s" % (cls, cmd), "argv": argv})
        labels.append("expected:" + ("/".join(str(x) for x in sorted(allowed)) if allowed else "any"))
    elif ok:
        if cmd in ("check", "parse"):
            nontrivial, inconclusive = _judge_check_parse(case, d, g, cg, formulas, argv, spec, r, viol, labels, counters)
        elif cmd == "solve":
            nontrivial, inconclusive = _judge_outputs(case, d, g, formulas, argv, spec, r, viol, labels, counters)
        else:
            nontrivial, inconclusive = _judge_outputs(case, d, g, formulas, argv, spec, r, viol, labels, counters)

    counters["ms_judge:" + cmd] = int(1000 * (time.time() - t0))
    if case.get("child") and not viol and inconclusive is None:
        t1 = time.time()
        _judge_child(case, d, argv, r, viol, labels)
        counters["ms_child"] = int(1000 * (time.time() - t1))
    res = {"labels": labels, "nontrivial": bool(nontrivial), "violations": viol, "inconclusive": inconclusive,
           "sample": sample}
    if counters:
        res["counters"] = counters
    return res


def _expected_for_input(case, g, formulas):
    """-> (status set, tree, info) for the scenario's input; raises L.Unjudged"""
    inp = case["input"]
    via = "file" if inp["via"] == "file" else "arg"
    if via == "arg" and inp["text"] == "":
        # `-i ""`: no input at all, or the empty input -- both readings accepted
        st, tree, info = L.expected_check(g, formulas, "", "arg", None)
        return {2, st}, tree, info | {"empty_arg"}
    st, tree, info = L.expected_check(g, formulas, inp["text"], via, inp.get("hint"))
    return {st}, tree, info


def _check_verdict(cmdname, argv, rseed, r, allowed, viol, labels, extra=None):
    """compare an `isla check` status with the expectation; one retry with a long Z3 budget"""
    if r["status"] in allowed:
        return True
    with L.long_z3_timeout():
        r2 = L.run_cli(argv, rseed)
    if not r2["exc"] and r2["status"] in allowed:
        labels.append("z3_timeout_retry")
        return True
    v = {"sig": "%s:verdict:exp%s:got%s" % (cmdname, "/".join(str(x) for x in sorted(allowed)), r["status"]),
         "argv": argv, "out": r["out"][:300], "err": r["err"][-400:]}
    v.update(extra or {})
    viol.append(v)
    return False


def _judge_check_parse(case, d, g, cg, formulas, argv, spec, r, viol, labels, counters):
    cmd = case["cmd"]
    try:
        allowed, tree, info = _expected_for_input(case, g, formulas)
    except L.Unjudged as e:
        labels.append("unjudged:" + str(e))
        return False, "unjudged:" + str(e)
    labels += sorted(info)
    labels.append("expected:" + "/".join(str(x) for x in sorted(allowed)))
    if len(formulas) >= 2 and tree is not None:
        vs = L.sat_all(cg, tree, formulas)
        if any(vs) and not all(vs):
            labels.append("conj_differs_from_disj")
    if cmd == "check":
        if _check_verdict("check", argv, case["rseed"], r, allowed, viol, labels):
            msg_ok = r["out"].strip() != ""
            if not msg_ok and r["status"] in (0, 1):
                pass  # the message text is not part of the contract
        return True, None
    # parse
    want_tree = allowed == {0}
    emitted = None
    out_file = None
    if "-o" in case["opts"]:
        out_file = os.path.join(d, case["opts"][case["opts"].index("-o") + 1])
        if os.path.exists(out_file):
            with open(out_file, encoding="utf-8") as fh:
                emitted = fh.read()
    else:
        emitted = r["out"] if r["status"] == 0 else None
    vals = L.json_values(emitted) if emitted is not None else None
    has_tree = bool(vals) and len(vals) == 1 and L.tree_shape(vals[0])
    if 0 not in allowed:
        if has_tree:
            viol.append({"sig": "parse:tree_emitted_for_rejected_input", "argv": argv, "out": (emitted or "")[:300]})
        return True, None  # the exit status of `parse` for rejected inputs is not documented
    if not want_tree:
        return True, None  # {2, 0}: empty -i
    if r["status"] != 0:
        _check_verdict("parse", argv, case["rseed"], r, allowed, viol, labels)
        return True, None
    if not has_tree:
        viol.append({"sig": "parse:no_json_tree", "argv": argv, "out": (emitted or "")[:300], "status": r["status"]})
        return True, None
    t = rt.from_parse_tree(vals[0])
    if not rt.valid(cg, t, root="<start>"):
        viol.append({"sig": "parse:tree_invalid", "argv": argv, "why": rt.why_invalid(cg, t, "<start>"), "out": emitted[:300]})
    elif tree is not None and rt.tyield(t) != rt.tyield(tree):
        viol.append({"sig": "parse:yield_differs", "argv": argv, "got": rt.tyield(t), "want": rt.tyield(tree)})
    pretty = "\n" in emitted.strip()
    labels.append("parse_pretty" if pretty else "parse_compact")
    # feed back into check
    js = emitted.strip() if chance_from(case, 0.5) else json.dumps(vals[0])
    fargv, via = feedback_argv(spec, d, js, 0, True)
    fr = L.run_cli(fargv, case["rseed"])
    if _basic("check", fr, viol, "parse-feedback", cls="feedback"):
        if fr["status"] != 0:
            _check_verdict("parse:output_rejected_by_check", fargv, case["rseed"], fr, {0}, viol, labels)
    counters["fed_back"] = counters.get("fed_back", 0) + 1
    return True, None


def chance_from(case, p):
    return (case["shuffle"] % 100) < p * 100


def _collect_outputs(case, d, r):
    """list of (text, is_tree) printed/written by solve, repair, mutate; None = cannot be split reliably"""
    cmd, opts = case["cmd"], case["opts"]
    cg = rt.canon(case["grammar"])
    newline_in_lang = any("\n" in ch for ch in grammar_chars(cg))
    if cmd == "solve":
        as_tree = "--tree" in opts or "-T" in opts
        if "-d" in opts:
            od = os.path.join(d, opts[opts.index("-d") + 1])
            outs = []
            if os.path.isdir(od):
                for nme in sorted(os.listdir(od), key=lambda x: (len(x), x)):
                    with open(os.path.join(od, nme), "rb") as fh:
                        outs.append(fh.read().decode("utf-8"))
            return [(o, as_tree) for o in outs]
        if as_tree:
            vals = L.json_values(r["out"])
            if vals is None:
                return "not_json"
            return [(json.dumps(v), True) for v in vals]
        if not r["out"]:
            return []
        if not newline_in_lang:
            return [(x, False) for x in r["out"].split("\n")[:-1]]
        n = opts[opts.index("-n") + 1] if "-n" in opts else "1"
        if n == "1" and r["out"].endswith("\n"):
            return [(r["out"][:-1], False)]
        return None
    # repair / mutate: one result
    if r["status"] != 0:
        return []
    if "-o" in opts:
        p = os.path.join(d, opts[opts.index("-o") + 1])
        if not os.path.exists(p):
            return []
        with open(p, encoding="utf-8") as fh:
            return [(fh.read(), False)]
    if not r["out"].endswith("\n"):
        return []
    return [(r["out"][:-1], False)]


def _judge_outputs(case, d, g, formulas, argv, spec, r, viol, labels, counters):
    cmd = case["cmd"]
    if case["input"] is not None and case["input"]["cls"] == "json_tree_partial":
        return True, None  # open / non-<start> trees as input: undocumented, only the basic contract is judged
    outs = _collect_outputs(case, d, r)
    if outs == "not_json":
        viol.append({"sig": "solve:tree_output_not_json", "argv": argv, "out": r["out"][:400]})
        return True, None
    if "UNSAT" in r["err"]:
        labels.append("stderr_unsat")
    if cmd != "solve" and r["status"] != 0:
        labels.append(cmd + "_gave_up")
    if outs is None:
        labels.append("outputs_not_separable")
        return False, None
    if not outs:
        labels.append(cmd + "_no_output")
        return cmd != "solve", None
    labels.append(cmd + "_outputs:%d" % min(len(outs), 5))
    for idx, (sol, is_tree) in enumerate(outs[:4]):
        fargv, via = feedback_argv(spec, d, sol, idx, is_tree)
        fr = L.run_cli(fargv, case["rseed"])
        counters["fed_back"] = counters.get("fed_back", 0) + 1
        if not _basic("check", fr, viol, cmd + "-feedback", cls="feedback"):
            if fr["exc"] == "UnknownResultError":
                viol.pop()
                return False, "z3_unknown"
            continue
        try:
            st, _tree, _info = L.expected_check(g, formulas, sol, "arg", None)
        except L.Unjudged as e:
            st = None
            labels.append("feedback_unjudged:" + str(e))
        if fr["status"] != 0:
            with L.long_z3_timeout():
                fr2 = L.run_cli(fargv, case["rseed"])
            if not fr2["exc"] and fr2["status"] == 0:
                labels.append("z3_timeout_retry")
                continue
            viol.append({"sig": "%s:output_rejected_by_check" % cmd, "argv": argv, "output": sol[:300], "check_argv": fargv,
                         "check_status": fr["status"], "check_out": fr["out"][:200], "reference_status": st})
        elif st == 1:
            viol.append({"sig": "check:verdict:exp1:got0", "origin": cmd + "-feedback", "argv": fargv, "output": sol[:300]})
    return True, None


def _judge_child(case, d, argv, r, viol, labels):
    # fresh directory state for the child: remove what the in-process run wrote
    for nme in os.listdir(d):
        p = os.path.join(d, nme)
        if os.path.isdir(p):
            shutil.rmtree(p, ignore_errors=True)
        else:
            os.unlink(p)
    materialize(case, d)
    cr = L.run_child(argv, d)
    if cr is None:
        labels.append("child_timeout")
        return
    labels.append("child")
    cmd = case["cmd"]
    if L.TB in cr["err"] or L.TB in cr["out"]:
        last = [ln for ln in cr["err"].strip().split("\n") if ln.strip()][-1] if cr["err"].strip() else "?"
        exc = last.split(":")[0].strip().split(".")[-1]
        viol.append({"sig": "uncaught:child:%s:%s" % (cmd, exc), "argv": argv, "err": cr["err"][-800:]})
        return
    if cr["status"] not in L.CONTRACT:
        viol.append({"sig": "status_outside_contract:child:%s:%r" % (cmd, cr["status"]), "argv": argv, "err": cr["err"][-300:]})
        return
    deterministic = cmd in ("check", "parse") or r["status"] in (2, 65)
    if deterministic:
        if cr["status"] != r["status"]:
            viol.append({"sig": "child:status_differs:%s" % cmd, "argv": argv, "in_process": r["status"], "child": cr["status"],
                         "child_err": cr["err"][-400:]})
        elif cmd in ("check", "parse") and cr["out"] != r["out"]:
            viol.append({"sig": "child:stdout_differs:%s" % cmd, "argv": argv, "in_process": r["out"][:300], "child": cr["out"][:300]})


# ------------------------------------------------------------------ generator health

def health(stats, tier):
    c = stats["classes"]
    n = max(1, stats["evaluations"])
    if n < 150:
        return None
    need = {"cmd:check": 0.25, "cmd:parse": 0.08, "cmd:solve": 0.05, "cmd:repair": 0.03, "cmd:mutate": 0.03,
            "err:grammar_mal": 0.03, "err:constraint_mal": 0.03, "input:empty": 0.02, "input:json_non_tree": 0.03,
            "input:json_tree": 0.03, "expected:0": 0.1, "expected:1": 0.1, "expected:2": 0.02, "expected:65": 0.05}
    for k, share in need.items():
        if c.get(k, 0) < share * n:
            return "class %s only %d of %d cases" % (k, c.get(k, 0), n)
    if c.get("conj_differs_from_disj", 0) < 0.015 * n:
        return "only %d cases where conjunction and disjunction of the constraints differ" % c.get("conj_differs_from_disj", 0)
    prod = sum(v for k, v in c.items() if k.startswith("solve_outputs:"))
    # (solver productivity depends on machine load: the floor only guards against a dead generator)
    if prod < 0.06 * c.get("cmd:solve", 0) and c.get("cmd:solve", 0) > 30:
        return "solve printed solutions in only %d of %d solve scenarios" % (prod, c.get("cmd:solve", 0))
    return None
