"""C01 -- every tree returned by ISLaSolver.solve() is closed, grammar-valid and satisfies the constraint.

The engine (generate / run_config) is shared with C02, which judges the same histories for exceptions.
"""
import random as pyrandom

from vlib.runner import reraise_if_timeout

from vlib import rt, gen, fml, solvergen
from vlib.gen import chance, pick

ID = "C01"
CASES = {"quick": 320, "thorough": 6000}
SOFT = 25
HARD = 90
SOLVER_TIMEOUT = 5
MAX_SOLUTIONS = 10
RULE = ("case = solver configuration (grammar: zoo or random; constraint from a template family instantiated over the "
        "grammar -- universal/existential string (in)equalities, str.len / str.to.int comparisons with arithmetic, "
        "prefix/suffix/contains, count with literal and with numeric quantifier, structural predicates over two "
        "quantified nodes, match expressions binding children, nested 'in', definition-use, Boolean combinations, random "
        "low-depth formulas, a numeric condition on a node next to a condition on one of its parts; 30% of the cases are "
        "conjunctions (rarely disjunctions) of two templates, half of them a tree-shaping conjunct (count, str.to.int, "
        "str.len) next to a node-constraining one; settings: free/SMT instantiation limits, optimized Z3 queries, unique trees, insertion "
        "methods and result limit, global fuzzer, start symbol; rseed); solve() is called up to 10 times and EVERY "
        "returned tree is judged when it is returned: no open leaves, valid derivation tree rooted in the (requested) "
        "start symbol, string in the language (harness recogniser), constraint satisfied under the reference "
        "semantics; non-trivial = at least one tree returned and the constraint is discriminating (falsified by one of "
        "30 harness-generated trees); distinct by (grammar, constraint) hash")
ASSUMPTIONS = ["constraints in core syntax from the fragment the reference semantics decides (vlib/fml.py); sugar is C08's business",
               "solver budget 5 s per configuration (TimeoutError ends the history); hard kills are inconclusive"]

ALPHA = ["a", "b", "c", "x", "0", "1", " ", ";", "=", "(", ")", "ab", ","]


def selftest():
    from props import c03_evaluate
    c03_evaluate.selftest()


def gen_grammar(rnd):
    if rnd.random() > 0.35:
        name = pick(rnd, ["lang", "blk", "csv", "xml", "rec", "int", "rec", "lang", "pad"])  # not "eps": <l> =>+ <l>, outside the parser's domain
        return name, gen.ZOO[name]
    g = gen.acyclic_grammar(rnd, max_nts=5, alphabet=ALPHA)
    if chance(rnd, 0.5):
        keys = [k for k in g if k != "<start>"]
        host = pick(rnd, keys)
        g = dict(g)
        g[host] = list(g[host]) + [pick(rnd, ["<num>", "<num>;", "=<num>"])]
        g["<num>"] = ["<dig><num>", "<dig>"]
        g["<dig>"] = ["0", "1", "2", "7"]
    return "random", g


def generate(rnd, tier):
    name, g = gen_grammar(rnd)
    cg = rt.canon(g)
    md = rt.min_depths(cg)
    start = None
    if chance(rnd, 0.2):
        # requested start symbol: the constraint is generated over the sub-grammar reachable from it
        # (ISLaSolver deletes the unreachable rest and rejects constraints that mention it)
        cands = [k for k in g if k != "<start>" and rt.reach(cg)[k]]
        if cands:
            start = pick(rnd, cands)
    gg_ = restrict_grammar(g, start) if start else g
    cgr = rt.canon(gg_)
    trees = [gen.tree(rnd, cgr, "<start>", rnd.randint(2, 6), rt.min_depths(cgr), bias=0.8) for _ in range(4)]
    lits = fml.sample_lits(cgr, trees)
    tname, f = solvergen.template(rnd, cgr, lits, name if not start else None, prefer=start)
    if chance(rnd, 0.3):
        # two independent templates side by side: what one conjunct makes the solver do to the tree (insert, embed,
        # expand, replace a subtree by a parsed SMT value) must not invalidate what was already established for the
        # other; half of the pairs put a tree-shaping conjunct (count, str.to.int) next to a node-constraining one
        only2 = None
        if chance(rnd, 0.5):
            tname, f = solvergen.template(rnd, cgr, lits, name if not start else None, prefer=start,
                                          only={"count_lit", "count_numq", "toint", "toint_arith", "forall_len"})
            only2 = {"exists_eq", "exists_len", "forall_eq", "forall_neq", "mexpr_children", "nested_in_smt"}
        n2, f2 = solvergen.template(rnd, cgr, lits, name if not start else None, prefer=start, only=only2)
        f = [pick(rnd, ["and", "and", "and", "or"]), solvergen.rename_bound(f, "a"), solvergen.rename_bound(f2, "b")]
        tname = "conj(%s,%s)" % (tname, n2)
    st = solvergen.settings(rnd)
    return {"grammar": g, "gname": name, "template": tname, "formula": f, "settings": st, "start_symbol": start,
            "n": rnd.randint(2, MAX_SOLUTIONS), "rseed": rnd.randint(0, 10 ** 6)}


def restrict_grammar(g, start):
    """the sub-grammar reachable from `start`, with <start> ::= start (what a user gets with start_symbol)"""
    cg = rt.canon(g)
    R = rt.reach(cg)
    keep = {start} | R[start]
    out = {"<start>": [start]}
    for k in g:
        if k in keep and k != "<start>":
            out[k] = g[k]
    return out


def run_config(case, after=3):
    """runs the solve() history of a configuration; returns an observation dict (no judgement)"""
    from isla.solver import ISLaSolver
    g = case["grammar"]
    text = fml.pr(case["formula"])
    kw = dict(case["settings"])
    if kw.get("tree_insertion_methods", None) is None:
        kw.pop("tree_insertion_methods", None)
    if case.get("start_symbol"):
        kw["start_symbol"] = case["start_symbol"]
    obs = {"text": text, "events": [], "trees": [], "ctor_error": None}
    pyrandom.seed(case["rseed"])
    try:
        s = ISLaSolver(g, text, timeout_seconds=case.get("timeout", SOLVER_TIMEOUT), **kw)
    except Exception as e:
        obs["ctor_error"] = "%s: %s" % (type(e).__name__, str(e)[:200])
        return obs
    ended = None
    for i in range(case["n"]):
        try:
            t = s.solve()
            obs["events"].append("tree")
            obs["trees"].append(rt.from_dt(t))
        except StopIteration:
            ended = "StopIteration"
        except TimeoutError:
            ended = "TimeoutError"
        except Exception as e:
            reraise_if_timeout(e)
            import traceback
            tb = traceback.extract_tb(e.__traceback__)
            fr = [x for x in tb if "/isla/" in x.filename]
            where = fr[-1].name if fr else "?"
            obs["events"].append("raises:%s@%s" % (type(e).__name__, where))
            obs["error_detail"] = ("%s (line %s) " % (where, fr[-1].lineno if fr else "?")) + str(e)[:300]
            ended = "exception"
        if ended:
            if ended != "exception":
                obs["events"].append(ended)
            break
    if ended in ("StopIteration", "TimeoutError"):
        for _ in range(after):
            try:
                s.solve()
                obs["events"].append("tree_after_end")
            except StopIteration:
                obs["events"].append("StopIteration")
            except TimeoutError:
                obs["events"].append("TimeoutError")
            except Exception as e:
                reraise_if_timeout(e)
                obs["events"].append("raises:%s" % type(e).__name__)
    obs["ended"] = ended or "count"
    return obs


def discriminating(case, cg, root):
    rnd = pyrandom.Random(case["rseed"] + 17)
    md = rt.min_depths(cg)
    for _ in range(30):
        t = gen.tree(rnd, cg, root, rnd.randint(1, 6), md, bias=0.7)
        try:
            v, flags, _ = fml.sat(cg, t, case["formula"])
        except fml.Undecided:
            continue
        if not v:
            return True
    return False


def count_on_recursive_type(cg, f, root):
    """the constraint has a count(v, ..) atom whose tree argument v has a recursive nonterminal type
    (known finding: the count solution embeds the original node below a new root and is then dropped)"""
    R = rt.reach(cg)
    types = {"start": root}
    for x in fml.walk(f):
        if x[0] in ("forall", "exists"):
            types[x[2]] = x[1]
            for v, T in (fml.mexpr_vars(x[4]) if x[4] else []):
                types[v] = T
    for x in fml.walk(f):
        if x[0] == "count":
            T = types.get(x[1])
            if T and T in R.get(T, set()):
                return True
    return False


def negated_count(f, neg=False):
    """a count atom with a literal number occurs under an odd number of negations (or below xor/iff, or left of
    implies), i.e. negated in negation normal form"""
    k = f[0]
    if k == "count":
        return neg
    if k == "not":
        return negated_count(f[1], not neg)
    if k in ("and", "or"):
        return any(negated_count(x, neg) for x in f[1:])
    if k == "implies":
        return negated_count(f[1], not neg) or negated_count(f[2], neg)
    if k in ("iff", "xor"):
        return any(negated_count(x, True) or negated_count(x, False) for x in f[1:])
    if k in ("forall", "exists"):
        return negated_count(f[5], neg)
    if k in ("forallint", "existsint"):
        return negated_count(f[2], neg)
    return False


def _ambiguous(cg, root, s):
    try:
        return rt.count_trees(cg, root, s, cap=2) > 1
    except Exception:
        return False


def universal_numq_count(f, neg=False):
    """a numeric quantifier that is universal in negation normal form (forall int at positive polarity, exists int at
    negative polarity, either below iff/xor) binds the number argument of a count atom -- the solver instantiates such
    quantifiers with a few chosen values only (open finding)"""
    k = f[0]
    if k == "not":
        return universal_numq_count(f[1], not neg)
    if k in ("and", "or"):
        return any(universal_numq_count(x, neg) for x in f[1:])
    if k == "implies":
        return universal_numq_count(f[1], not neg) or universal_numq_count(f[2], neg)
    if k in ("iff", "xor"):
        return any(universal_numq_count(x, True) or universal_numq_count(x, False) for x in f[1:])
    if k in ("forall", "exists"):
        return universal_numq_count(f[5], neg)
    if k in ("forallint", "existsint"):
        universal = (k == "forallint") != neg
        if universal and any(x[0] == "count" and x[3] == ["v", f[1]] for x in fml.walk(f[2])):
            return True
        return universal_numq_count(f[2], neg)
    return False


def universal_numq(f, neg=False):
    """some numeric quantifier is universal in negation normal form (with or without count)"""
    k = f[0]
    if k == "not":
        return universal_numq(f[1], not neg)
    if k in ("and", "or"):
        return any(universal_numq(x, neg) for x in f[1:])
    if k == "implies":
        return universal_numq(f[1], not neg) or universal_numq(f[2], neg)
    if k in ("iff", "xor"):
        return any(x[0] in ("forallint", "existsint") for a in f[1:] for x in fml.walk(a))
    if k in ("forall", "exists"):
        return universal_numq(f[5], neg)
    if k in ("forallint", "existsint"):
        return ((k == "forallint") != neg) or universal_numq(f[2], neg)
    return False


def judge(case):
    g, f = case["grammar"], case["formula"]
    start = case.get("start_symbol")
    cg = rt.canon(g)
    root = start or "<start>"
    labels = ["template:" + case["template"].split("(")[0]] + ["set:%s" % k for k in sorted(case["settings"])]
    if start:
        labels.append("start_symbol")
    if start:
        # the constraint text mentions types of the whole grammar; with a requested start symbol the
        # solver works on the sub-grammar, where quantifiers over unreachable types are vacuous
        pass
    obs = run_config(case)
    if obs["ctor_error"]:
        return {"labels": labels + ["ctor_error"], "nontrivial": False, "violations": [], "inconclusive": "ctor_error",
                "sample": {"constraint": obs["text"], "ctor_error": obs["ctor_error"]}}
    labels.append("ended:" + obs["ended"])
    labels.append("solutions:%s" % ("0" if not obs["trees"] else "1-3" if len(obs["trees"]) <= 3 else ">3"))
    viol = []
    flagged = set()
    for i, t in enumerate(obs["trees"]):
        s = rt.tyield(t)
        if rt.is_open(t):
            viol.append({"sig": "solution:open_tree", "index": i, "constraint": obs["text"], "string": s})
            continue
        why = rt.why_invalid(cg, t, root)
        if why:
            viol.append({"sig": "solution:invalid_tree", "index": i, "constraint": obs["text"], "string": s, "detail": why})
            continue
        if not rt.member(cg, root, s):
            viol.append({"sig": "solution:string_not_in_language", "index": i, "constraint": obs["text"], "string": s})
            continue
        try:
            v, flags, _ = fml.sat(cg, t, f)
        except fml.Undecided:
            flagged.add("ref_undecided")
            continue
        if flags:
            flagged |= set(flags)
            continue
        if "existsint" in str(f) or "forallint" in str(f):
            try:
                if fml.sat(cg, t, f, numq_min=1)[0] != v:
                    flagged.add("numq_zero_dependent")
                    continue
                if fml.sat(cg, t, f, numq_all_ints=True)[0] != v:
                    # the verdict hinges on whether numeric variables range over numerals only (specification)
                    # or over all strings (what ISLa implements: open finding numq-all-strings, filed under C03)
                    flagged.add("numq_reading_dependent")
                    continue
            except fml.Undecided:
                continue
        if not v:
            root_cause = ""
            if any(x[0] == "pred" and x[1] == "nth" for x in fml.walk(f)):
                root_cause = ":nth"
            # (":count_on_recursive_type" was a qualifier until the finding was repaired in /repo 11e9a75 + follow-up;
            # a recurrence is reported as a plain solution:violates_constraint)
            elif negated_count(f):
                root_cause = ":negated_count"
            elif universal_numq_count(f):
                root_cause = ":universal_numq_count"
            elif universal_numq(f):
                root_cause = ":universal_numq"
            elif start and any(x[0] == "exists" and x[1] == start for x in fml.walk(f)):
                # open finding: an existential quantifier over the requested start symbol itself
                root_cause = ":exists_over_requested_start_symbol"
            elif _ambiguous(cg, root, s) and any(x[0] in ("forall", "exists") for x in fml.walk(f)):
                # open finding: the solver parses the Z3 value found for a partially expanded node from scratch; for a
                # string with several derivations the new subtree can have another structure than the one the
                # quantifiers had been matched (and eliminated) on
                root_cause = ":ambiguous_string_reparsed"
            viol.append({"sig": "solution:violates_constraint%s" % root_cause, "index": i, "constraint": obs["text"], "string": s,
                         "template": case["template"], "settings": case["settings"]})
            break
    nontrivial = bool(obs["trees"]) and not flagged and discriminating(case, cg, root)
    return {"labels": labels + sorted(flagged), "nontrivial": nontrivial, "violations": viol, "inconclusive": None,
            "key": None, "sample": {"constraint": obs["text"], "settings": case["settings"], "solutions": [rt.tyield(t)[:60] for t in obs["trees"][:4]],
                                    "events": obs["events"][:14]}}


def health(stats, tier):
    c = stats["classes"]
    n = max(1, stats["evaluations"])
    prod = n - c.get("solutions:0", 0) - c.get("ctor_error", 0)
    if prod < 0.4 * n:
        return "only %d of %d configurations produced a solution" % (prod, n)
    return None
