"""C22 -- solving is reproducible for a fixed random seed and a fixed hash seed.

Differential oracle between fresh interpreters: the same job (grammar, constraint, solver settings, random
seed, number of solutions) is run twice in two new processes that share nothing (own HOME and cwd, same
PYTHONHASHSEED, same environment otherwise); the printed sequences of solutions - including the way the
sequence ends (n reached / StopIteration / exception type) - must be equal byte for byte.

Flake control (soundness of the oracle): ISLa calls Z3 with 300/500 ms timeouts and z3_solve() retries an
`unknown` answer after re-seeding Z3 from Python's random stream.  A query that times out in one process and
not in the other changes the sequence without any defect, so the child (vlib/c22_child.py) observes EVERY
z3.Solver.check() verdict from outside and a pair in which either run saw an `unknown` is inconclusive (the pair
is re-run once before that).  Budget hits, parent-side kills, TimeoutError (wall-clock settings) and crashed
children are inconclusive as well.  A third run under a different PYTHONHASHSEED is a statistic only.
"""
import os
import sys
import json
import string

from vlib import rt, gen
from vlib.gen import chance, pick

ID = "C22"
CASES = {"quick": 40, "thorough": 1200}
SOFT = 260
HARD = 400
BUDGET = 30          # child-side budget (s) for constructing the solver and producing n solutions
KILL_AFTER = 50      # parent-side wall-clock kill of a child (s)
RULE = ("case = (grammar from the zoo / the README assignment language / a random acyclic grammar, constraint "
        "template instantiated with random literals - pure fuzzing, SMT equations/arithmetic/lengths, existential "
        "elimination by tree insertion, def-use, count (also negated and with numeric quantifier), combinations -, "
        "solver settings, random seed, PYTHONHASHSEED, n); oracle = two fresh processes with identical environment "
        "must print the same sequence; non-trivial = both runs conclusive (no Z3 unknown/timeout, no budget hit) with "
        ">= 3 solutions, at least two of them distinct; distinct by configuration hash")
ASSUMPTIONS = [
    "two observations per configuration: low-probability nondeterminism can be missed",
    "only 'same hash seed, same random seed, same machine, same installed packages' is claimed, as the property states",
    "runs in which Z3 answered `unknown` to any query (ISLa's 300/500 ms timeouts make that wall-clock dependent) or "
    "that hit the wall-clock budget are not judged",
    "the observers in the child (wrapper around z3.Solver.check, call counters around random.*) are pass-through",
]

LANG = {"<start>": ["<stmt>"], "<stmt>": ["<assgn> ; <stmt>", "<assgn>"], "<assgn>": ["<var> := <rhs>"],
        "<rhs>": ["<var>", "<digit>"], "<var>": list(string.ascii_lowercase), "<digit>": list(string.digits)}

HASHSEEDS = [0, 0, 0, 1, 7, 42, 12345, 4294967295]


def _grammars():
    g = dict(gen.ZOO)
    g["LANG"] = LANG
    return g


# ------------------------------------------------------------------------------------------------ templates
# family -> grammar name -> list of builders; a builder takes rnd and returns constraint text

def _lit(s):
    return '"' + s + '"'


def _templates():
    T = {}

    def add(fam, gname, fn):
        T.setdefault(fam, {}).setdefault(gname, []).append(fn)

    for gname in ("lang", "LANG"):
        vs = "abc" if gname == "lang" else string.ascii_lowercase
        ds = "012" if gname == "lang" else string.digits
        add("smt_eq", gname, lambda r, vs=vs: '<var> = %s' % _lit(pick(r, vs)))
        add("smt_eq", gname, lambda r, ds=ds: '<digit> = %s' % _lit(pick(r, ds)))
        add("smt_eq", gname, lambda r, vs=vs: 'forall <assgn> a: a.<var> = %s' % _lit(pick(r, vs)))
        add("smt_eq", gname, lambda r, vs=vs: 'forall <assgn> a: not a.<var> = %s' % _lit(pick(r, vs)))
        add("smt_eq", gname, lambda r, vs=vs, ds=ds: '<var> = %s or <digit> = %s' % (_lit(pick(r, vs)), _lit(pick(r, ds))))
        add("exists", gname, lambda r, ds=ds: 'exists <assgn> a: a.<rhs>.<digit> = %s' % _lit(pick(r, ds)))
        add("exists", gname, lambda r, vs=vs: 'exists <assgn> a: a.<var> = %s' % _lit(pick(r, vs)))
        add("exists", gname, lambda r: 'exists <assgn> a1: exists <assgn> a2: (before(a1, a2) and a1.<var> = a2.<var>)')
        add("defuse", gname, lambda r: 'forall <assgn> assgn_1: exists <assgn> assgn_2: (before(assgn_2, assgn_1) and '
                                       'assgn_1.<rhs>.<var> = assgn_2.<var>)')
        # formulas that keep a disjunction / a semantic predicate INSIDE queued states (below quantifiers): their
        # hashes take part in the tie-break of equal-cost states
        add("defuse", gname, lambda r: 'forall <assgn> assgn_1: exists <assgn> assgn_2: ((before(assgn_2, assgn_1) or '
                                       'same_position(assgn_2, assgn_1)) and assgn_1.<rhs>.<var> = assgn_2.<var>)')
        add("defuse", gname, lambda r: 'forall <assgn> assgn_1: exists <assgn> assgn_2: (before(assgn_2, assgn_1) and '
                                       'count(assgn_2, "<var>", "1") and assgn_1.<rhs>.<var> = assgn_2.<var>)')
        add("count", gname, lambda r: 'count(start, "<assgn>", "%d")' % r.randint(2, 5))
        add("count", gname, lambda r: 'not count(start, "<assgn>", "%d")' % r.randint(1, 4))
        add("count", gname, lambda r: 'exists int n: (str.to.int(n) > %d and count(start, "<assgn>", n))' % r.randint(1, 3))
        add("count", gname, lambda r: 'exists int n: not count(start, "<assgn>", n)')
        # several admissible integers: which one Z3 picks must not differ between processes
        add("count", gname, lambda r: 'exists int n: (str.to.int(n) >= 2 and str.to.int(n) <= %d and count(start, "<assgn>", n))' % r.randint(3, 5))
        add("count", gname, lambda r: 'forall <stmt> s in start: exists int n: (str.to.int(n) >= 1 and str.to.int(n) <= 4 and '
                                      'count(s, "<var>", n))')
        add("count", gname, lambda r: 'exists int n: (str.to.int(n) > %d and not count(start, "<assgn>", n))' % r.randint(0, 2))
        add("numeric", gname, lambda r: 'exists int n: str.to.int(n) * 0 = 0')
        add("numeric", gname, lambda r: 'exists int n: forall <stmt> s in start: (str.to.int(n) >= %d and str.len(s) > str.to.int(n))'
            % r.randint(2, 6))
    add("smt_int", "LANG", lambda r: 'str.to.int(<digit>) mod %d = %d' % (pick(r, [2, 3]), r.randint(0, 1)))
    add("smt_int", "LANG", lambda r: 'str.to.int(<digit>) > %d' % r.randint(1, 7))
    add("smt_len", "LANG", lambda r: 'str.len(<var>) = 1')
    add("smt_len", "LANG", lambda r: 'forall <assgn> a: str.len(a) = %d' % pick(r, [6]))

    add("smt_eq", "rec", lambda r: '<key> = %s' % _lit(pick(r, "kl")))
    add("smt_int", "rec", lambda r: 'forall <rec> r: str.to.int(r.<num>) < %d' % r.randint(5, 300))
    add("smt_int", "rec", lambda r: 'forall <rec> r: str.to.int(r.<num>) > %d' % r.randint(5, 300))
    add("smt_len", "rec", lambda r: 'forall <rec> r: str.len(r.<num>) = %d' % r.randint(2, 4))
    add("exists", "rec", lambda r: 'exists <rec> r: r.<key> = %s' % _lit(pick(r, "kl")))
    add("exists", "rec", lambda r: 'exists <rec> r1: exists <rec> r2: (before(r1, r2) and str.to.int(r1.<num>) > '
                                   'str.to.int(r2.<num>))')
    add("count", "rec", lambda r: 'count(start, "<rec>", "%d")' % r.randint(2, 4))
    add("count", "rec", lambda r: 'not count(start, "<rec>", "%d")' % r.randint(1, 3))
    add("numeric", "rec", lambda r: 'exists int n: (count(start, "<rec>", n) and forall <rec> r: str.to.int(r.<num>) > str.to.int(n))')

    add("smt_eq", "int", lambda r: '<sign> = "-"')
    add("smt_int", "int", lambda r: 'str.to.int(<int>) < -%d' % r.randint(2, 200))
    add("smt_int", "int", lambda r: 'forall <num> i in start: str.to.int(i) > %d' % r.randint(20, 500))
    add("smt_int", "int", lambda r: 'exists <int> i: str.to.int(i) = %d' % r.randint(10, 99))
    add("smt_len", "int", lambda r: 'forall <int> i: str.len(i) = %d' % r.randint(3, 5))
    add("count", "int", lambda r: 'count(start, "<int>", "%d")' % r.randint(2, 4))

    add("smt_len", "csv", lambda r: 'forall <row> r: str.len(r) = %d' % r.randint(3, 6))
    add("exists", "csv", lambda r: 'exists <field> f: f = %s' % _lit("".join(pick(r, "xy1") for _ in range(r.randint(1, 3)))))
    add("count", "csv", lambda r: 'exists int n: forall <row> r in start: count(r, "<field>", n)')
    add("smt_eq", "csv", lambda r: 'forall <ch> c: not c = %s' % _lit(pick(r, "xy1")))

    add("smt_eq", "xml", lambda r: '<txt> = %s' % _lit(pick(r, ["t", "tt"])))
    add("smt_eq", "xml", lambda r: 'forall <el> e="({<id> o}<attrs>)<body>(/{<id> c})" in start: (= o c)')
    add("exists", "xml", lambda r: 'exists <attr> a: a.<id> = %s' % _lit(pick(r, "pq")))
    add("exists", "xml", lambda r: 'exists <txt> t: t = "tt"')
    add("count", "xml", lambda r: 'count(start, "<attr>", "%d")' % r.randint(1, 3))

    add("defuse", "blk", lambda r: 'forall <use> u="{<id> l}={<id> r};" in start: exists <decl> d="int {<id> i};" in start: '
                                   '(before(d, u) and (= i r))')
    add("exists", "blk", lambda r: 'exists <decl> d: d.<id> = %s' % _lit(pick(r, "xyz")))
    add("count", "blk", lambda r: 'count(start, "<decl>", "%d")' % r.randint(1, 3))
    add("smt_eq", "blk", lambda r: 'forall <decl> d: d.<id> = %s' % _lit(pick(r, "xyz")))

    add("exists", "eps", lambda r: 'exists <o> o: o = "d"')
    add("smt_eq", "eps", lambda r: 'forall <o> o: o = "d"')
    return T


def _rename_bound(c, suffix):
    """give every variable bound in constraint text c (quantifiers, match-expression binders) a suffix, so that two
    templates can be combined without name clashes"""
    import re
    names = set(re.findall(r'(?:forall|exists)\s+(?:<[^>]+>|int)\s+([A-Za-z_]\w*)', c))
    names |= set(re.findall(r'\{<[^>]+>\s+([A-Za-z_]\w*)\}', c))
    out = []
    for i, part in enumerate(re.split(r'("(?:[^"\\]|\\.)*")', c)):
        if i % 2:  # string literal / match expression: only binders {<T> name}
            part = re.sub(r'\{(<[^>]+>)\s+([A-Za-z_]\w*)\}',
                          lambda m: "{%s %s}" % (m.group(1), m.group(2) + suffix if m.group(2) in names else m.group(2)), part)
        else:
            part = re.sub(r'<[^>]*>|\b([A-Za-z_]\w*)\b',
                          lambda m: m.group(0) + suffix if m.group(1) and m.group(1) in names else m.group(0), part)
        out.append(part)
    return "".join(out)


FAMILIES = ["fuzz", "smt_eq", "smt_int", "smt_len", "exists", "defuse", "count", "numeric", "combo", "rnd_grammar"]


def _settings(rnd, fam):
    s = {}
    if chance(rnd, 0.7):
        s["max_number_free_instantiations"] = pick(rnd, [1, 1, 2, 3, 5, 10])
    if chance(rnd, 0.7):
        s["max_number_smt_instantiations"] = pick(rnd, [1, 2, 3, 3, 5, 10])
    if chance(rnd, 0.3):
        s["max_number_tree_insertion_results"] = pick(rnd, [1, 3, 10])
    if chance(rnd, 0.2):
        s["enforce_unique_trees_in_queue"] = True
    if chance(rnd, 0.2):
        s["global_fuzzer"] = True
    if chance(rnd, 0.25):
        s["fuzzer"] = "plain"
    if chance(rnd, 0.15):
        s["tree_insertion_methods"] = rnd.randint(1, 7)
    if chance(rnd, 0.15):
        s["grammar_unwinding_threshold"] = pick(rnd, [2, 3, 6])
    if chance(rnd, 0.3):
        s["enable_optimized_z3_queries"] = False
    if chance(rnd, 0.2):
        s["cost"] = [pick(rnd, [0, 1, 2, 5, 10, 20]) for _ in range(5)] + [pick(rnd, [2, 3, 4])]
    if chance(rnd, 0.08):
        s["activate_unsat_support"] = True
    return s


def _rnd_grammar_case(rnd):
    """random acyclic grammar with a generic constraint built from one of its own derivations"""
    g = gen.acyclic_grammar(rnd, max_nts=5, alphabet=["a", "b", "c", "0", "1", "x", ";", "=", "ab"], eps=chance(rnd, 0.4))
    cg = rt.canon(g)
    md = rt.min_depths(cg)
    nts = [k for k in g if k != "<start>"]
    nt = pick(rnd, nts)
    kind = rnd.randint(0, 3)
    if kind == 0:
        return g, None, "fuzz"
    if kind == 1:
        y = rt.tyield(gen.tree(rnd, cg, nt, rnd.randint(0, 3), md))
        return g, 'exists %s v: v = %s' % (nt, _lit(y)), "exists"
    if kind == 2:
        return g, 'count(start, "%s", "%d")' % (nt, rnd.randint(1, 3)), "count"
    y = rt.tyield(gen.tree(rnd, cg, nt, rnd.randint(0, 2), md))
    return g, 'forall %s v: not v = %s' % (nt, _lit(y)), "smt_eq"


def generate(rnd, tier):
    T = _templates()
    G = _grammars()
    fam = pick(rnd, ["fuzz", "smt_eq", "smt_int", "smt_int", "smt_len", "smt_len", "exists", "exists", "defuse", "count", "count",
                     "numeric", "combo", "rnd_grammar", "smt_eq"])
    sub = None
    if fam == "fuzz":
        gname = pick(rnd, sorted(G))
        grammar, constraint = G[gname], None
    elif fam == "rnd_grammar":
        gname = "random"
        grammar, constraint, sub = _rnd_grammar_case(rnd)
    elif fam == "combo":
        gname = pick(rnd, ["lang", "LANG", "rec", "int", "xml", "blk"])
        fams = [f for f in sorted(T) if gname in T[f]]
        f1, f2 = pick(rnd, fams), pick(rnd, fams)
        c1, c2 = pick(rnd, T[f1][gname])(rnd), pick(rnd, T[f2][gname])(rnd)
        grammar = G[gname]
        constraint = c1 if c1 == c2 else "(%s) %s (%s)" % (c1, pick(rnd, ["and", "and", "or"]), _rename_bound(c2, "_2"))
        sub = f1 + "+" + f2
    else:
        gname = pick(rnd, sorted(T[fam]))
        grammar = G[gname]
        constraint = pick(rnd, T[fam][gname])(rnd)
    hs = pick(rnd, HASHSEEDS) if chance(rnd, 0.8) else rnd.randint(0, 4294967295)
    alt = None
    if chance(rnd, 0.3):
        alt = pick(rnd, [h for h in (0, 1, 7, 99) if h != hs])
    return {"family": fam, "sub": sub, "gname": gname, "grammar": grammar, "constraint": constraint,
            "settings": _settings(rnd, fam), "rseed": rnd.randint(0, 2 ** 32 - 1), "hashseed": hs,
            "n": pick(rnd, [3, 5, 8, 10, 16, 24] if fam in ("defuse", "combo", "exists") else [3, 4, 5, 6, 8, 10]), "alt_hashseed": alt}


# ------------------------------------------------------------------------------------------------ running children

_CNT = [0]


def _base_dir():
    """directory for the children's private HOME/cwd: the runner's work directory (it is the cwd of a check run
    and removed by the runner), or a directory of this process under .work when replaying"""
    from vlib import env
    work = os.path.join(env.VERIF, ".work")
    cwd = os.getcwd()
    if os.path.abspath(cwd).startswith(work + os.sep):
        return cwd
    d = os.path.join(work, "c22_replay_%d" % os.getpid())
    os.makedirs(d, exist_ok=True)
    return d


def _start_child(job, hashseed, tag):
    """start one fresh interpreter; returns (Popen, directory)"""
    import subprocess
    import tempfile
    from vlib import env
    base = _base_dir()
    _CNT[0] += 1
    d = tempfile.mkdtemp(prefix="p%d_%d_%s_" % (os.getpid(), _CNT[0], tag), dir=base)
    e = {"PATH": os.environ.get("PATH", "/usr/bin:/bin"), "PYTHONHASHSEED": str(hashseed), "HOME": d,
         "PYTHONWARNINGS": "ignore", "VERIF_REPO": env.REPO, "LANG": "C.UTF-8", "PYTHONIOENCODING": "utf-8",
         "PYTHONDONTWRITEBYTECODE": "1"}
    child = os.path.join(env.VERIF, "vlib", "c22_child.py")
    p = subprocess.Popen([sys.executable, child], stdin=subprocess.PIPE, stdout=subprocess.PIPE, stderr=subprocess.DEVNULL,
                         env=e, cwd=d, start_new_session=True)
    try:
        p.stdin.write(json.dumps(job).encode("utf-8"))
        p.stdin.close()
    except OSError:
        pass
    return p, d


def _kill(p):
    import signal
    try:
        os.killpg(p.pid, signal.SIGKILL)
    except OSError:
        pass
    try:
        p.kill()
    except OSError:
        pass


def _run_children(job, hashseeds):
    """run one child per hash seed concurrently; returns list of parsed observations"""
    import time
    import shutil
    import selectors
    procs = []
    try:
        for i, hs in enumerate(hashseeds):
            procs.append(_start_child(job, hs, "r%d" % i))
        t0 = time.time()
        bufs = [b"" for _ in procs]
        open_ = set(range(len(procs)))
        sel = selectors.DefaultSelector()
        for i, (p, _d) in enumerate(procs):
            sel.register(p.stdout, selectors.EVENT_READ, i)
        killed = set()
        while open_:
            left = KILL_AFTER - (time.time() - t0)
            if left <= 0:
                for i in open_:
                    _kill(procs[i][0])
                    killed.add(i)
                break
            for key, _ev in sel.select(timeout=min(left, 1.0)):
                i = key.data
                chunk = os.read(key.fileobj.fileno(), 65536)
                if chunk:
                    bufs[i] += chunk
                else:
                    sel.unregister(key.fileobj)
                    open_.discard(i)
        sel.close()
        obs = []
        for i, (p, _d) in enumerate(procs):
            try:
                rc = p.wait(timeout=5)
            except Exception:
                _kill(p)
                rc = None
            obs.append(_parse(bufs[i].decode("utf-8", "replace"), rc, i in killed))
        return obs
    finally:
        for p, d in procs:
            if p.poll() is None:
                _kill(p)
                try:
                    p.wait(timeout=5)
                except Exception:
                    pass
            for f in (p.stdout, p.stdin):
                try:
                    f.close()
                except Exception:
                    pass
            shutil.rmtree(d, ignore_errors=True)
        if procs:
            base = os.path.dirname(procs[0][1])
            if os.path.basename(base).startswith("c22_replay_"):
                try:
                    os.rmdir(base)
                    os.rmdir(os.path.dirname(base))
                except OSError:
                    pass


def _parse(text, rc, killed):
    """child output -> {"seq": [lines that are compared], "end": marker, "trailer": dict, "status": ok|killed|crash}"""
    seq, end, trailer = [], None, {}
    for line in text.splitlines():
        if line.startswith("S "):
            seq.append(line)
        elif line.startswith("E "):
            end = line[2:]
        elif line.startswith("T "):
            try:
                trailer = json.loads(line[2:])
            except ValueError:
                trailer = {}
    status = "ok"
    if killed:
        status = "killed"
    elif end is None or rc != 0 or not trailer:
        status = "crash"
    return {"seq": seq, "end": end, "trailer": trailer, "status": status, "rc": rc}


def _flaky(o, case):
    """reason why this observation must not be judged, or None"""
    if o["status"] != "ok":
        return "child_" + o["status"]
    if o["end"] == "budget":
        return "budget"
    if o["end"] is not None and o["end"].startswith("harness"):
        return "child_harness"
    t = o["trailer"]
    if t.get("unknown", 0) or t.get("undecided_warnings", 0):
        return "z3_unknown"
    if o["end"] == "timeout":
        return "solver_timeout"  # wall-clock dependent by definition (timeout_seconds / unsat support)
    return None


def _compare(a, b):
    """first difference between two observations, or None.  Compared: every solution line and the end marker."""
    la, lb = a["seq"] + ["E " + str(a["end"])], b["seq"] + ["E " + str(b["end"])]
    if la == lb:
        return None
    i = 0
    while i < min(len(la), len(lb)) and la[i] == lb[i]:
        i += 1
    xa = la[i] if i < len(la) else None
    xb = lb[i] if i < len(lb) else None
    kind = "solution"
    if (xa or "E").startswith("E") or (xb or "E").startswith("E"):
        kind = "end"
    if sorted(la) == sorted(lb):
        kind = "order"
    return {"index": i, "run_a": xa, "run_b": xb, "kind": kind}


_CONSUMER_LABEL = {
    "fuzzer": "use:fuzzer", "solver:expand_tree": "use:solver.expand_tree", "isla_predicates:count": "use:count",
    "solver:create_fixed_length_tree": "use:create_fixed_length_tree", "z3_helpers:z3_solve": "use:z3_solve_retry",
    "solver:extract_model_value_numeric_var": "use:numeric_random", "helpers:shuffle": "use:shuffle",
}


def _consumer_labels(tr):
    out = set()
    for who in (tr.get("consumers") or {}):
        mod = who.split(":")[0]
        out.add(_CONSUMER_LABEL.get(who) or _CONSUMER_LABEL.get(mod) or "use:other:" + who)
    if tr.get("z3_checks"):
        out.add("use:z3")
    return sorted(out)


def judge(case):
    job = {"grammar": case["grammar"], "constraint": case.get("constraint"), "settings": case.get("settings") or {},
           "rseed": case["rseed"], "n": case["n"], "budget": case.get("budget", BUDGET)}
    hs = case.get("hashseed", 0)
    fam = case.get("family", "?")
    labels = ["fam:" + fam, "g:" + str(case.get("gname", "?")), "hashseed:" + ("0" if hs == 0 else "other")]
    for k in sorted(job["settings"]):
        labels.append("set:" + k)
    counters = {"children": 0, "pairs": 0, "pairs_inconclusive": 0, "retries": 0}
    a = b = None
    why = None
    for attempt in range(2):
        a, b = _run_children(job, [hs, hs])
        counters["children"] += 2
        counters["pairs"] += 1
        why = _flaky(a, case) or _flaky(b, case)
        if why is None:
            break
        counters["pairs_inconclusive"] += 1
        if why != "z3_unknown" or attempt == 1:
            break
        # a Z3 `unknown` under load is transient: one more attempt before giving up
        counters["retries"] += 1
        reasons = dict(a["trailer"].get("unknown_reasons") or {})
        reasons.update(b["trailer"].get("unknown_reasons") or {})
        for r in reasons:
            labels.append("z3_unknown_reason:" + r[:30])
    if why is not None:
        # statistic: did the two runs differ although (or because) they were flaky?
        if a["status"] == "ok" and b["status"] == "ok" and _compare(a, b) is not None:
            labels.append("differs_when_flaky:" + why)
        return {"labels": labels + ["inconclusive:" + why], "nontrivial": False, "violations": [], "inconclusive": why,
                "counters": counters}
    labels += _consumer_labels(a["trailer"])
    labels.append("end:" + str(a["end"]))
    viol = []
    d = _compare(a, b)
    if d is not None:
        viol.append({"sig": "nondet:%s:%s" % (case.get("sub") or fam, d["kind"]), "first_difference": d,
                     "run_a": a["seq"][:12] + ["E " + str(a["end"])], "run_b": b["seq"][:12] + ["E " + str(b["end"])],
                     "consumers_a": a["trailer"].get("consumers"), "consumers_b": b["trailer"].get("consumers"),
                     "error_a": a["trailer"].get("error"), "error_b": b["trailer"].get("error")})
    else:
        # statistics only (not part of the property): internal traces of the two runs
        if a["trailer"].get("rng_after") != b["trailer"].get("rng_after"):
            labels.append("stat:rng_state_differs")
        if a["trailer"].get("z3_checks") != b["trailer"].get("z3_checks") or a["trailer"].get("steps") != b["trailer"].get("steps"):
            labels.append("stat:work_differs")
    nsol = min(len(a["seq"]), len(b["seq"]))
    nontrivial = nsol >= 3 and len(set(a["seq"])) >= 2 and len(set(b["seq"])) >= 2
    labels.append("solutions:%s" % ("0" if nsol == 0 else "1-2" if nsol < 3 else "3+"))
    alt = case.get("alt_hashseed")
    if alt is not None and not viol and alt != hs:
        (c,) = _run_children(job, [alt])
        counters["children"] += 1
        if _flaky(c, case) is None:
            labels.append("stat:other_hashseed_" + ("same" if _compare(a, c) is None else "differs"))
        else:
            labels.append("stat:other_hashseed_inconclusive")
    sample = {"gname": case.get("gname"), "constraint": case.get("constraint"), "settings": job["settings"], "rseed": case["rseed"],
              "hashseed": hs, "n": case["n"], "solutions": a["seq"][:4], "end": a["end"]}
    return {"labels": labels, "nontrivial": nontrivial, "violations": viol, "inconclusive": None, "counters": counters,
            "sample": sample}


# ------------------------------------------------------------------------------------------------ self-test, health

def selftest():
    # comparison
    A = {"seq": ["S 'a'", "S 'b'"], "end": "n", "trailer": {"unknown": 0}, "status": "ok"}
    B = {"seq": ["S 'a'", "S 'b'"], "end": "n", "trailer": {"unknown": 0}, "status": "ok"}
    assert _compare(A, B) is None and _flaky(A, {}) is None
    B2 = dict(B, seq=["S 'a'", "S 'c'"])
    assert _compare(A, B2)["kind"] == "solution" and _compare(A, B2)["index"] == 1
    assert _compare(A, dict(B, seq=["S 'b'", "S 'a'"]))["kind"] == "order"
    assert _compare(A, dict(B, end="stop"))["kind"] == "end"
    assert _compare(A, dict(B, seq=["S 'a'"], end="stop"))["kind"] == "end"
    assert _flaky(dict(A, trailer={"unknown": 1}), {}) == "z3_unknown"
    assert _flaky(dict(A, end="budget"), {}) == "budget"
    assert _flaky(dict(A, status="killed"), {}) == "child_killed"
    assert _parse("S 'x'\nE n\nT {\"unknown\": 0}\n", 0, False)["status"] == "ok"
    assert _parse("S 'x'\n", -9, False)["status"] == "crash"
    assert _rename_bound('forall <use> u="{<id> l}={<id> r};" in start: exists int n: (before(u, u) and (= l r) and '
                         'str.len(u.<id>) > str.to.int(n) and count(start, "<n>", n) and r = "r")', "_2") == \
        ('forall <use> u_2="{<id> l_2}={<id> r_2};" in start: exists int n_2: (before(u_2, u_2) and (= l_2 r_2) and '
         'str.len(u_2.<id>) > str.to.int(n_2) and count(start, "<n>", n_2) and r_2 = "r")')
    # every template parses as far as text goes: generator produces JSON-able cases of every family
    import random
    r = random.Random(5)
    fams = set()
    for _ in range(300):
        c = generate(r, "quick")
        json.dumps(c)
        fams.add(c["family"])
    assert fams == set(FAMILIES), fams
    # the child: protocol, the Z3-unknown observer (probe asks Z3 a query it cannot decide within 1 ms),
    # and sensitivity of the comparison to the random seed (two different seeds give different sequences)
    job = {"grammar": gen.ZOO["lang"], "constraint": None, "settings": {}, "rseed": 3, "n": 4, "budget": 60, "probe": "z3_unknown"}
    job2 = dict(job, rseed=4, probe=None)
    job3 = dict(job, probe=None)
    global KILL_AFTER
    old = KILL_AFTER
    KILL_AFTER = 120
    try:
        o1, o2, o3 = _run_children_multi([job, job2, job3], 0)
    finally:
        KILL_AFTER = old
    for o in (o1, o2, o3):
        assert o["status"] == "ok" and o["end"] == "n" and len(o["seq"]) == 4, o
    assert o1["trailer"]["unknown"] >= 1 and _flaky(o1, {}) == "z3_unknown", o1["trailer"]
    assert _flaky(o2, {}) is None and o2["trailer"]["consumers"], o2["trailer"]
    # (that o1 and o3 agree is the property itself and is NOT asserted here: a self-test failure is exit 2)
    assert _compare(o2, o3) is not None, "different seeds must be visible in the output"


def _run_children_multi(jobs, hs):
    """self-test helper: different jobs, one child each, concurrently"""
    import concurrent.futures as cf
    with cf.ThreadPoolExecutor(len(jobs)) as ex:
        return [r[0] for r in ex.map(lambda j: _run_children(j, [hs]), jobs)]


def health(stats, tier):
    n = max(1, stats["evaluations"])
    c = stats["classes"]
    inc = sum(stats["inconclusive"].values())
    crashed = stats["inconclusive"].get("child_crash", 0) + stats["inconclusive"].get("child_harness", 0)
    if crashed > max(2, 0.1 * n):
        return "%d of %d pairs lost to crashed children (harness or native crash): look at vlib/c22_child.py" % (crashed, n)
    if n >= 30:
        if inc > 0.6 * n:
            return "more than 60%% of the pairs inconclusive (%s)" % stats["inconclusive"]
        need = ["use:fuzzer", "use:z3", "use:solver.expand_tree"]
        missing = [k for k in need if not c.get(k)]
        if missing:
            return "randomness consumers never touched: %s" % missing
    return None
