"""C17 -- serialised trees and constraints round-trip without damaging the original.

Two kinds of cases.

* kind "tree": a *history*.  The case is a grammar, a model tree (nested lists with ids) and a JSON
  list of operations.  `judge` keeps a pool of (DerivationTree object, model) pairs and interprets the
  operations one by one: cache computations (k_paths / k_coverage with and without potential paths on
  the root and on inner nodes, hash, structural_hash, str, len, is_open, paths, ==) and serialisations
  (pickle with every protocol, copy.copy, copy.deepcopy, to_json/from_json, __getstate__/__setstate__,
  pickling inside a tuple/dict, the CLI JSON route derivation_tree_to_json -> json.loads ->
  from_parse_tree, and cli.get_input_string on that JSON text), in any order, on any pool member.
  After every step the touched objects are compared with the model by a walk that reads only
  .value/.children/.id (it computes no cache, so it does not disturb the history); at the end every
  pool member goes through the full battery of vlib/c17_lib.py.  Optionally the pool is handed to a
  second interpreter with another PYTHONHASHSEED and a fresh id counter (vlib/c17_child.py).
* kind "smt": an SMT-LIB atom with 1-3 string literals over quotes, backslashes, control characters,
  escape look-alikes and non-ASCII characters, built (a) with the z3 API, (b) by parse_isla from
  concrete syntax, (c) by SMTFormula's SMT-LIB text constructor; serialised through a chain of
  pickle/copy/deepcopy/__getstate__ steps.  Literals are compared by their code points as measured by
  Z3 itself (str.len / str.to_code on the literal), formulas by Z3's s-expression, by ISLa's == and
  hash, and by evaluating original and copy on trees.
"""
import json

from vlib import rt, gen, c17_lib
from vlib.gen import chance, pick

ID = "C17"
CASES = {"quick": 2000, "thorough": 100000}
SOFT = 90
HARD = 300
RULE = ("two case kinds. tree history: grammar (zoo or random with quote/backslash/control/non-ASCII terminals, "
        "epsilon, up to 40 children) + closed or open tree with explicit ids at/above the id counter (gap 0..5 or 1000) + 3..14 operations "
        "(cache computations k_paths/k_coverage on root and inner nodes with/without potential paths, hash, "
        "structural_hash, str, len, is_open, paths, ==; serialisations pickle protocols 0-5, copy, deepcopy, "
        "to_json/from_json, __getstate__/__setstate__, tuple+dict pickling, CLI JSON write/read) interpreted against a "
        "model with a non-intrusive walk after every step and a full battery on every pool member at the end "
        "(str, len, is_open, ==, hash, structural_hash, paths, k_paths vs a fresh history-free object, per node; "
        "re-serialisation); 3 % of histories are decoded in a second interpreter with another PYTHONHASHSEED and a fresh id counter. "
        "non-trivial tree case = some serialisation of a pool member happens after a cache computation on it and the "
        "member is used again afterwards. smt: atom of 13 shapes with 1-3 literals (quotes, backslashes, controls, NUL, "
        "escape look-alikes, Latin-1, BMP, astral), built via z3 API / parse_isla / SMT-LIB text, chain of 1-3 "
        "serialisations; literal code points measured by Z3, s-expression, ==, hash, evaluation on trees. "
        "non-trivial smt case = some literal contains a character outside [A-Za-z0-9 ]. distinct by case hash")
ASSUMPTIONS = ["cached values whose definition belongs to other properties (k-paths, hash values) are compared with those of a "
               "freshly built, never serialised tree with the same labels and ids",
               "tree labels exclude '<', '>' inside terminals and lone surrogates; SMT literal characters are limited to Z3's "
               "character range (<= U+2FFFF)",
               "an SMT formula whose original evaluation already raises or disagrees with Z3 is only labelled (that is C05/C07 "
               "territory); C17 compares the copy with the original"]

NASTY = ['"', "\\", "\n", "\t", "\x00", "ä", "€", "\U0001F600", "'", "\\u{41}", "\\n", "{", "}", "[", "]", " ",
         "a", "b", "0", "\x7f", " ", "\r", ":", ",", "null", "\\\"", "ÿ", "x"]
ZOO_NAMES = ["lang", "blk", "eps", "csv", "xml", "rec"]

CACHE_OPS = ["kp", "kp", "kp", "kcov", "hash", "shash", "str", "len", "open", "paths", "eq"]
SER_OPS = ["pickle", "pickle", "pickle", "deepcopy", "copy", "json", "json", "state", "cli", "cliread", "tuple"]

# ------------------------------------------------------------------------------------------ SMT part

# code points by class
CH_PLAIN = [97, 98, 65, 48, 32, 122]
CH_QUOTE = [34]
CH_BACKSL = [92]
CH_CTRL = [10, 9, 13, 0, 31, 127]
CH_ASCII_SPECIAL = [39, 123, 125, 40, 41, 59, 124, 35]
CH_LATIN1 = [0xe4, 0xff, 0x80, 0xa0]
CH_BMP = [0x100, 0x20ac, 0x3bb, 0xffff, 0xd800]
CH_ASTRAL = [0x10000, 0x1f600, 0x2ffff]
SEQS = [[92, 117, 123, 52, 49, 125],  # \u{41} as six characters
        [92, 110],  # \n as two characters
        [92, 120, 52, 49],  # \x41
        [92, 34],  # backslash quote
        [34, 34],  # two quotes
        [92, 92],  # two backslashes
        [92, 117, 123, 125],  # \u{}
        [92, 117, 48, 48, 52, 49],  # A
        [117, 123, 52, 49, 125]]  # u{41}
MAXCHAR = 0x2ffff

SHAPES = {
    "eq": (lambda L, x, y: ["=", x, L[0]], 1, False),
    "neq": (lambda L, x, y: ["not", ["=", x, L[0]]], 1, False),
    "concat": (lambda L, x, y: ["=", ["str.++", L[0], x, L[1]], y], 2, True),
    "in_re": (lambda L, x, y: ["str.in_re", x, ["re.++", ["str.to_re", L[0]], ["re.*", ["str.to_re", L[1]]]]], 2, False),
    "union": (lambda L, x, y: ["str.in_re", x, ["re.union", ["str.to_re", L[0]], ["re.+", ["str.to_re", L[1]]]]], 2, False),
    "contains": (lambda L, x, y: ["str.contains", x, L[0]], 1, False),
    "prefix": (lambda L, x, y: ["str.prefixof", L[0], x], 1, False),
    "suffix": (lambda L, x, y: ["str.suffixof", L[0], x], 1, False),
    "replace": (lambda L, x, y: ["=", ["str.replace", x, L[0], L[1]], L[2]], 3, False),
    "or2": (lambda L, x, y: ["or", ["=", x, L[0]], ["=", y, L[1]]], 2, True),
    "and_len": (lambda L, x, y: ["and", [">=", ["str.len", x], 1], ["not", ["=", x, L[0]]]], 1, False),
    "ite": (lambda L, x, y: ["=", ["ite", ["=", x, L[0]], L[1], L[2]], y], 3, True),
    "le": (lambda L, x, y: ["str.<=", L[0], x], 1, False),
}
SHAPE_NAMES = sorted(SHAPES)


def _gen_literal(rnd):
    out = []
    n = rnd.randint(0, 4)
    for _ in range(n):
        r = rnd.random()
        if r < 0.25:
            out.append(pick(rnd, CH_PLAIN))
        elif r < 0.37:
            out.append(34)
        elif r < 0.49:
            out.append(92)
        elif r < 0.59:
            out.append(pick(rnd, CH_CTRL))
        elif r < 0.66:
            out.append(pick(rnd, CH_ASCII_SPECIAL))
        elif r < 0.76:
            out.append(pick(rnd, CH_LATIN1))
        elif r < 0.84:
            out.append(pick(rnd, CH_BMP))
        elif r < 0.90:
            out.append(pick(rnd, CH_ASTRAL))
        else:
            out.extend(pick(rnd, SEQS))
    return out


def _gen_smt(rnd, tier):
    shape = pick(rnd, SHAPE_NAMES)
    nl = SHAPES[shape][1]
    lits = [_gen_literal(rnd) for _ in range(nl)]
    if not any(lits):
        lits[0] = [pick(rnd, CH_QUOTE + CH_BACKSL + CH_LATIN1 + CH_CTRL)]
    route = "z3" if _pct(rnd, 40) else "isla" if _pct(rnd, 67) else "smtlib"
    p_raw = pick(rnd, [0.0, 0.3, 0.7, 1.0])
    enc = [[1 if chance(rnd, p_raw) else 0 for _ in l] for l in lits]
    ser = []
    for _ in range(rnd.randint(1, 3)):
        k = pick(rnd, ["pickle", "pickle", "deepcopy", "copy", "state"])
        ser.append([k, rnd.randint(0, 5)])
    vals = []
    for _ in range(rnd.randint(1, 3)):
        v = []
        for _v in range(2):
            r = rnd.random()
            if r < 0.5:
                v.append(["lit", rnd.randint(0, nl - 1)])
            elif r < 0.7:
                v.append(["cat", rnd.randint(0, nl - 1), rnd.randint(0, nl - 1)])
            elif r < 0.85:
                v.append(["catx", rnd.randint(0, nl - 1)])
            else:
                v.append(["str", pick(rnd, ["", "a", "zz", "a b"])])
        vals.append(v)
    return {"kind": "smt", "shape": shape, "lits": lits, "route": route, "enc": enc, "ser": ser, "vals": vals,
            "wrap": rnd.randint(0, 1), "open_subst": chance(rnd, 0.3), "whole": chance(rnd, 0.6)}


def _cls(c):
    if c == 34:
        return "quote"
    if c == 92:
        return "backslash"
    if c < 32 or c == 127:
        return "ctrl"
    if c < 127:
        return "ascii"
    if c < 256:
        return "latin1"
    if 0xd800 <= c <= 0xdfff:
        return "surrogate"
    if c <= 0xffff:
        return "bmp"
    return "astral"


def _classes(codes):
    s = sorted({_cls(c) for c in codes} - {"ascii"})
    return "+".join(s) if s else "ascii"


def _enc_u(codes):
    return "".join("\\u{%x}" % c for c in codes)


def _lit_text(codes, enc, route):
    """literal text (without the surrounding quotes) for the given route; enc[i]=1 asks for the raw
    character where the syntax has one"""
    out = []
    for i, c in enumerate(codes):
        raw = bool(enc[i]) if i < len(enc) else False
        if c == 34:
            if route == "isla":
                out.append('\\"' if raw else "\\u{22}")
            elif route == "smtlib":
                out.append('""' if raw else "\\u{22}")
            else:
                out.append('"' if raw else "\\u{22}")
        elif c == 92:
            nxt = codes[i + 1] if i + 1 < len(codes) else None
            # a raw backslash is a backslash unless it starts an escape (\u...) or, in ISLa syntax, \"
            if raw and nxt is not None and nxt not in (117, 34):
                out.append("\\")
            else:
                out.append("\\u{5c}")
        elif raw and 32 <= c and not (0xd800 <= c <= 0xdfff):
            out.append(chr(c))
        elif raw and route == "z3" and not (0xd800 <= c <= 0xdfff):
            out.append(chr(c))
        else:
            out.append("\\u{%x}" % c)
    return "".join(out)


def _sexpr(ast, littext, varname):
    if isinstance(ast, int):
        return str(ast)
    if ast[0] == "lit":
        return '"' + littext[ast[1]] + '"'
    if ast[0] == "var":
        return varname[ast[1]]
    return "(" + " ".join([ast[0]] + [_sexpr(a, littext, varname) for a in ast[1:]]) + ")"


def _isla_text(ast, littext, varname):
    """ISLa concrete syntax: propositional connectives are ISLa operators, atoms are S-expressions"""
    if not isinstance(ast, int) and ast[0] == "not":
        return "not (" + _isla_text(ast[1], littext, varname) + ")"
    if not isinstance(ast, int) and ast[0] in ("and", "or"):
        return "(" + (" %s " % ast[0]).join(_isla_text(a, littext, varname) for a in ast[1:]) + ")"
    return _sexpr(ast, littext, varname)


def _z3_build(ast, lit, var):
    import z3
    from isla.z3_helpers import z3_eq
    ops = {
        "=": z3_eq, "not": z3.Not, "and": z3.And, "or": z3.Or, "str.++": z3.Concat, "re.++": z3.Concat,
        "str.in_re": z3.InRe, "str.to_re": z3.Re, "re.*": z3.Star, "re.+": z3.Plus, "re.union": z3.Union,
        "str.contains": z3.Contains, "str.prefixof": z3.PrefixOf, "str.suffixof": z3.SuffixOf, "str.replace": z3.Replace,
        "str.len": z3.Length, "ite": z3.If, "str.<=": lambda a, b: a <= b, ">=": lambda a, b: a >= b,
    }
    if isinstance(ast, int):
        return z3.IntVal(ast)
    if ast[0] == "lit":
        return lit[ast[1]]
    if ast[0] == "var":
        return var[ast[1]]
    return ops[ast[0]](*[_z3_build(a, lit, var) for a in ast[1:]])


def z3_codes(v):
    """code points of a Z3 string value, asked from Z3 itself"""
    import z3
    n = z3.simplify(z3.Length(v)).as_long()
    out = []
    for i in range(n):
        c = z3.simplify(z3.StrToCode(z3.SubString(v, i, 1)))
        out.append(c.as_long() if z3.is_int_value(c) else -1)
    return out


def z3_literals(e):
    """string literals of a Z3 expression in pre-order, with repetition"""
    import z3
    acc = []

    def go(x):
        if z3.is_string_value(x):
            acc.append(x)
            return
        if z3.is_quantifier(x):
            go(x.body())
            return
        for c in x.children():
            go(c)

    go(e)
    return acc


def _measure(f):
    """observable content of an SMTFormula, through Z3 only"""
    return {"codes": [z3_codes(l) for l in z3_literals(f.formula)], "sexpr": f.formula.sexpr()}


def _truth(expr):
    """validity of a ground Z3 Boolean term, by Z3 directly: True / False / None"""
    import z3
    s = z3.simplify(expr)
    if z3.is_true(s):
        return True
    if z3.is_false(s):
        return False
    sol = z3.Solver()
    sol.set("timeout", 3000)
    sol.add(z3.Not(expr))
    r = sol.check()
    if r == z3.unsat:
        return True
    if r == z3.sat:
        return False
    return None


def _serialise(obj, step):
    """one serialisation step; returns (copy, None) or (None, (phase, exception))"""
    import pickle
    import copy
    kind, proto = step[0], step[1] % 6
    if kind == "state" and "__setstate__" not in type(obj).__dict__:
        kind = "pickle"  # classes without their own state protocol
    try:
        if kind == "pickle":
            data = pickle.dumps(obj, protocol=proto)
        elif kind == "state":
            data = obj.__getstate__()
        else:
            data = None
    except Exception as e:  # noqa
        return None, ("dumps", e)
    try:
        if kind == "pickle":
            return pickle.loads(data), None
        if kind == "state":
            new = type(obj).__new__(type(obj))
            new.__setstate__(data)
            return new, None
        if kind == "deepcopy":
            return copy.deepcopy(obj), None
        return copy.copy(obj), None
    except Exception as e:  # noqa
        # copy/deepcopy run __getstate__ and __setstate__ in one go
        ph = "loads"
        import traceback
        tb = traceback.extract_tb(e.__traceback__)
        if any(fr.name == "__getstate__" for fr in tb):
            ph = "dumps"
        return None, (ph, e)


def _smt_roundtrip_problem(route, codes, enc):
    """does `x = <literal>` built by `route` fail the plain pickle round trip?  used to minimise"""
    import pickle
    try:
        f, _ = _smt_build({"shape": "eq", "lits": [codes], "enc": [enc], "route": route, "wrap": 0})
    except Exception:
        return None
    if f is None:
        return None
    try:
        before = _measure(f[0])
        g = pickle.loads(pickle.dumps(f[0]))
        after = _measure(g)
    except Exception as e:  # noqa
        return "raises:" + type(e).__name__
    if before != after or not (g == f[0]):
        return "changed"
    return None


def _minimise(route, codes, enc):
    """greedy removal of characters while the plain round trip of `x = literal` still fails"""
    first = _smt_roundtrip_problem(route, codes, enc)
    if first is None:
        return None
    codes, enc = list(codes), list(enc) + [0] * (len(codes) - len(enc))
    i = 0
    while i < len(codes) and len(codes) > 1:
        c2, e2 = codes[:i] + codes[i + 1:], enc[:i] + enc[i + 1:]
        if _smt_roundtrip_problem(route, c2, e2) is not None:
            codes, enc = c2, e2
        else:
            i += 1
    return codes, enc


class _Rejected(Exception):
    pass


def _smt_build(case):
    """returns ((SMTFormula, ...atoms), info) ; info: variables, whole formula, harness z3 expression"""
    import z3
    from isla import language
    route = case["route"]
    lits, encs = case["lits"], case["enc"]
    builder, nl, uses_y = SHAPES[case["shape"]]
    L = [["lit", i] for i in range(nl)]
    ast = builder(L, ["var", 0], ["var", 1])
    littext = [_lit_text(lits[i], encs[i] if i < len(encs) else [], route) for i in range(nl)]
    info = {"ast": ast, "uses_y": uses_y, "littext": littext}
    # harness-side expression with the intended literals (all-escape encoding) for the Z3 verdicts
    hx, hy = z3.String("x"), z3.String("y")
    info["hexpr"] = _z3_build(ast, [z3.StringVal(_enc_u(l)) for l in lits], [hx, hy])
    info["hvars"] = (hx, hy)
    if route == "z3":
        vx, vy = language.Constant("x", "<a>"), language.Constant("y", "<b>")
        zl = [z3.StringVal(t) for t in littext]
        expr = _z3_build(ast, zl, [vx.to_smt(), vy.to_smt()])
        f = language.SMTFormula(expr, *([vx, vy] if uses_y else [vx]))
        info.update(vars=(vx, vy), whole=None, text=None)
        return (f,), info
    if route == "smtlib":
        vx, vy = language.Constant("x", "<a>"), language.Constant("y", "<b>")
        text = _sexpr(ast, littext, ["x", "y"])
        f = language.SMTFormula(text, *([vx, vy] if uses_y else [vx]))
        info.update(vars=(vx, vy), whole=None, text=text)
        return (f,), info
    # ISLa concrete syntax
    from isla.isla_predicates import STANDARD_STRUCTURAL_PREDICATES as SP, STANDARD_SEMANTIC_PREDICATES as MP
    g = {"<start>": ["<a><b>"], "<a>": ["a", "b"], "<b>": ["a", "b"]}
    if case.get("wrap", 0) == 1:
        text = _isla_text(ast, littext, ["<a>", "<b>"])
    else:
        smt = _isla_text(ast, littext, ["x", "y"])
        text = "forall <a> x in start: " + ("forall <b> y in start: " if uses_y else "") + smt
    info["text"] = text
    try:
        whole = language.parse_isla(text, g, SP, MP)
    except Exception as e:  # noqa
        raise _Rejected(type(e).__name__)
    atoms = []

    class V(language.FormulaVisitor):
        def visit_smt_formula(self, f):
            atoms.append(f)

    whole.accept(V())
    info.update(vars=None, whole=whole, text=text)
    return tuple(atoms), info


def _judge_smt(case):
    import z3
    from isla import language
    labels = {"smt", "route:" + case["route"], "shape:" + case["shape"]}
    viol = []
    lits = case["lits"]
    for l in lits:
        labels.add("lit:" + _classes(l))
        if _contains_seq(l):
            labels.add("lit:escape_lookalike")
    nontrivial = any(not (48 <= c <= 57 or 65 <= c <= 90 or 97 <= c <= 122 or c == 32) for l in lits for c in l)

    def done(inc=None):
        return {"labels": sorted(labels), "nontrivial": nontrivial and not inc and "roundtrip_done" in labels,
                "violations": viol, "inconclusive": inc,
                "sample": {"kind": "smt", "route": case["route"], "shape": case["shape"], "literals": lits,
                           "text": locals_.get("text"), "ser": case["ser"]}}

    locals_ = {}
    try:
        atoms, info = _smt_build(case)
    except _Rejected as e:
        labels.add("parse_rejected")
        labels.add("parse_rejected:" + str(e))
        return done()
    except z3.Z3Exception:
        labels.add("construct_rejected")
        return done()
    except AssertionError:
        labels.add("construct_rejected")
        return done()
    locals_["text"] = info.get("text")
    if not atoms:
        labels.add("no_atom")
        return done()
    targets = [("atom", a) for a in atoms]
    if info["whole"] is not None and case.get("whole"):
        targets.append(("whole", info["whole"]))

    def lits_of(obj):
        if isinstance(obj, language.SMTFormula):
            return [obj]
        acc = []

        class V(language.FormulaVisitor):
            def visit_smt_formula(self, f):
                acc.append(f)

        obj.accept(V())
        return acc

    def measure(obj):
        return [_measure(f) for f in lits_of(obj)]

    orig0 = [m for _n, a in targets if _n == "atom" for m in measure(a)]
    all_codes = [c for m in orig0 for l in m["codes"] for c in l]
    bogus = any(c > MAXCHAR or c < 0 for c in all_codes)
    faithful = [l for m in orig0 for l in m["codes"]] == [lits[a[1]] for a in _lit_order(info["ast"])]
    labels.add("built_faithful" if faithful else "built_differs")
    if bogus:
        labels.add("bogus_char_in_original")

    def sig(s, codes=None):
        if bogus:
            return "smt:bogus_char_in_original:" + case["route"] + ":" + s
        cl = ""
        if codes is not None:
            mini = None
            for cand in codes:
                mini = _minimise(case["route"], cand[0], cand[1])
                if mini is not None:
                    break
            if mini is not None:
                cl = ":" + _classes(mini[0]) + ("" if not _contains_seq(mini[0]) else "+lookalike")
            else:
                cl = ":shape_" + case["shape"]
        return "smt:" + s + cl

    def worst_literal():
        # candidates for minimisation: literals with a non-plain character first
        cands = [(l, case["enc"][i] if i < len(case["enc"]) else []) for i, l in enumerate(lits)]
        return sorted(cands, key=lambda c: _classes(c[0]) == "ascii")

    for tname, orig in targets:
        before = measure(orig)
        cur = orig
        for step in case["ser"]:
            new, err = _serialise(cur, step)
            if err is not None:
                ph, e = err
                viol.append({"sig": sig("%s_raises:%s" % (ph, type(e).__name__), worst_literal()), "target": tname, "step": step,
                             "error": str(e)[:300], "text": info.get("text"), "literals": lits})
                break
            labels.add("ser:" + step[0])
            after = measure(new)
            if [m["codes"] for m in after] != [m["codes"] for m in before]:
                bi = _first_diff(before, after)
                viol.append({"sig": sig("literal_changed", worst_literal()), "target": tname, "step": step,
                             "expected": [m["codes"] for m in before], "observed": [m["codes"] for m in after], "at": bi,
                             "text": info.get("text")})
                break
            if [m["sexpr"] for m in after] != [m["sexpr"] for m in before]:
                viol.append({"sig": sig("sexpr_changed"), "target": tname, "step": step,
                             "expected": [m["sexpr"] for m in before], "observed": [m["sexpr"] for m in after]})
                break
            try:
                eqs = (new == orig, orig == new, hash(new) == hash(orig))
            except Exception as e:  # noqa
                viol.append({"sig": sig("eq_raises:" + type(e).__name__), "target": tname, "error": str(e)[:200]})
                break
            if eqs != (True, True, True):
                viol.append({"sig": sig("not_equal_after_roundtrip"), "target": tname, "step": step, "observed": list(eqs),
                             "text": info.get("text")})
                break
            if tname == "atom":
                if (list(map(str, new.free_variables())) != list(map(str, orig.free_variables()))
                        or list(new.free_variables()) != list(orig.free_variables())):
                    viol.append({"sig": sig("free_variables_changed"), "observed": list(map(str, new.free_variables()))})
                    break
            if measure(orig) != before:
                viol.append({"sig": sig("original_changed"), "target": tname, "step": step})
                break
            cur = new
        else:
            labels.add("roundtrip_done")
            # --- evaluation of original and final copy on trees
            try:
                _smt_evaluate(case, info, tname, orig, cur, before, labels, viol, sig)
            except z3.Z3Exception:
                labels.add("eval_z3_exception")
        if viol:
            break
    return done()


def _lit_order(ast):
    """literal references of the AST in pre-order (Z3 keeps argument order for these operators)"""
    if isinstance(ast, int):
        return []
    if ast[0] == "lit":
        return [ast]
    if ast[0] == "var":
        return []
    out = []
    for a in ast[1:]:
        out.extend(_lit_order(a))
    return out


def _contains_seq(codes):
    s = list(codes)
    for q in SEQS[:4] + SEQS[6:8]:
        for i in range(len(s) - len(q) + 1):
            if s[i:i + len(q)] == q:
                return True
    return False


def _first_diff(before, after):
    for i, (b, a) in enumerate(zip(before, after)):
        if b["codes"] != a["codes"]:
            return i
    return None


def _val_codes(spec, measured):
    if spec[0] == "lit":
        return list(measured[spec[1] % len(measured)])
    if spec[0] == "cat":
        return list(measured[spec[1] % len(measured)]) + list(measured[spec[2] % len(measured)])
    if spec[0] == "catx":
        return list(measured[spec[1] % len(measured)]) + [120]
    return [ord(c) for c in spec[1]]


def _smt_evaluate(case, info, tname, orig, copy_, before, labels, viol, sig):
    import z3
    from isla import language
    from isla.derivation_tree import DerivationTree
    measured = before[0]["codes"] or [[]]
    if any(c > MAXCHAR or c < 0 or 0xd800 <= c <= 0xdfff or c in (60, 62) for l in measured for c in l):
        labels.add("eval_skipped_unrepresentable")
        return
    for pair in case["vals"]:
        sx = "".join(chr(c) for c in _val_codes(pair[0], measured))
        sy = "".join(chr(c) for c in _val_codes(pair[1], measured))
        # the harness' own verdict from Z3 (label only: evaluation as such belongs to C03/C05)
        hx, hy = info["hvars"]
        hv = _truth(z3.substitute(info["hexpr"], (hx, z3.StringVal(_enc_u([ord(c) for c in sx]))),
                                  (hy, z3.StringVal(_enc_u([ord(c) for c in sy])))))
        tx = DerivationTree("<a>", [DerivationTree(sx, [])] if sx else [])
        ty = DerivationTree("<b>", [DerivationTree(sy, [])] if sy else [])

        def run(f):
            try:
                if tname == "whole":
                    from isla.evaluator import evaluate
                    g = {"<start>": ["<a><b>"], "<a>": [sx], "<b>": [sy]}
                    r = evaluate(f, DerivationTree("<start>", [tx, ty]), g)
                    return True if r.is_true() else False if r.is_false() else "unknown"
                fv = list(f.free_variables())
                m = {}
                for v in fv:
                    m[v] = tx if v.n_type == "<a>" else ty
                r = f.substitute_expressions(m)
                return True if r.is_true else False if r.is_false else "open"
            except Exception as e:  # noqa
                return "raises:" + type(e).__name__

        ro = run(orig)
        rc = run(copy_)
        if isinstance(ro, str):
            labels.add("eval_orig_" + ro.split(":")[0])
            if rc != ro:
                labels.add("eval_copy_differs_from_failing_original")
            continue
        labels.add("eval_true" if ro else "eval_false")
        if hv is not None:
            labels.add("eval_agrees_with_z3" if hv == ro else "eval_orig_differs_from_z3")
        if rc != ro:
            viol.append({"sig": sig("eval_differs"), "target": tname, "x": sx, "y": sy, "original": ro, "copy": rc,
                         "text": info.get("text")})
            return
    # formula carrying an open tree (how the solver holds SMT atoms): pickle, then close both
    if tname == "atom" and info["vars"] is not None and case.get("open_subst"):
        import pickle
        vx = info["vars"][0]
        base = DerivationTree.next_id + 50
        opn = DerivationTree("<a>", None, id=base)
        try:
            f1 = orig.substitute_expressions({vx: opn})
        except Exception:
            labels.add("open_subst_orig_raises")
            return
        if not isinstance(f1, language.SMTFormula) or not f1.substitutions:
            return
        labels.add("open_subst")
        try:
            g1 = pickle.loads(pickle.dumps(f1))
        except Exception as e:  # noqa
            viol.append({"sig": sig("open_subst:pickle_raises:" + type(e).__name__), "error": str(e)[:200]})
            return
        ok = (g1 == f1 and hash(g1) == hash(f1)
              and [(str(k), c17_lib.walk(t)[0]) for k, t in g1.substitutions.items()]
              == [(str(k), c17_lib.walk(t)[0]) for k, t in f1.substitutions.items()]
              and list(g1.instantiated_variables) == list(f1.instantiated_variables))
        if not ok:
            viol.append({"sig": sig("open_subst:not_equal"), "observed": repr(g1)[:300], "expected": repr(f1)[:300]})
            return
        sx = "".join(chr(c) for c in _val_codes(case["vals"][0][0], measured))
        closed = DerivationTree("<a>", [DerivationTree(sx, [])] if sx else [], id=base)
        ty = DerivationTree("<b>", [DerivationTree("a", [])])

        def close(f):
            try:
                r = f.substitute_expressions({opn: closed})
                if list(r.free_variables()):
                    r = r.substitute_expressions({v: ty for v in r.free_variables()})
                return True if r.is_true else False if r.is_false else "open"
            except Exception as e:  # noqa
                return "raises:" + type(e).__name__

        a, b = close(f1), close(g1)
        if not isinstance(a, str) and a != b:
            viol.append({"sig": sig("open_subst:eval_differs"), "original": a, "copy": b})


# ------------------------------------------------------------------------------------------ tree part

def _gen_tree(rnd, tier):
    if chance(rnd, 0.4):
        gname = pick(rnd, ZOO_NAMES)
        g = gen.ZOO[gname]
    else:
        gname = "random"
        g = gen.grammar(rnd, max_nts=5, alphabet=NASTY if chance(rnd, 0.7) else None, wide=chance(rnd, 0.15))
    cg = rt.canon(g)
    p_open = [0.0, 0.0, 0.15, 0.3][rnd.randint(0, 3)]
    d = rnd.randint(2, 6)
    t = gen.tree(rnd, cg, "<start>", d, p_open=p_open)
    while rt.size(t) > 60 and d > 1:
        d -= 1
        t = gen.tree(rnd, cg, "<start>", d, p_open=p_open, bias=0.5)
    if chance(rnd, 0.2):
        t = _eps_children(t)
    n = rt.size(t)
    order = rnd.randint(0, 2)
    idl = list(range(n))
    if order == 1:
        idl.reverse()
    elif order == 2:
        for i in range(n - 1, 0, -1):
            j = rnd.randint(0, i)
            idl[i], idl[j] = idl[j], idl[i]
    step = rnd.randint(1, 3)
    it = iter(idl)

    def put(x):
        i = next(it) * step
        return [x[0], None if x[1] is None else [put(c) for c in x[1]], i]

    t = put(t)
    ops = []
    if chance(rnd, 0.75):
        # cache, then serialise the same member, then use it again
        s0 = 0
        ops.append(_gen_op(rnd, pick(rnd, CACHE_OPS), s0))
        if chance(rnd, 0.5):
            ops.append(_gen_op(rnd, pick(rnd, CACHE_OPS), s0))
        ops.append(_gen_op(rnd, pick(rnd, SER_OPS), s0))
        ops.append(_gen_op(rnd, pick(rnd, CACHE_OPS + SER_OPS), s0))
    for _ in range(rnd.randint(1, 9)):
        ops.append(_gen_op(rnd, pick(rnd, CACHE_OPS + SER_OPS), rnd.randint(0, 4)))
    case = {"kind": "tree", "gname": gname, "grammar": g, "tree": t, "ops": ops}
    case["ids"] = ["rel", [0, 0, 1, 2, 5, 1000][rnd.randint(0, 5)]]
    if _pct(rnd, 3):
        case["xproc"] = rnd.randint(1, 4000)
        case["ids"] = ["abs", rnd.randint(0, 3)]
    return case


def _eps_children(t):
    if t[1] is None:
        return t
    if rt.is_nt(t[0]) and not t[1]:
        return [t[0], [["", []]]]
    return [t[0], [_eps_children(c) for c in t[1]]]


def _gen_op(rnd, name, slot):
    # path selector: 0 = root with probability 1/2, else any node
    psel = 0 if chance(rnd, 0.5) else rnd.randint(1, 60)
    if name in ("kp", "kcov"):
        return [name, slot, psel, rnd.randint(1, 4), 1 if chance(rnd, 0.5) else 0]
    if name in ("pickle", "tuple"):
        return [name, slot, psel, rnd.randint(0, 5)]
    if name == "cli":
        return [name, slot, psel, 1 if chance(rnd, 0.5) else 0]
    return [name, slot, psel]


def _pct(rnd, p):
    """True in about p % of the draws (integer draws are spread more evenly by Hypothesis than floats)"""
    # Hypothesis favours small and boundary integers; scatter the draw before thresholding
    x = rnd.randint(0, 2 ** 32 - 1)
    h = ((x + 0x9e3779b9) * 2654435761) & 0xffffffff
    return (h >> 11) % 100 < p


def generate(rnd, tier):
    if _pct(rnd, 55):
        return _gen_tree(rnd, tier)
    return _gen_smt(rnd, tier)


def _node(obj, path):
    """subtree object by path without get_subtree (that is an lru_cache keyed by hash(self))"""
    for i in path:
        obj = obj.children[i]
    return obj


def _judge_tree(case):
    import io
    import copy
    import pickle
    from argparse import Namespace
    from isla.derivation_tree import DerivationTree
    from isla import cli
    from isla import language
    from grammar_graph import gg
    g = case["grammar"]
    labels = {"tree", "g:" + case.get("gname", "?")}
    viol = []
    try:
        graph = gg.GrammarGraph.from_grammar(g)
    except Exception:
        graph = None
        labels.add("no_graph")
    # Explicit ids at or above the id counter are what a process sees that loads a checkpoint written by
    # another run ("rel", small gap: the ids the counter would hand out next are taken by the tree);
    # "abs": small absolute ids, for the histories that are decoded in a second interpreter.
    mode, gap = case.get("ids", ["rel", 1000])
    base = gap if mode == "abs" else DerivationTree.next_id + 1 + gap
    m0 = c17_lib.shift(case["tree"], base)
    if len(set(c17_lib.ids(m0))) != rt.size(m0):
        return {"labels": ["bad_case_ids"], "nontrivial": False, "violations": [], "inconclusive": "bad_case"}
    slots = [{"obj": rt.to_dt(m0), "m": m0, "origin": "orig", "flags": set(), "events": []}]
    if rt.is_open(m0):
        labels.add("open_tree")
    if rt.max_branch(m0) > 28:
        labels.add("branch>28")
    if any(any(ord(ch) > 126 or ord(ch) < 32 or ch in '"\\' for ch in n[0]) for _, n in rt.nodes(m0)):
        labels.add("nasty_labels")
    labels.add("nodes>=15" if rt.size(m0) >= 15 else "nodes<15")
    step_no = [0]
    decoded_ids = set()  # ids that went through from_json/__setstate__ (those the id counter must stay above)

    def bad(sig, **kw):
        viol.append(dict(sig=sig, step=step_no[0], **kw))

    def state_of(slot):
        if slot["origin"] != "orig":
            return "decoded"
        return "after_ser" if "ser" in slot["flags"] else "pristine"

    def all_ids():
        s = set()
        for sl in slots:
            s.update(c17_lib.ids(sl["m"]))
        return s

    def check_slot(slot, what):
        w, cont = c17_lib.walk(slot["obj"])
        if w != slot["m"]:
            bad("tree:%s" % ("original_changed" if slot["origin"] == "orig" else "pool_member_changed"), after=what,
                expected=slot["m"], observed=w)
            return False
        return True

    for op in case["ops"]:
        if viol:
            break
        step_no[0] += 1
        name, si, psel = op[0], op[1], op[2]
        slot = slots[si % len(slots)]
        m = slot["m"]
        paths = [p for p, _ in rt.nodes(m)]
        if name in ("kp", "kcov", "cliread"):
            cands = [p for p, n in rt.nodes(m) if rt.is_nt(n[0])]
            if not cands:
                continue
            path = cands[psel % len(cands)]
        else:
            path = paths[psel % len(paths)]
        nm = rt.sub(m, path)
        node = _node(slot["obj"], path)
        where = "root" if not path else "inner"
        # ---------------------------------------------------------------- cache computations
        if name in CACHE_OPS:
            fresh = rt.to_dt(nm)
            try:
                if name == "kp":
                    if graph is None:
                        continue
                    exp = c17_lib.kp_key(fresh.k_paths(graph, op[3], include_potential_paths=bool(op[4])))
                elif name == "kcov":
                    if graph is None:
                        continue
                    exp = fresh.k_coverage(graph, op[3], include_potential_paths=bool(op[4]))
                elif name == "hash":
                    exp = hash(fresh)
                elif name == "shash":
                    exp = fresh.structural_hash()
                elif name == "str":
                    exp = c17_lib.model_str(nm)
                elif name == "len":
                    exp = rt.size(nm)
                elif name == "open":
                    exp = rt.is_open(nm)
                elif name == "paths":
                    exp = [(list(p), n[0], n[2]) for p, n in rt.nodes(nm)]
                else:
                    exp = True
            except Exception:
                labels.add("fresh_raises:" + name)
                continue
            try:
                if name == "kp":
                    got = c17_lib.kp_key(node.k_paths(graph, op[3], include_potential_paths=bool(op[4])))
                elif name == "kcov":
                    got = node.k_coverage(graph, op[3], include_potential_paths=bool(op[4]))
                elif name == "hash":
                    got = hash(node)
                elif name == "shash":
                    got = node.structural_hash()
                elif name == "str":
                    got = str(node)
                elif name == "len":
                    got = len(node)
                elif name == "open":
                    got = node.is_open()
                elif name == "paths":
                    got = [(list(p), n.value, n.id) for p, n in node.paths()]
                else:
                    got = (node == fresh) and (fresh == node)
            except Exception as e:  # noqa
                bad("tree:%s:raises:%s:%s" % ("kpaths" if name in ("kp", "kcov") else "cache", type(e).__name__, state_of(slot)),
                    where=where, error=str(e)[:200], op=op)
                break
            if got != exp:
                bad("tree:%s:wrong:%s" % ("kpaths" if name in ("kp", "kcov") else name, state_of(slot)), where=where, expected=exp if name not in ("kp", "paths") else exp[:5],
                    observed=got if name not in ("kp", "paths") else got[:5], op=op)
                break
            labels.add("op:" + name)
            slot["flags"].add("kp" if name in ("kp", "kcov") else "cache")
            if name in ("kp", "kcov") and path:
                slot["flags"].add("kp_inner")
            slot["events"].append("c")
            check_slot(slot, name)
            continue
        # ---------------------------------------------------------------- serialisations
        with_ids = True
        cached = ("kp" in slot["flags"])
        try:
            if name == "pickle":
                d = pickle.loads(pickle.dumps(node, protocol=op[3] % 6))
            elif name == "deepcopy":
                d = copy.deepcopy(node)
            elif name == "copy":
                d = copy.copy(node)
            elif name == "json":
                js = node.to_json()
                if not isinstance(js, str):
                    bad("tree:json:to_json_not_str", type=type(js).__name__)
                    break
                d = DerivationTree.from_json(js)
            elif name == "state":
                st1 = node.__getstate__()
                st2 = node.__getstate__()
                if st1 != st2:
                    bad("tree:state:getstate_twice_differs")
                    break
                d = DerivationTree.__new__(DerivationTree)
                d.__setstate__(st1)
            elif name == "tuple":
                root = slot["obj"]
                r2, n2, dd = pickle.loads(pickle.dumps((root, node, {node: 7}), protocol=op[3] % 6))
                if c17_lib.walk(n2)[0] != nm or dd.get(n2) != 7 or dd.get(node) != 7 or len(dd) != 1:
                    bad("tree:tuple:dict_key_lost", observed=c17_lib.walk(n2)[0], expected=nm, lookups=[dd.get(n2), dd.get(node)])
                    break
                d = r2
                nm = m
                slot["flags"].add("cache")  # dict insertion hashes the node
            elif name == "cli":
                js = cli.derivation_tree_to_json(node, bool(op[3]))
                data = json.loads(js)
                if _norm(data) != c17_lib.strip(nm):
                    bad("tree:cli:json_content", expected=c17_lib.strip(nm), observed=_norm(data))
                    break
                d = DerivationTree.from_parse_tree(data)
                with_ids = False
            elif name == "cliread":
                js = cli.derivation_tree_to_json(node, False)
                err = io.StringIO()
                res = cli.get_input_string("check", err, Namespace(input_string=js), {}, g, language.true())
                try:
                    d = res.unwrap()
                except Exception as e:  # noqa
                    if nm[0] != "<start>" or rt.is_open(nm):
                        # the CLI takes a JSON input as a derivation tree only if it is closed and rooted in
                        # <start> (what `isla parse` emits); anything else is parsed as a plain string
                        labels.add("cliread_not_a_start_rooted_closed_tree")
                        continue
                    if graph is not None and _quiet_valid(graph, rt.to_dt(nm)):
                        bad("tree:cliread:not_read_back", result=repr(res)[:200])
                        break
                    labels.add("cliread_tree_invalid_for_graph")
                    continue
                with_ids = False
            else:
                continue
        except Exception as e:  # noqa
            bad("tree:%s:raises:%s" % ("cli" if name in ("cli", "cliread") else "serialise", type(e).__name__),
                where=where, error=str(e)[:200], op=op, state=state_of(slot), kp_cached=cached, kp_inner=("kp_inner" in slot["flags"]))
            break
        labels.add("op:" + name)
        w, cont = c17_lib.walk(d)
        if not isinstance(d, DerivationTree):
            bad("tree:decode:not_a_tree", route=name, type=type(d).__name__)
            break
        if with_ids:
            if w != nm:
                bad("tree:decode:decoded_differs", route=name, expected=nm, observed=w, where=where)
                break
        else:
            if c17_lib.strip(w) != c17_lib.strip(nm):
                bad("tree:cli:decoded_differs", route=name, expected=c17_lib.strip(nm), observed=c17_lib.strip(w), where=where)
                break
            wid = c17_lib.ids(w)
            if len(set(wid)) != len(wid) or set(wid) & decoded_ids:
                bad("tree:cli:id_collision", route=name, ids=wid[:10])
                break
        if cont:
            bad("tree:decode:children_not_tuple", route=name, types=cont)
            break
        if not check_slot(slot, name):
            break
        # trees created from now on must not reuse an id of a decoded tree
        if with_ids:
            decoded_ids.update(c17_lib.ids(w))
        probes = [DerivationTree("<probe>", None).id for _ in range(3)]
        if set(probes) & decoded_ids:
            bad("tree:decode:new_tree_reuses_decoded_id", route=name, probe_ids=probes)
            break
        slot["flags"].add("ser")
        slot["events"].append("s")
        if len(slots) < 8:
            slots.append({"obj": d, "m": w if not with_ids else nm, "origin": name, "flags": set(), "events": []})
    # ---------------------------------------------------------------- second interpreter, part 1: encode now
    job = None
    if not viol and case.get("xproc"):
        labels.add("xproc")
        try:
            job = _xproc_job(g, slots)
        except Exception as e:  # noqa
            bad("tree:xproc_encode:raises:%s" % type(e).__name__, error=str(e)[:200])
    # ---------------------------------------------------------------- final battery
    if not viol:
        for i, slot in enumerate(slots):
            probs = c17_lib.battery(slot["obj"], slot["m"], graph)
            if probs:
                s, det = probs[0]
                bad("tree:final:%s:%s" % (s, "original" if slot["origin"] == "orig" else "decoded"), slot=i,
                    origin=slot["origin"], state=state_of(slot), **det)
                break
    # ---------------------------------------------------------------- second interpreter, part 2: decode there
    inc = None
    if not viol and job is not None:
        res = _xproc_run(case, job)
        if isinstance(res, str):
            inc = res
        else:
            seen = set()
            for i, s, det in res:
                if s not in seen:
                    seen.add(s)
                    bad("xproc:" + s, item=i, how="pickle" if i % 2 == 0 else "json",
                        origin=slots[i // 2]["origin"] if i // 2 < len(slots) else None, detail=det)
    # non-triviality: cache computation on a member, later a serialisation of it, later another use
    nt = False
    for slot in slots:
        ev = "".join(slot["events"])
        i = ev.find("c")
        if i >= 0:
            j = ev.find("s", i + 1)
            if j >= 0:
                labels.add("cache_then_ser")
                if len(ev) > j + 1:
                    nt = True
                    labels.add("cache_ser_use")
        if "kp_inner" in slot["flags"] and "ser" in slot["flags"]:
            labels.add("inner_kpaths_and_ser")
    labels.add("pool:%d" % min(len(slots), 8))
    return {"labels": sorted(labels), "nontrivial": nt, "violations": viol, "inconclusive": inc,
            "sample": {"kind": "tree", "grammar": case.get("gname"), "tree": c17_lib.model_str(case["tree"])[:60],
                       "nodes": rt.size(m0), "ops": case["ops"]}}


def _norm(data):
    """JSON value of the CLI format -> [label, children|None] (rejects anything else)"""
    if not isinstance(data, list) or len(data) != 2 or not isinstance(data[0], str):
        return ["<malformed>", repr(data)[:80]]
    if data[1] is None:
        return [data[0], None]
    if not isinstance(data[1], list):
        return ["<malformed>", repr(data)[:80]]
    return [data[0], [_norm(c) for c in data[1]]]


def _quiet_valid(graph, t):
    try:
        return bool(graph.tree_is_valid(t))
    except Exception:
        return False


def _xproc_job(g, slots):
    import base64
    import pickle
    items = []
    for slot in slots:
        items.append({"how": "pickle", "data": base64.b64encode(pickle.dumps(slot["obj"])).decode("ascii"), "model": slot["m"]})
        items.append({"how": "json", "data": slot["obj"].to_json(), "model": slot["m"]})
    return json.dumps({"grammar": g, "items": items})


def _xproc_run(case, job):
    import os
    import sys
    import subprocess
    from vlib import env
    e = dict(os.environ)
    e["PYTHONHASHSEED"] = str(case["xproc"])
    child = os.path.join(env.VERIF, "vlib", "c17_child.py")
    try:
        p = subprocess.run([sys.executable, child], input=job.encode("utf-8"), stdout=subprocess.PIPE, stderr=subprocess.PIPE,
                           env=e, timeout=80)
    except subprocess.TimeoutExpired:
        return "xproc_timeout"
    if p.returncode != 0:
        return "xproc_child_failed"
    try:
        out = json.loads(p.stdout.decode("utf-8").strip().splitlines()[-1])
    except Exception:
        return "xproc_child_output"
    return [(i, s, d) for i, s, d in out["problems"]]


def judge(case):
    if case.get("kind") == "smt":
        return _judge_smt(case)
    return _judge_tree(case)


# ------------------------------------------------------------------------------------------ self-test, health

def selftest():
    import z3
    from isla.derivation_tree import DerivationTree
    # model helpers
    m = ["<s>", [["<a>", None, 5], ["x", [], 6], ["<e>", [], 7]], 4]
    assert c17_lib.model_str(m) == "<a>x" and rt.tyield(m) == "x"
    o = rt.to_dt(m)
    assert c17_lib.walk(o) == (m, [])
    assert c17_lib.battery(o, m, None, deep=False) == [], c17_lib.battery(o, m, None, deep=False)
    # the battery notices a wrong id, a wrong label and a lost child
    for wrong in (["<s>", [["<a>", None, 5], ["x", [], 9], ["<e>", [], 7]], 4],
                  ["<s>", [["<a>", None, 5], ["y", [], 6], ["<e>", [], 7]], 4],
                  ["<s>", [["<a>", None, 5], ["x", [], 6]], 4]):
        assert c17_lib.battery(o, wrong, None, deep=False), wrong
    # Z3-side decoding of literals is the identity on code points given as \u{..}
    for codes in ([34, 92, 10, 0, 0xe4, 0x20ac, 0x1f600, 0x2ffff], [92, 117, 123, 52, 49, 125], []):
        assert z3_codes(z3.StringVal(_enc_u(codes))) == codes, codes
    # (isla.language patches z3.ExprRef.__eq__ to structural equality: build the Z3 equation explicitly)
    _a, _b = z3.StringVal("a"), z3.StringVal("\\u{61}")
    assert _truth(z3.BoolRef(z3.Z3_mk_eq(_a.ctx_ref(), _a.as_ast(), _b.as_ast()), _a.ctx)) is True
    # printers: ISLa text for quote/backslash
    assert _lit_text([97, 34, 92, 110], [1, 1, 1, 1], "isla") == 'a\\"\\n'
    assert _lit_text([34, 92], [0, 0], "smtlib") == "\\u{22}\\u{5c}"
    assert _lit_text([92, 117], [1, 1], "z3") == "\\u{5c}u"
    assert _norm(["<a>", [["x", []], ["<b>", None]]]) == ["<a>", [["x", []], ["<b>", None]]]


def health(stats, tier):
    c = stats["classes"]
    n = max(1, stats["evaluations"])
    if n < 200:
        return None
    need = ["tree", "smt", "cache_ser_use", "inner_kpaths_and_ser", "open_tree", "nasty_labels", "route:z3", "route:isla",
            "route:smtlib", "op:cli", "op:cliread", "op:state", "op:deepcopy", "op:kp", "eval_true", "eval_false", "roundtrip_done"]
    missing = [k for k in need if not c.get(k)]
    if missing:
        return "classes never generated: %s" % missing
    if c.get("cache_ser_use", 0) < 0.3 * c.get("tree", 1):
        return "fewer than 30%% of tree histories are non-trivial (%d of %d)" % (c.get("cache_ser_use", 0), c.get("tree", 0))
    if c.get("roundtrip_done", 0) < 0.4 * c.get("smt", 1):
        return "fewer than 40%% of smt cases complete a round trip (%d of %d)" % (c.get("roundtrip_done", 0), c.get("smt", 0))
    return None
