"""C09 -- negation, NNF, DNF, bound-variable renaming and the simplifying and/or combinators preserve meaning."""
from vlib import rt, gen, fml
from vlib.gen import chance, pick
from vlib.runner import reraise_if_timeout
from props import c03_evaluate as c03

ID = "C09"
CASES = {"quick": 400, "thorough": 60000}
SOFT = 60
HARD = 300
RULE = ("case = (grammar, closed tree, two constraints f and g from the C03 generator, flag 'nary'); the ISLa formula "
        "objects are obtained by parse_isla and, when 'nary' is set, rebuilt with the class constructors so that nested "
        "binary conjunctions/disjunctions become n-ary ConjunctiveFormula/DisjunctiveFormula (arity up to 6) anywhere in "
        "the formula; judged rewrites: -f, -(-f), NegatedFormula(f), convert_to_nnf(f), convert_to_nnf(f, negate=True), "
        "convert_to_dnf(nnf) deep and shallow, ensure_unique_bound_variables(f) on the parsed formula AND on the formula as "
        "written (parsed with the renaming switched off, incl. a template with sibling variables x / x_0), f & g, f | g; each rewritten formula is "
        "evaluated on the tree and compared with the verdict the reference semantics assigns (negated where the rewrite "
        "negates), plus structural post-conditions (NNF: negations only on atoms; shallow DNF: disjunction of "
        "conjunctions of non-disjunctions); non-trivial = f contains a "
        "combinator with >= 2 arguments and a quantifier or negation; distinct by case hash")
ASSUMPTIONS = ["when ISLa's verdict on the unrewritten formula differs from the reference (a C03 matter) the rewrites are judged relative to ISLa's own base verdict, so one root cause is not reported under two properties",
               "UNKNOWN on formulas with numeric quantifiers is inconclusive here"]


def selftest():
    c03.selftest()


def generate(rnd, tier):
    name, g = c03.gen_grammar(rnd)
    cg = rt.canon(g)
    md = rt.min_depths(cg)
    trees = [gen.tree(rnd, cg, "<start>", rnd.randint(2, 6), md, bias=0.85) for _ in range(3)]
    t = max(trees, key=rt.size)
    if rt.size(t) > 90:
        t = min(trees, key=rt.size)
    lits = fml.sample_lits(cg, trees)
    fs = []
    for i in range(2):
        fg = fml.FGen(rnd, cg, lits, dict(numq=0.5 if chance(rnd, 0.1) else 0.0, unused=0.03,
                                          connectives=("and", "or", "not", "and", "or", "implies", "iff", "xor")[:rnd.randint(5, 8)]))
        fs.append(fg.formula([("start", "<start>")], rnd.randint(2, 4) if i == 0 else rnd.randint(1, 2)))
    if chance(rnd, 0.5):
        # re-used / renaming-style variable names (v, v_0, ...) in sibling scopes
        fs = [fml.reuse_names(rnd, x) for x in fs]
    if chance(rnd, 0.08):
        sib = sibling_suffix_formula(rnd, cg, lits)
        if sib is not None:
            fs[rnd.randint(0, 1)] = sib
    return {"grammar": g, "gname": name, "tree": t, "f": fs[0], "g": fs[1], "nary": chance(rnd, 0.7)}


def sibling_suffix_formula(rnd, cg, lits):
    """(Q <T> x in start: A(x)) o (Q' <U> a="..{<T> x}..{<T> x_0}.." in start: B(x, x_0)): the second x has to be
    renamed, and the name a renaming would pick first is the one its sibling already carries"""
    fg = fml.FGen(rnd, cg, lits, dict(numq=0.0, unused=0.0, mexpr_depth=pick(rnd, [2, 3, 3, 4])))
    nts = [k for k in cg if k != "<start>"]
    for _ in range(12):
        U = pick(rnd, nts)
        mx, binds = fg.mexpr_for(U)
        if not mx:
            continue
        types = [T for _, T in binds]
        dup = [T for T in set(types) if types.count(T) >= 2]
        if not dup:
            continue
        T = pick(rnd, sorted(dup))
        base = pick(rnd, ["x", "v", "id"])
        same = [v for v, tt in binds if tt == T][:2]
        ren = {same[0]: base, same[1]: base + "_0"}

        def mxren(elems):
            out = []
            for e in elems:
                if e[0] == "bind":
                    out.append(["bind", e[1], ren.get(e[2], e[2])])
                elif e[0] == "opt":
                    out.append(["opt", mxren(e[1])])
                else:
                    out.append(e)
            return out

        body = [pick(rnd, ["and", "or"]), fg.atom([(base, T)]), fg.atom([(base + "_0", T), (base, T)])]
        q2 = [pick(rnd, ["forall", "exists"]), U, "a9", "start", mxren(mx), body]
        q1 = [pick(rnd, ["forall", "exists"]), T, base, "start", None, fg.atom([(base, T)])]
        if chance(rnd, 0.3):
            q1 = ["not", q1]
        return [pick(rnd, ["and", "or", "implies"]), q1, q2]
    return None


def flatten(F):
    """rebuild an ISLa formula with the class constructors, turning nested binary and/or into n-ary"""
    from isla import language as L
    if isinstance(F, L.ConjunctiveFormula):
        args = [flatten(a) for a in L.split_conjunction(F)]
        return L.ConjunctiveFormula(*args)
    if isinstance(F, L.DisjunctiveFormula):
        args = [flatten(a) for a in L.split_disjunction(F)]
        return L.DisjunctiveFormula(*args)
    if isinstance(F, L.NegatedFormula):
        return L.NegatedFormula(flatten(F.args[0]))
    if isinstance(F, L.ForallFormula):
        return L.ForallFormula(F.bound_variable, F.in_variable, flatten(F.inner_formula), F.bind_expression)
    if isinstance(F, L.ExistsFormula):
        return L.ExistsFormula(F.bound_variable, F.in_variable, flatten(F.inner_formula), F.bind_expression)
    if isinstance(F, L.ForallIntFormula):
        return L.ForallIntFormula(F.bound_variable, flatten(F.inner_formula))
    if isinstance(F, L.ExistsIntFormula):
        return L.ExistsIntFormula(F.bound_variable, flatten(F.inner_formula))
    return F


def max_arity(F):
    from isla import language as L
    m = 0
    stack = [F]
    while stack:
        x = stack.pop()
        if isinstance(x, L.PropositionalCombinator):
            m = max(m, len(x.args))
            stack.extend(x.args)
        elif isinstance(x, (L.QuantifiedFormula, L.NumericQuantifiedFormula)):
            stack.append(x.inner_formula)
    return m


def nnf_ok(F):
    from isla import language as L
    stack = [F]
    while stack:
        x = stack.pop()
        if isinstance(x, L.NegatedFormula):
            a = x.args[0]
            if isinstance(a, (L.PropositionalCombinator, L.QuantifiedFormula, L.NumericQuantifiedFormula)):
                return False
        elif isinstance(x, L.PropositionalCombinator):
            stack.extend(x.args)
        elif isinstance(x, (L.QuantifiedFormula, L.NumericQuantifiedFormula)):
            stack.append(x.inner_formula)
    return True


def shallow_dnf_ok(F):
    from isla import language as L
    for d in L.split_disjunction(F):
        for c in L.split_conjunction(d):
            if isinstance(c, L.DisjunctiveFormula):
                return False
    return True


def bound_names(F):
    from isla import language as L
    names = []
    stack = [F]
    while stack:
        x = stack.pop()
        if isinstance(x, L.PropositionalCombinator):
            stack.extend(x.args)
        elif isinstance(x, L.QuantifiedFormula):
            names.append(x.bound_variable.name)
            if x.bind_expression is not None:
                names.extend(v.name for v in x.bind_expression.bound_variables() if type(v).__name__ == "BoundVariable")
            stack.append(x.inner_formula)
        elif isinstance(x, L.NumericQuantifiedFormula):
            # numeric quantifiers are not renamed by ensure_unique_bound_variables (it only treats tree
            # quantifiers); their names are not part of the post-condition
            stack.append(x.inner_formula)
    return names


def judge(case):
    from isla import language as L
    from isla.evaluator import evaluate
    from isla.isla_predicates import STANDARD_STRUCTURAL_PREDICATES as SP, STANDARD_SEMANTIC_PREDICATES as MP
    g, t, f, g2 = case["grammar"], case["tree"], case["f"], case["g"]
    cg = rt.canon(g)
    labels = []
    try:
        vf, fl1, _ = fml.sat(cg, t, f)
        vg, fl2, _ = fml.sat(cg, t, g2)
    except fml.Undecided:
        return {"labels": ["ref_undecided"], "nontrivial": False, "violations": [], "inconclusive": "ref_undecided"}
    flags = set(fl1) | set(fl2)
    if flags:
        return {"labels": sorted(flags), "nontrivial": False, "violations": [], "inconclusive": "not_judged:" + sorted(flags)[0]}
    dt = rt.to_dt(rt.assign_ids(t)[0])
    # the formula as written, BEFORE bound-variable renaming (parse_isla applies ensure_unique_bound_variables itself, so
    # a formula that went through it has nothing left to rename): parsed with the renaming switched off from outside,
    # the renaming is then applied explicitly below as one of the rewrites under test
    raw = {}
    real_rename = L.ensure_unique_bound_variables
    try:
        L.ensure_unique_bound_variables = lambda formula, *a, **k: formula
        for key, src in (("F", f), ("G", g2)):
            try:
                raw[key] = L.parse_isla(fml.pr(src), g, SP, MP)
            except Exception as e:
                reraise_if_timeout(e)
    finally:
        L.ensure_unique_bound_variables = real_rename
    try:
        F = L.parse_isla(fml.pr(f), g, SP, MP)
        G = L.parse_isla(fml.pr(g2), g, SP, MP)
    except Exception as e:
        reraise_if_timeout(e)
        if "F" in raw and "G" in raw and not isinstance(e, SyntaxError):
            # the text parses with the renaming switched off and fails with it: the renaming raised
            return {"labels": ["rename_raises_in_parse"], "nontrivial": True, "inconclusive": None,
                    "violations": [{"sig": "unique_vars_on_parse:raises:%s" % type(e).__name__, "detail": str(e)[:300], "f": fml.pr(f), "g": fml.pr(g2)}]}
        return {"labels": ["parse_rejected"], "nontrivial": False, "violations": [], "inconclusive": "parse_rejected",
                "sample": {"f": fml.pr(f), "error": type(e).__name__ + ": " + str(e)[:200]}}
    if case.get("nary"):
        F, G = flatten(F), flatten(G)
        labels.append("rebuilt_nary")
    ar = max_arity(F)
    if ar > 2:
        labels.append("arity>2")
    numq = fml.has_kind(f, ("forallint", "existsint")) or fml.has_kind(g2, ("forallint", "existsint"))
    if numq:
        labels.append("numq")
    viol = []
    inconcl = []

    def ev(X):
        with c03.long_z3_timeout():
            r = evaluate(X, dt, g, SP, MP)
        return True if r.is_true() else False if r.is_false() else None

    # base verdicts (C03's business when they differ from the reference)
    try:
        bf, bg = ev(F), ev(G)
    except Exception as e:
        reraise_if_timeout(e)
        if "F" in raw and "G" in raw and not case.get("nary"):
            # evaluation of the parsed (renamed) formula raises; if the formula as written (renaming switched off)
            # evaluates to the reference verdict, the renaming inside parse_isla broke it
            try:
                rf, rg = ev(raw["F"]), ev(raw["G"])
            except Exception as e2:
                reraise_if_timeout(e2)
                rf = rg = "raises"
            if rf == vf and rg == vg:
                return {"labels": labels + ["rename_breaks_evaluation"], "nontrivial": True, "inconclusive": None,
                        "violations": [{"sig": "unique_vars_on_parse:evaluate_raises:%s" % type(e).__name__, "detail": str(e)[:300],
                                        "f": fml.pr(f), "g": fml.pr(g2)}]}
        return {"labels": labels + ["base_raises"], "nontrivial": False, "violations": [], "inconclusive": "base_raises:" + type(e).__name__}
    if bf is None or bg is None:
        return {"labels": labels + ["base_unknown"], "nontrivial": False, "violations": [], "inconclusive": "base_unknown"}
    if bf != vf or bg != vg:
        labels.append("base_disagrees_with_reference")
    vf, vg = bf if bf != vf else vf, bg if bg != vg else vg

    def check(name, build, expected, post=None):
        try:
            X = build()
        except RecursionError:
            # exponential DNFs (thousands of disjuncts, left-deep) exceed Python's recursion limit: a resource
            # limit, not a semantic defect
            inconcl.append(name + ":recursion_limit")
            return
        except Exception as e:
            reraise_if_timeout(e)
            viol.append({"sig": "%s:raises:%s" % (name, type(e).__name__), "detail": str(e)[:300], "f": fml.pr(f)})
            return
        if post is not None:
            try:
                ok = post(X)
            except Exception as e:
                reraise_if_timeout(e)
                ok = "post-condition raised %s" % type(e).__name__
            if ok is not True:
                viol.append({"sig": "%s:postcondition" % name, "f": fml.pr(f), "result": str(X)[:400], "detail": str(ok)})
        try:
            got = ev(X)
        except RecursionError:
            inconcl.append(name + ":recursion_limit")
            return
        except Exception as e:
            reraise_if_timeout(e)
            viol.append({"sig": "%s:evaluate_raises:%s" % (name, type(e).__name__), "detail": str(e)[:300], "f": fml.pr(f),
                         "result": str(X)[:400]})
            return
        if got is None:
            if numq:
                inconcl.append(name + ":unknown_numq")
            else:
                viol.append({"sig": "%s:unknown" % name, "f": fml.pr(f), "result": str(X)[:400]})
            return
        if got != expected:
            viol.append({"sig": "%s:verdict_changed" % name, "f": fml.pr(f), "g": fml.pr(g2), "string": rt.tyield(t),
                         "expected": expected, "observed": got, "result": str(X)[:600]})

    check("neg", lambda: -F, not vf)
    check("negneg", lambda: -(-F), vf)
    check("NegatedFormula", lambda: L.NegatedFormula(F), not vf)
    check("nnf", lambda: L.convert_to_nnf(F), vf, nnf_ok)
    check("nnf_negate", lambda: L.convert_to_nnf(F, negate=True), not vf, nnf_ok)
    check("nnf_of_negated", lambda: L.convert_to_nnf(L.NegatedFormula(F)), not vf, nnf_ok)
    check("dnf_deep", lambda: L.convert_to_dnf(L.convert_to_nnf(F)), vf)
    check("dnf_shallow", lambda: L.convert_to_dnf(L.convert_to_nnf(F), deep=False), vf, shallow_dnf_ok)
    # (verdict and absence of exceptions only: that the names come out pairwise distinct is what the function's name
    # promises, not what the property states, and it does not hold after iff/xor duplicated sub-formulas -- C07's open
    # finding bound-variable-renaming-not-stable; reported by the thorough tier, see DESIGN section 4)
    check("unique_vars", lambda: L.ensure_unique_bound_variables(F), vf)
    if "F" in raw:
        # the renaming applied to the formula as written (names may repeat in sibling scopes there)
        labels.append("unique_vars_raw")
        # (only what the property states -- same verdict, no exception: one pass does not always make the names
        # unique, e.g. w_0 bound three times in sibling scopes becomes w_0, w_1, w_1; C07 records the instability)
        check("unique_vars_raw", lambda: L.ensure_unique_bound_variables(raw["F"]), vf)
    check("and", lambda: F & G, vf and vg)
    check("or", lambda: F | G, vf or vg)
    check("and_neg", lambda: F & -G, vf and not vg)
    check("or_self_neg", lambda: F | -F, True)
    check("and_self_neg", lambda: F & -F, False)
    check("dnf_of_and", lambda: L.convert_to_dnf(L.convert_to_nnf(L.ConjunctiveFormula(F, G, F))), vf and vg)
    nontrivial = (fml.has_kind(f, ("and", "or", "implies", "iff", "xor")) and fml.has_kind(f, ("forall", "exists", "not")))
    return {"labels": labels + (["expected_true"] if vf else ["expected_false"]), "nontrivial": nontrivial, "violations": viol,
            "inconclusive": ("unknown_or_resource:" + inconcl[0].split(":")[-1]) if inconcl and not viol else None,
            "sample": {"f": fml.pr(f), "g": fml.pr(g2), "string": rt.tyield(t)[:60], "max_arity": ar}}


def health(stats, tier):
    c = stats["classes"]
    n = max(1, stats["evaluations"])
    if c.get("arity>2", 0) < 0.08 * n:
        return "n-ary combinators in only %d of %d cases" % (c.get("arity>2", 0), n)
    return None
